(* C01 - schema validation accepts exactly the values the schema allows.
   Only statements, closed by `exact`, with Print Assumptions, refuted witnesses for each guard
   and non-vacuity examples. *)
From KV Require Import Model.Base Model.Json Model.Schema Spec.SchemaSpec Spec.SchemaGuards Spec.SchemaGuardsRW
     Proofs.SchemaProofs Proofs.SchemaMain.
Local Open Scope list_scope.

(* For every regexp/format oracle, every settings record (default, fail-fast, multi-error; plain
   reading, reading as a request or as a response, with or without the read-only / write-only
   exclusions), every tree schema of any depth and every JSON value: under the named guards,
   validation does not panic and succeeds iff the value satisfies the schema in that reading
   (Spec/SchemaSpec.satb with the mode md_of st). *)
Theorem C01_visit_iff_sat :
  forall rc rm fo st s v,
    g_all2 rc rm fo (md_of st) (st_usenum st) s = true -> vg v = true ->
    is_panic (visit rc rm fo st s v) = false /\
    accepts (visit rc rm fo st s v) = satb rc rm fo (md_of st) s v.
Proof. intros rc rm fo st s v. exact (main_visit rc rm fo st s v). Qed.
Print Assumptions C01_visit_iff_sat.

(* ---- each guard is necessary: refuted witnesses (also the replay inputs of the findings) ---- *)
Definition core0 : score :=
  mkCore None [] false false false false "" false false false None None None 0 None "" 0 None [] 0 None None.
Definition s0 : schema := Sch core0 None [] [] [] None [] None.
Definition rc1 (_ : string) := true.
Definition rm1 (_ _ : string) := true.
Definition fo0 (_ _ : string) (_ : json) : option bool := None.

(* class 1: {"not":{}} is IsEmpty, so every non-null value is accepted *)
Theorem C01_refuted_isempty_shortcut :
  let s := Sch core0 (Some s0) [] [] [] None [] None in
  accepts (visit rc1 rm1 fo0 st_default s (JNum 1)) = true /\ satb rc1 rm1 fo0 md_plain s (JNum 1) = false.
Proof. vm_compute. split; reflexivity. Qed.
(* class 1, second form: {"properties":{"a":{}}} accepts {"a":null} *)
Theorem C01_refuted_isempty_shortcut_null_member :
  let s := Sch core0 None [] [] [] None [("a", s0)] None in
  accepts (visit rc1 rm1 fo0 st_default s (JObj [("a", JNull)])) = true /\
  satb rc1 rm1 fo0 md_plain s (JObj [("a", JNull)]) = false.
Proof. vm_compute. split; reflexivity. Qed.
(* formerly class 2 (repaired in /repo): exclusiveMinimum without minimum constrains nothing *)
Example C01_exclusive_without_bound_accepted :
  let c := mkCore None [] false false false false "" false true false None None None 0 None "" 0 None [] 0 None None in
  let s := Sch c None [] [] [] None [] None in
  g_all2 rc1 rm1 fo0 md_plain false s = true /\
  accepts (visit rc1 rm1 fo0 st_default s (JNum 1)) = true /\ satb rc1 rm1 fo0 md_plain s (JNum 1) = true.
Proof. vm_compute. repeat split. Qed.
(* class 3: [0,-0] passes uniqueItems (text comparison) although 0 = -0 *)
Theorem C01_refuted_unique_negzero :
  let c := mkCore None [] false false false false "" true false false None None None 0 None "" 0 None [] 0 None None in
  let s := Sch c None [] [] [] None [] None in
  let v := JArr [JNum 0; JNum (-0)] in
  accepts (visit rc1 rm1 fo0 st_default s v) = true /\ satb rc1 rm1 fo0 md_plain s v = false.
Proof. vm_compute. split; reflexivity. Qed.
(* class 4: minLength 2^63 wraps to a negative int64 and never fails *)
Theorem C01_refuted_huge_bound :
  let c := mkCore None [] false false false false "" false false false None None None 9223372036854775808 None "" 0 None [] 0 None None in
  let s := Sch c None [] [] [] None [] None in
  accepts (visit rc1 rm1 fo0 st_default s (JStr "a")) = true /\ satb rc1 rm1 fo0 md_plain s (JStr "a") = false.
Proof. vm_compute. split; reflexivity. Qed.
(* formerly class 5 (repaired in /repo): 0 against multipleOf 0 is rejected (NaN is no integer) *)
Example C01_multipleof_zero_rejected :
  let c := mkCore None [] false false false false "" false false false None None (Some 0%float) 0 None "" 0 None [] 0 None None in
  let s := Sch c None [] [] [] None [] None in
  g_all2 rc1 rm1 fo0 md_plain false s = true /\
  accepts (visit rc1 rm1 fo0 st_default s (JNum 0)) = false /\ is_panic (visit rc1 rm1 fo0 st_default s (JNum 0)) = false /\
  satb rc1 rm1 fo0 md_plain s (JNum 0) = false.
Proof. vm_compute. repeat split. Qed.
(* formerly class 6 (repaired in /repo, "fix: a pattern that does not compile ..."): an uncompilable
   pattern is inside the guards now - it is rejected in every mode, without a panic *)
Example C01_bad_pattern_rejected :
  let c := mkCore None [] false false false false "" false false false None None None 0 None "[" 0 None [] 0 None None in
  let s := Sch c None [] [] [] None [] None in
  g_all2 (fun _ => false) rm1 fo0 (md_of st_multi_) false s = true /\
  visit (fun _ => false) rm1 fo0 st_multi_ s (JStr "a") = Err (EMulti [ESchema S_badpattern c [] JNull []]) /\
  visit (fun _ => false) rm1 fo0 st_default s (JStr "a") = Err (ESchema S_badpattern c [] JNull []).
Proof. vm_compute. repeat split. Qed.

(* ---- non-vacuity: a nested schema/value pair meeting every hypothesis, on both verdicts ---- *)
Definition ex_schema : schema :=
  let num := mkCore (Some ["integer"]) [] false false false false "" false true false (Some 0%float) (Some 10%float) (Some 2%float) 0 None "" 0 None [] 0 None None in
  let str := mkCore (Some ["string"]) [] true false false false "" false false false None None None 1 (Some 3%N) "^a" 0 None [] 0 None None in
  let arr := mkCore (Some ["array"]) [] false false false false "" true false false None None None 0 None "" 1 (Some 3%N) [] 0 None None in
  let obj := mkCore (Some ["object"]) [] false false false false "" false false false None None None 0 None "" 0 None ["n"] 1 None (Some false) in
  let anyobj := mkCore (Some ["object"]) [] false false false false "" false false false None None None 0 None "" 0 None [] 0 None None in
  Sch obj None [] [] [Sch core0 None [Sch num None [] [] [] None [] None; Sch anyobj None [] [] [] None [] None] [Sch str None [] [] [] None [] None; Sch anyobj None [] [] [] None [] None] [] None [] None] None
      [("l", Sch arr None [] [] [] (Some (Sch num None [] [] [] None [] None)) [] None);
       ("n", Sch num None [] [] [] None [] None); ("s", Sch str None [] [] [] None [] None)] None.
Definition ex_good : json := JObj [("l", JArr [JNum 2; JNum 4]); ("n", JNum 6); ("s", JStr "ab")].
Definition ex_bad : json := JObj [("l", JArr [JNum 2; JNum 2]); ("n", JNum 6)].
Example C01_hyps_satisfiable :
  g_all2 rc1 (fun p s => String.prefix "a" s) fo0 md_plain false ex_schema = true /\
  g_all2 rc1 (fun p s => String.prefix "a" s) fo0 (md_of st_multi_) true ex_schema = true /\ vg ex_good = true /\
  vg ex_bad = true /\
  satb rc1 (fun p s => String.prefix "a" s) fo0 md_plain ex_schema ex_good = true /\
  satb rc1 (fun p s => String.prefix "a" s) fo0 md_plain ex_schema ex_bad = false.
Proof. vm_compute. repeat split; reflexivity. Qed.

(* ---- the pattern keyword: how a pattern reaches Go's regexp ---- *)
(* (The regular-expression engine itself is an oracle of C01_visit_iff_sat; the translation in front
   of it is modelled: Model/Pattern.v.)  Read a pattern as ECMA 262 does - a sequence of plain
   characters, escape pairs and code point escapes \uXXXX (hexadecimal digits of either case): the
   rewriting maps every unit on its own, a code point escape to \x{XXXX} and anything else to
   itself.  In particular the u after an escaped backslash is left alone, and two adjacent
   escapes are both rewritten - the two defects repaired in /repo (c07d433) and the seeded change
   C01-10 are exactly the ways to break this. *)
From KV Require Import Model.Pattern Proofs.PatternProofs.
Theorem C01_pattern_escapes_rewritten_unitwise :
  forall us, canonical us = true -> into_go (text us) = go_text us.
Proof. exact into_go_units. Qed.
Print Assumptions C01_pattern_escapes_rewritten_unitwise.
Theorem C01_pattern_without_backslash_unchanged : forall s, no_bslash s = true -> into_go s = s.
Proof. exact into_go_plain. Qed.
Example C01_pattern_rewriting_examples :
  into_go "^h\u00e9llo$" = "^h\x{00e9}llo$" /\ into_go "^\\u0041$" = "^\\u0041$" /\ into_go "^\u0041\u0042+$" = "^\x{0041}\x{0042}+$".
Proof. vm_compute. repeat split. Qed.
