(* C16 - internalising refs yields a self-contained, equivalent document (partial: the name
   derivation and the add-to-components step; the descent is exercised on the Go side). *)
From KV Require Import Model.Base Model.DocValidate Model.Internalize Proofs.C16Proofs.
Local Open Scope list_scope.

(* every name DefaultRefNameResolver derives is a legal component name character by character *)
Theorem C16_name_is_identifier :
  forall root file frag coll, all_chars ident_char (name_of root file frag coll) = true.
Proof. exact name_of_ident. Qed.
Print Assumptions C16_name_is_identifier.

(* every external reference visited is rewritten to "#/components/<collection>/<name>", the others
   keep their text *)
Theorem C16_self_contained :
  forall xs comps, Forall2 (fun x t => if is_external x then t = new_text x else t = x_text x) xs (snd (internalize comps xs)).
Proof. exact internalize_texts. Qed.
Theorem C16_new_text_is_internal : forall x, String.prefix "#/components/" (new_text x) = true.
Proof. exact new_text_internal. Qed.

(* the rewritten reference designates the object the original one resolved to, provided the
   resolver is injective on the targets met (same collection + same name => same object) and the
   name is free or already holds that object in the root's components *)
Theorem C16_preserves_targets :
  forall xs comps x,
  In x xs -> is_external x = true ->
  (forall y, In y xs -> is_external y = true -> x_coll y = x_coll x -> x_name y = x_name x -> x_val y = x_val x) ->
  (clookup (x_coll x, x_name x) comps = None \/ clookup (x_coll x, x_name x) comps = Some (x_val x)) ->
  clookup (x_coll x, x_name x) (fst (internalize comps xs)) = Some (x_val x).
Proof. exact internalize_preserves. Qed.
Print Assumptions C16_preserves_targets.

(* refuted: the default resolver is not injective - a_b.json and a/b.json get one name - and two
   targets under one name are merged: the second reference then designates the first object *)
Theorem C16_refuted_names_collide :
  name_of "/api/root.json" "/api/a_b.json" "" "schemas" = name_of "/api/root.json" "/api/a/b.json" "" "schemas" /\
  name_of "/api/root.json" "/api/ext.json" "/components/schemas/B" "schemas"
  = name_of "/api/root.json" "/api/ext_B.json" "" "schemas".
Proof. vm_compute. split; reflexivity. Qed.
Theorem C16_refuted_distinct_targets_merged :
  let x := mkX "schemas" "a_b.json" "a_b" 2 false in
  let y := mkX "schemas" "a/b.json" "a_b" 3 false in
  clookup ("schemas", "a_b") (fst (internalize [] [x; y])) = Some 2%N /\ snd (internalize [] [x; y]) = [new_text x; new_text y].
Proof. vm_compute. split; reflexivity. Qed.
(* refuted: a root component that is itself an external reference under the name the resolver
   derives finds "its" name taken - by itself - and becomes a reference to itself *)
Theorem C16_refuted_self_reference :
  let x := mkX "responses" "resp.json" (name_of "/api/root.json" "/api/resp.json" "" "responses") 2 false in
  x_name x = "resp"%string /\
  snd (internalize [(("responses", "resp"), 0%N)] [x]) = ["#/components/responses/resp"%string] /\
  clookup ("responses", "resp") (fst (internalize [(("responses", "resp"), 0%N)] [x])) = Some 0%N.
Proof. vm_compute. repeat split. Qed.

(* non-vacuity: distinct names, fresh: both preserved *)
Example C16_example :
  let x := mkX "schemas" "ext.json#/components/schemas/E" (name_of "/api/root.json" "/api/ext.json" "/components/schemas/E" "schemas") 2 false in
  let y := mkX "schemas" "sub/deep.json#/components/schemas/D" (name_of "/api/root.json" "/api/sub/deep.json" "/components/schemas/D" "schemas") 3 true in
  x_name x = "ext_E"%string /\ x_name y = "sub_deep_D"%string /\
  clookup ("schemas", "ext_E") (fst (internalize [] [x; y])) = Some 2%N /\
  clookup ("schemas", "sub_deep_D") (fst (internalize [] [x; y])) = Some 3%N.
Proof. vm_compute. repeat split. Qed.
