(* C08 - responses are checked against the entry chosen for their status code. *)
From KV Require Import Model.Base Model.Json Model.Schema Model.Lookup Model.Response
     Spec.SchemaSpec Spec.ResponseSpec Proofs.C08Proofs.
Local Open Scope list_scope.

(* selection by exact status code, then status class, then default - for every response map and
   every status code *)
Theorem C08_status_precedence :
  forall (A : Type) (responses : list (string * A)) n,
    select_response responses n = select_spec responses n.
Proof. exact @select_eq. Qed.
Theorem C08_class_keys :
  forall n, (100 <= n)%N -> (n <= 599)%N -> In (class_key n) ["1XX"; "2XX"; "3XX"; "4XX"; "5XX"].
Proof. exact class_key_range. Qed.

(* media type by exact string, then without parameters, then type/*, then */* - for every content
   map and every Content-Type string (also used by C06) *)
Theorem C08_content_precedence :
  forall (A : Type) (content : list (string * A)) mime,
    content_get content mime = content_spec content mime.
Proof. exact @content_eq. Qed.

(* the whole decision: for every option set, method, status, response map, content type and body
   value, under the named guards, validation passes iff the property's conditions hold (headers and
   body read as a response through Spec/SchemaSpec.satb), and never panics *)
Theorem C08_response_iff :
  forall rc rm fo o is_head status responses ct body,
    g_resp rc rm fo o status responses ct body = true ->
    is_rpanic (fst (validate_response rc rm fo o is_head status responses ct body)) = false /\
    is_rok (fst (validate_response rc rm fo o is_head status responses ct body))
    = response_spec rc rm fo o is_head status responses ct body.
Proof. exact response_iff. Qed.
Print Assumptions C08_response_iff.

(* the response body stays readable on every path *)
Theorem C08_body_readable :
  forall rc rm fo o is_head status responses ct body,
    snd (validate_response rc rm fo o is_head status responses ct body) <> BLost.
Proof. exact body_readable. Qed.
Print Assumptions C08_body_readable.

(* formerly guard class 1 (repaired in /repo): a response header described by `content` is checked
   for presence only, without a panic *)
Example C08_header_by_content_checked_for_presence :
  let d := mkRDef [mkHdr "X-A" true None false None] [] in
  let d' := mkRDef [mkHdr "X-A" true None true None] [] in
  let run d := fst (validate_response (fun _ => true) (fun _ _ => true) (fun _ _ _ => None)
                      (mkVOpts false false false false) false 200 [("200", d)] "" None) in
  run d = RErr (RHeaderMissing "X-A") /\ run d' = ROk.
Proof. vm_compute. split; reflexivity. Qed.

Example C08_hyps_satisfiable :
  let c := mkCore (Some ["integer"]) [] false false false false "" false false false None None None 0 None "" 0 None [] 0 None None in
  let s := Sch c None [] [] [] None [] None in
  let d := mkRDef [mkHdr "X-A" true (Some s) true (Some (JNum 5))] [("application/json", mkMedia (Some s))] in
  let rs := [("2XX", d)] in
  g_resp (fun _ => true) (fun _ _ => true) (fun _ _ _ => None) (mkVOpts true false false false) 204 rs "application/json; charset=utf-8" (Some (JNum 1.5)) = true /\
  response_spec (fun _ => true) (fun _ _ => true) (fun _ _ _ => None) (mkVOpts true false false false) false 204 rs "application/json; charset=utf-8" (Some (JNum 1.5)) = false /\
  response_spec (fun _ => true) (fun _ _ => true) (fun _ _ _ => None) (mkVOpts true false false false) false 204 rs "application/json; charset=utf-8" (Some (JNum 2)) = true.
Proof. vm_compute. repeat split. Qed.
