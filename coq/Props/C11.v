(* C11 - the loader reads nothing beyond the root unless external references are allowed. *)
From KV Require Import Model.Base Model.Loader Spec.LoaderSpec Proofs.LoaderProofs Exec.LoaderExec.
Local Open Scope list_scope.

(* Switch off: for every store of files, every path-resolution function, every root document and
   entry point, at every fuel - whether loading succeeds or fails - every location passed to the
   reader is the location the root was given under, and an in-memory load (LoadFromData) reads
   nothing at all.  Covers every call path to readURL: the root read, single-element loads,
   document loads of resolveComponent and its raw re-read of the current document. *)
Theorem C11_closed :
  forall files rpath fuel entry root rootfile x,
    In x (rreads (fun s => s) (load false files rpath fuel entry root rootfile)) -> x = root /\ entry <> 1%N.
Proof. exact load_closed. Qed.
Print Assumptions C11_closed.

(* the invariant behind it, for any state the walk starts from: with the switch off a step of any
   resolve routine only ever reads the current document path *)
Theorem C11_step_invariant :
  forall files rpath fuel k dest nd inst path doc docfile dp s,
    within dp s (rreads fst (resolve false files rpath fuel k dest nd inst path doc docfile dp s)).
Proof. intros files rpath fuel. exact (resolve_within files rpath fuel). Qed.
Print Assumptions C11_step_invariant.

(* Switch on - refuted: the second walk of a resolved component's children runs under the
   referring document's path, so a reference text found in the root is resolved against the
   location of another file when a cycle left it unresolved: /api/sub/ext.json is read although no
   document refers to it (ext.json is referred to from /api/root.json only) *)
Definition obj (id : N) (kids : list (string * string * kind * node)) : node := NObj id kids.
Definition w_root : file := mkFile
  [(["components"; "schemas"; "A"], KSchema, true, obj 1 [("properties", "x", KSchema, NRef "ext.json#/components/schemas/G")]);
   (["components"; "schemas"; "B"], KSchema, true, obj 2 [("properties", "c", KSchema, NRef "ext.json#/components/schemas/E")])] [] None.
Definition w_ext : file := mkFile
  [(["components"; "schemas"; "E"], KSchema, true, NRef "#/components/schemas/G");
   (["components"; "schemas"; "G"], KSchema, true, obj 3 [("properties", "g", KSchema, NRef "sub/deep.json#/components/schemas/D")])] [] None.
Definition w_deep : file := mkFile
  [(["components"; "schemas"; "D"], KSchema, true, obj 4 [("properties", "back", KSchema, NRef "../root.json#/components/schemas/B")])] [] None.
Definition w_files (u : string) : option file :=
  if String.eqb u "/api/root.json" then Some w_root else if String.eqb u "/api/ext.json" then Some w_ext
  else if String.eqb u "/api/sub/deep.json" then Some w_deep else None.
Definition w_rpath (b : option string) (u : string) : string :=
  match b with
  | Some "/api/root.json" => if String.eqb u "ext.json" then "/api/ext.json" else u
  | Some "/api/ext.json" => if String.eqb u "sub/deep.json" then "/api/sub/deep.json" else u
  | Some "/api/sub/deep.json" => if String.eqb u "../root.json" then "/api/root.json" else if String.eqb u "ext.json" then "/api/sub/ext.json" else u
  | _ => u
  end.
Theorem C11_refuted_open_wrong_base :
  exists rd, load true w_files w_rpath 50 0 "/api/root.json" w_root = RErr rd /\ In "/api/sub/ext.json" rd /\
             ~ In "/api/sub/ext.json" (reach_uris w_files w_rpath 10 ["/api/root.json"]).
Proof. eexists. split; [vm_compute; reflexivity|]. split; [cbn; tauto|]. vm_compute. intuition discriminate. Qed.
