(* C15 - a loaded document can be shared by concurrent validations (partial: the footprint
   abstraction; the Go memory model and scheduler are not modelled - the race detector observes them). *)
From KV Require Import Model.Base Model.Conc Proofs.C15Proofs Gen.Writes.
Local Open Scope list_scope.

(* any number of calls, any footprints: if every call only writes its own cells or synchronised
   shared cells, and reads synchronised shared cells under the same synchronisation, no two calls
   have a data race *)
Theorem C15_discipline_race_free :
  forall synchronised fps,
  (forall i fp, nth_error fps i = Some fp -> forallb (respects synchronised i) fp = true) ->
  forall i j fi fj a b, i <> j -> nth_error fps i = Some fi -> nth_error fps j = Some fj ->
                        In a fi -> In b fj -> conflict a b = false.
Proof. exact footprints_race_free. Qed.
Print Assumptions C15_discipline_race_free.

(* caches whose content is a function of the key (compiledPatterns: pattern -> compiled matcher;
   typeInfos: type -> field table) are transparent: under every schedule of every number of threads
   each lookup returns what a lone call computes, so verdicts do not depend on the interleaving *)
Theorem C15_cache_transparent :
  forall (V : Type) (f : string -> V) sched t,
    filter (fun tv => Nat.eqb (fst tv) t) (snd (run V f [] sched))
    = map (fun tk => (fst tk, f (snd tk))) (filter (fun tk => Nat.eqb (fst tk) t) sched).
Proof. exact thread_results_solo. Qed.
Print Assumptions C15_cache_transparent.

(* per-run obligation on the table regenerated from /repo: no function reachable from traffic writes
   an unsynchronised package variable - the writes are those of package initialisation and of the
   Register*/Define* configuration functions.  (Until 578aaa5 the table had one more row, the lazy
   re-initialisation of the uniqueness checker inside visitJSONArray after a nil registration: the
   race the C15 child now exhibits when that row comes back.) *)
Theorem C15_gen_writes_ok :
  traffic_writes package_writes = [].
Proof. vm_compute. reflexivity. Qed.

(* the caches named by the property are declared with their synchronisation *)
Theorem C15_gen_caches_synchronised :
  existsb (fun v => match v with (p, n, c) => String.eqb n "compiledPatterns" && String.eqb c "syncmap" end) package_vars = true /\
  existsb (fun w => String.eqb (w_var w) "typeInfos" && w_locked w) package_writes = true /\
  forallb (fun w => negb (String.eqb (w_var w) "typeInfos") || w_locked w) package_writes = true.
Proof. vm_compute. repeat split. Qed.

(* non-vacuity / sharpness: an unsynchronised write to a shared cell is a conflict *)
Example C15_conflict_detected :
  conflict (Wr (Sh "doc.Paths") false) (Rd (Sh "doc.Paths") false) = true /\
  respects (fun _ => false) 0 (Wr (Sh "doc.Paths") false) = false.
Proof. split; reflexivity. Qed.
