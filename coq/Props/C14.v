(* C14 - the middleware calls the handler only for valid requests, shields clients.
   Only statements, closed by `exact`, with Print Assumptions. *)
From KV Require Import Model.Base Model.Middleware Spec.MiddlewareSpec Proofs.C14Proofs.

(* the handler runs iff a route is found and the request validates: for every oracle outcome,
   every error callback, both modes and every handler call sequence *)
Theorem C14_handler_iff :
  forall route_ok req_ok resp_ok ef strict hs,
    o_called (run route_ok req_ok resp_ok ef strict hs) = route_ok && req_ok.
Proof. exact handler_iff. Qed.
Print Assumptions C14_handler_iff.

(* the whole property (Spec/MiddlewareSpec.spec_ok): not-found / bad-request answered by the
   error callback alone; strict + invalid response: only the error callback's bytes reach the
   client; strict + valid: exactly the handler's status and body; non-strict: pass-through.
   No guard: since the fix: commit for finding F-C14-1 (strict mode, handler writes nothing)
   the statement holds for every call sequence, including the empty one. *)
Theorem C14_middleware_meets_spec :
  forall route_ok req_ok resp_ok ef strict hs,
    spec_ok route_ok req_ok resp_ok ef strict hs (run route_ok req_ok resp_ok ef strict hs) = true.
Proof. exact run_spec. Qed.
Print Assumptions C14_middleware_meets_spec.

(* non-strict mode needs no guard at all *)
Theorem C14_nonstrict_passthrough :
  forall route_ok req_ok resp_ok ef hs,
    spec_ok route_ok req_ok resp_ok ef false hs (run route_ok req_ok resp_ok ef false hs) = true.
Proof. exact run_spec_nonstrict. Qed.
Print Assumptions C14_nonstrict_passthrough.

(* non-vacuity: the spec is not constantly true (it rejects an outcome that leaks a handler
   byte, and one that panics where the handler wrote nothing) *)
Example C14_guard_sat :
  g_wrote [HSetHeader "a" "b"; HFlush; HWrite "x"; HWriteHeader 500; HWriteHeader 201; HWrite "y"] = true.
Proof. reflexivity. Qed.
Example C14_spec_rejects_leak :
  spec_ok true true (fun _ _ => false) default_ef true [HWriteHeader 200; HWrite "secret"]
    (mkOut (mkClient true 200 "secret" false) true [] [] 200 "secret") = false.
Proof. vm_compute. reflexivity. Qed.
Example C14_spec_rejects_panic_on_silent_handler :
  spec_ok true true (fun _ _ => true) default_ef true []
    (mkOut (mkClient false 200 "" true) true [] [] 0 "") = false.
Proof. vm_compute. reflexivity. Qed.
