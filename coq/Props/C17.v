(* C17 - v2 <-> v3 conversion preserves the API a document describes. *)
From KV Require Import Model.Base Model.Json Model.ParamCodec Model.Conv Proofs.C17Proofs Gen.ConvTables.
Local Open Scope list_scope.

(* references: whatever order Go iterates the prefix map in, every Swagger 2 reference is rewritten
   to the matching OpenAPI 3 location and back to itself; every component reference lands on a
   Swagger 2 location on the way back *)
Theorem C17_ref_to_v3 :
  forall o old new x, In o orders -> In (old, new) ref_pairs -> to_v3_ref o (old ++ x) = (new ++ x)%string.
Proof. exact to_v3_any_order. Qed.
Theorem C17_ref_roundtrip :
  forall r o1 o2, In o1 orders -> In o2 orders -> is_v2_ref r = true -> from_v3_ref o2 (to_v3_ref o1 r) = r.
Proof. exact ref_roundtrip. Qed.
Theorem C17_refs_land_in_v2 :
  forall o x, In o orders ->
  from_v3_ref o ("#/components/schemas/" ++ x) = ("#/definitions/" ++ x)%string /\
  from_v3_ref o ("#/components/responses/" ++ x) = ("#/responses/" ++ x)%string /\
  from_v3_ref o ("#/components/parameters/" ++ x) = ("#/parameters/" ++ x)%string /\
  from_v3_ref o ("#/components/requestBodies/" ++ x) = ("#/parameters/" ++ x)%string.
Proof. exact from_v3_lands_in_v2. Qed.
Print Assumptions C17_ref_roundtrip.

(* generic: a field copied under its own name keeps its value, for every record *)
Theorem C17_copy_preserves :
  forall s f src, (forall c, In c (cs_copies s) -> fst c = f -> snd c = f) -> copies s f = true ->
  assoc f (convert s src) = assoc f src.
Proof. exact copy_preserves. Qed.
Print Assumptions C17_copy_preserves.

(* per-run obligations on the copy tables read from openapi2_conv.go: each conversion site copies
   every constraint-carrying field; the fields it is known not to copy are the recorded findings *)
Theorem C17_gen_schema_to_v3 :
  covers (find_site "ToV3SchemaRef" "openapi3.Schema" 1 conv_sites) ("Discriminator" :: "Not" :: schema_constraints) ["Not"] = true.
Proof. vm_compute. reflexivity. Qed.
Theorem C17_gen_schema_from_v3 :
  covers (find_site "FromV3SchemaRef" "openapi2.Schema" 1 conv_sites) ("Discriminator" :: "Not" :: schema_constraints) ["Discriminator"; "Not"] = true.
Proof. vm_compute. reflexivity. Qed.
Theorem C17_gen_param_to_v3 :
  covers (find_site "ToV3Parameter" "openapi3.Parameter" 1 conv_sites) ("Schema" :: param_fields) [] = true /\
  covers (find_site "ToV3Parameter" "openapi2.Schema" 1 conv_sites) param_constraints_v3 [] = true.
Proof. vm_compute. split; reflexivity. Qed.
Theorem C17_gen_param_from_v3 :
  covers (find_site "FromV3Parameter" "openapi2.Parameter" 2 conv_sites) (param_fields ++ param_constraints_v2) [] = true.
Proof. vm_compute. reflexivity. Qed.
(* form parameters on the way back: `format` is not restored (recorded finding) *)
Theorem C17_gen_form_param_from_v3 :
  covers (find_site "FromV3RequestBodyFormData" "openapi2.Parameter" 2 conv_sites)
         ("Name" :: "In" :: "Required" :: param_constraints_v2) ["Format"] = true.
Proof. vm_compute. reflexivity. Qed.
