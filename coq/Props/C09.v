(* C09 - routers return the declared operation whose template matches the URL. *)
From KV Require Import Model.Base Model.Lookup Model.ParamCodec Model.Router Proofs.C09Proofs.
Local Open Scope list_scope.

(* legacy router: whatever node Match returns is reached from the root through a token sequence
   (method + template) that spells the request text, the returned values being exactly the variable
   segments - for every trie and every text *)
Theorem C09_legacy_match_sound :
  forall t rem vals n vals',
    tmatch t rem vals = Some (n, vals') ->
    exists toks vs, reach t toks n /\ spells toks rem vs /\ vals' = vals ++ vs.
Proof. exact tmatch_sound. Qed.
Print Assumptions C09_legacy_match_sound.

(* legacy router: if some valued node is reachable through tokens that spell the text, Match
   returns a valued node (every filled template is routed) *)
Theorem C09_legacy_match_complete :
  forall t toks n, reach t toks n -> has_value n = true ->
  forall rem vs vals, spells toks rem vs ->
  exists n' vals', tmatch t rem vals = Some (n', vals') /\ has_value n' = true.
Proof. exact tmatch_complete. Qed.
Print Assumptions C09_legacy_match_complete.

(* gorilla/mux router (whole-segment templates): parameters reproduce the path; filled templates
   match; found routes are declared for the method; not-found iff no template matches; templates are
   tried in non-decreasing number of variables (a literal path wins over a templated one) *)
Theorem C09_gorilla_params_reproduce_path :
  forall t p m, NoDup (vars_of t) -> segs_match t p = Some m -> fill t m = Some p.
Proof. exact segs_match_sound. Qed.
Theorem C09_gorilla_filled_template_matches :
  forall t m p, fill t m = Some p -> (forall n v, In n (vars_of t) -> assoc n m = Some v -> v <> ""%string) ->
  exists m', segs_match t p = Some m'.
Proof. exact segs_match_complete. Qed.
Theorem C09_gorilla_found_sound :
  forall routes method path r m, gorilla_find routes method path = GFound r m ->
  exists rt, In rt routes /\ gr_id rt = r /\ str_in method (gr_methods rt) = true /\ segs_match (gr_template rt) path = Some m.
Proof. exact gorilla_found_sound. Qed.
Theorem C09_gorilla_notfound_iff :
  forall routes method path,
    gorilla_find routes method path = GNotFound <-> forall rt, In rt routes -> segs_match (gr_template rt) path = None.
Proof. exact gorilla_notfound_iff. Qed.
Theorem C09_matching_order_sorted : forall paths, sorted_rb (in_matching_order paths).
Proof. exact in_matching_order_sorted. Qed.
Print Assumptions C09_gorilla_params_reproduce_path.

(* refuted witnesses = findings *)
(* legacy: GET /b is routed to /b/{x} with x = "" (the variable token matches an empty segment) *)
Theorem C09_refuted_legacy_empty_segment :
  exists root, tmatch root "GET /b" [] <> None /\
  match tokens_of "GET /b/{x}" with Some (toks, names) => root = tinsert toks names 0 (T [] None []) | None => False end.
Proof. eexists. split; [|vm_compute; reflexivity]. vm_compute. discriminate. Qed.
(* gorilla: the first template whose path matches decides, so a literal sibling declared for another
   method shadows a templated route: GET /a/b with /a/b: POST and /a/{x}: GET -> method not allowed *)
Theorem C09_refuted_gorilla_method_shadow :
  gorilla_find [mkGRoute [SLit ""; SLit "a"; SLit "b"] ["POST"] 0; mkGRoute [SLit ""; SLit "a"; SVar "x"] ["GET"] 1]
               "GET" ["" ; "a"; "b"] = GMethodNotAllowed.
Proof. vm_compute. reflexivity. Qed.
