(* C09 - routers return the declared operation whose template matches the URL. *)
From KV Require Import Model.Base Model.Lookup Model.ParamCodec Model.Router Model.Server Spec.ServerSpec Proofs.C09Proofs Proofs.ServerProofs Proofs.ServerSpecProofs.
Local Open Scope list_scope.

(* legacy router: whatever node Match returns is reached from the root through a token sequence
   (method + template) that spells the request text, the returned values being exactly the variable
   segments - for every trie and every text *)
Theorem C09_legacy_match_sound :
  forall t rem vals n vals',
    tmatch t rem vals = Some (n, vals') ->
    exists toks vs, reach t toks n /\ spells toks rem vs /\ vals' = vals ++ vs.
Proof. exact tmatch_sound. Qed.
Print Assumptions C09_legacy_match_sound.

(* legacy router: if some valued node is reachable through tokens that spell the text, Match
   returns a valued node (every filled template is routed) *)
Theorem C09_legacy_match_complete :
  forall t toks n, reach t toks n -> has_value n = true ->
  forall rem vs vals, spells toks rem vs ->
  exists n' vals', tmatch t rem vals = Some (n', vals') /\ has_value n' = true.
Proof. exact tmatch_complete. Qed.
Print Assumptions C09_legacy_match_complete.

(* gorilla/mux router (segments that are a literal, a variable, or a variable between a literal prefix and suffix): parameters reproduce the path; filled templates
   match; found routes are declared for the method; not-found iff no template matches; templates are
   tried in non-decreasing number of variables (a literal path wins over a templated one) *)
Theorem C09_gorilla_params_reproduce_path :
  forall t p m, NoDup (vars_of t) -> segs_match t p = Some m -> fill t m = Some p.
Proof. exact segs_match_sound. Qed.
Theorem C09_gorilla_filled_template_matches :
  forall t m p, fill t m = Some p -> (forall n v, In n (vars_of t) -> assoc n m = Some v -> v <> ""%string) ->
  exists m', segs_match t p = Some m'.
Proof. exact segs_match_complete. Qed.
Theorem C09_gorilla_found_sound :
  forall routes method path r m, gorilla_find routes method path = GFound r m ->
  exists rt, In rt routes /\ gr_id rt = r /\ str_in method (gr_methods rt) = true /\ segs_match (gr_template rt) path = Some m.
Proof. exact gorilla_found_sound. Qed.
Theorem C09_gorilla_notfound_iff :
  forall routes method path,
    gorilla_find routes method path = GNotFound <-> forall rt, In rt routes -> segs_match (gr_template rt) path = None.
Proof. exact gorilla_notfound_iff. Qed.
Theorem C09_matching_order_sorted : forall paths, sorted_rb (in_matching_order paths).
Proof. exact in_matching_order_sorted. Qed.
Print Assumptions C09_gorilla_params_reproduce_path.


(* ---- servers (openapi3.Server.MatchRawURL, ParameterNames, Servers.MatchURL, legacy FindRoute) ---- *)
(* the matching loop terminates: the fuel of match_raw_url is never exhausted *)
Theorem C09_server_match_terminates : forall pat url, match_raw_url pat url <> MFuel.
Proof. intros pat url. apply match_raw_fuel. auto. Qed.
(* a match decomposes the URL: the server pattern with its variables replaced by the reported values
   (a final "/" of the pattern being optional), followed by the remainder, which starts with "/" *)
Theorem C09_server_match_sound : forall pat url vals rest,
  match_raw_url pat url = MYes vals rest ->
  exists names consumed rest0,
    url = (consumed ++ rest0)%string /\ rest = slashify rest0 /\ String.prefix "/" rest = true /\ fills pat names vals consumed.
Proof.
  intros pat url vals rest H. apply match_raw_sound in H.
  destruct H as (names & vals' & consumed & rest0 & H1 & H2 & H3 & H4 & H5). simpl in H1. subst vals'.
  exists names, consumed, rest0. auto.
Qed.
(* every URL made of the filled pattern and a path is matched, with exactly the values used, when no
   value contains '/' or the character that follows its variable in the pattern *)
Theorem C09_server_match_complete : forall pat names vals s rest0,
  fills pat names vals s -> findable pat vals -> (rest0 = ""%string \/ String.prefix "/" rest0 = true) ->
  match_raw_url pat (s ++ rest0) = MYes vals (slashify rest0).
Proof. intros pat names vals s rest0 Hf Hd Hr. apply (match_raw_complete pat names vals s Hf Hd rest0 Hr _ []). auto. Qed.
(* ParameterNames lists the variables in the order of the values *)
Theorem C09_server_parameter_names : forall pat names vals s, fills pat names vals s ->
  parameter_names pat = Some names /\ List.length names = List.length vals.
Proof. exact fills_parameter_names. Qed.
(* Servers.MatchURL answers with the first declared server that matches, and with none iff none does *)
Theorem C09_servers_first_match : forall servers url i ps rest,
  match_url servers url = Some (i, ps, rest) ->
  (exists s, nth_error servers i = Some s /\ match_raw_url s url = MYes ps rest) /\
  forall j s', j < i -> nth_error servers j = Some s' -> forall ps' rest', match_raw_url s' url <> MYes ps' rest'.
Proof.
  intros servers url i ps rest H. apply match_url_first in H. destruct H as (j & Hj & Hs & Hall). simpl in Hj. subst j. auto.
Qed.
Theorem C09_servers_none_iff : forall servers url,
  match_url servers url = None <-> forall s, In s servers -> forall ps rest, match_raw_url s url <> MYes ps rest.
Proof. intros. apply match_url_none. Qed.
(* the legacy router on a document with servers: a returned route lies under the first matching
   declared server, and what follows the filled server pattern is what the trie matched *)
Theorem C09_legacy_with_servers_sound : forall servers root method url lit known r ps oi,
  servers <> [] ->
  legacy_find_srv servers root method url lit known = (RFound r ps, oi) ->
  exists i s names vals consumed rest0 n vals',
    oi = Some i /\ nth_error servers i = Some s /\ fills s names vals consumed /\ url = (consumed ++ rest0)%string /\
    (forall j s', j < i -> nth_error servers j = Some s' -> forall v' r', match_raw_url s' url <> MYes v' r') /\
    tmatch root (strip_trailing_slashes (method ++ " " ++ slashify rest0)) [] = Some (n, vals') /\
    t_value n = Some r /\ ps = zip_params (t_names n) vals'.
Proof. exact legacy_find_srv_sound. Qed.
(* the legacy lookup never panics (the nil node of a declared path that does not match its own pattern was repaired in /repo) *)
Theorem C09_legacy_find_never_panics : forall root method path lit known w, legacy_find root method path lit known <> RPanicR w.
Proof.
  intros root method path lit known w. unfold legacy_find.
  destruct (tmatch root _ []) as [[n vals]|]; [destruct (t_value n); discriminate|].
  destruct lit as [ops|]; [|discriminate]. destruct (known && str_in method ops); discriminate.
Qed.
Theorem C09_legacy_no_server_not_found : forall servers root method url lit known,
  servers <> [] -> (forall s, In s servers -> forall ps rest, match_raw_url s url <> MYes ps rest) ->
  legacy_find_srv servers root method url lit known = (RNotFound, None).
Proof. exact legacy_find_srv_no_server. Qed.
(* ... and, the other way round: every URL made of a declared server's pattern filled with values the
   matcher finds again (C09_server_match_complete), followed by a path whose text reaches a valued node
   of the trie, is routed to that node's route under that server - when no server declared earlier
   matches the URL (Servers.MatchURL returns the first match) *)
Theorem C09_legacy_server_routing_complete :
  forall servers root method lit known i s names vals consumed rest0 n vals' r,
  nth_error servers i = Some s ->
  fills s names vals consumed -> findable s vals -> (rest0 = ""%string \/ String.prefix "/" rest0 = true) ->
  (forall j s', j < i -> nth_error servers j = Some s' -> forall ps' rest', match_raw_url s' (consumed ++ rest0) <> MYes ps' rest') ->
  tmatch root (strip_trailing_slashes (method ++ " " ++ slashify rest0)) [] = Some (n, vals') -> t_value n = Some r ->
  legacy_find_srv servers root method (consumed ++ rest0) lit known = (RFound r (zip_params (t_names n) vals'), Some i).
Proof. exact legacy_find_srv_complete. Qed.
Print Assumptions C09_legacy_server_routing_complete.
Example C09_legacy_server_routing_complete_example :
  match tokens_of "GET /a/{id}" with
  | Some (toks, names) =>
      legacy_find_srv ["https://old.example/v0"; "https://{host}.example/v1/"] (tinsert toks names 7 (T [] None []))
                      "GET" "https://api.example/v1/a/42" (fun _ => None) false
      = (RFound 7 [("id", "42")], Some 1)
  | None => False
  end.
Proof. vm_compute. reflexivity. Qed.
(* the two boolean functions the judge evaluates on the Go observations mean what the theorems above
   speak of: [reproduces] implies the decomposition of C09_server_match_sound, [under_server] holds
   exactly for the URLs that are the pattern filled with non-empty slash-free values and a path *)
Theorem C09_spec_reproduces_means_fills : forall pat url vals rest, reproduces pat url vals rest = true ->
  exists names consumed rest0, fills pat names vals consumed /\ url = (consumed ++ rest0)%string /\
                               rest = slashify rest0 /\ String.prefix "/" rest = true.
Proof. exact reproduces_spec. Qed.
Theorem C09_spec_under_server_iff : forall pat url, under_server pat url = true <->
  exists names vals consumed rest0, fills pat names vals consumed /\ url = (consumed ++ rest0)%string /\
                                    boundary rest0 = true /\ Forall good_val vals.
Proof. exact under_server_spec. Qed.
Print Assumptions C09_spec_under_server_iff.
Print Assumptions C09_server_match_sound.
Print Assumptions C09_server_match_complete.
Print Assumptions C09_legacy_with_servers_sound.
(* the premises of the completeness theorem are satisfiable *)
Example C09_server_hypotheses_satisfiable :
  fills "https://{t}.example.com/v1/" ["t"] ["acme"] "https://acme.example.com/v1" /\
  findable "https://{t}.example.com/v1/" ["acme"].
Proof. exact server_fills_example. Qed.

(* refuted witnesses = findings *)
(* legacy: GET /b is routed to /b/{x} with x = "" (the variable token matches an empty segment) *)
Theorem C09_refuted_legacy_empty_segment :
  exists root, tmatch root "GET /b" [] <> None /\
  match tokens_of "GET /b/{x}" with Some (toks, names) => root = tinsert toks names 0 (T [] None []) | None => False end.
Proof. eexists. split; [|vm_compute; reflexivity]. vm_compute. discriminate. Qed.
(* gorilla: the first template whose path matches decides, so a literal sibling declared for another
   method shadows a templated route: GET /a/b with /a/b: POST and /a/{x}: GET -> method not allowed *)
Theorem C09_refuted_gorilla_method_shadow :
  gorilla_find [mkGRoute [SLit ""; SLit "a"; SLit "b"] ["POST"] 0; mkGRoute [SLit ""; SLit "a"; SVar "x"] ["GET"] 1]
               "GET" ["" ; "a"; "b"] = GMethodNotAllowed.
Proof. vm_compute. reflexivity. Qed.
(* servers: a value containing the character that follows its variable is cut there, so a URL under
   the declared server (x = "a-b") is not matched - the guard of C09_server_match_complete is necessary *)
Theorem C09_refuted_server_value_with_follow_char :
  fills "http://{x}-api.example.com" ["x"] ["a-b"] "http://a-b-api.example.com" /\
  match_raw_url "http://{x}-api.example.com" "http://a-b-api.example.com/pets" = MNo.
Proof. exact server_refuted_value_with_follow_char. Qed.
