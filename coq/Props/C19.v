(* C19 - schema error reasons never contain the rejected value.
   Generic theorem over any site table + the per-run obligations on the table regenerated from
   /repo's source by xlate (Gen/Reasons.v). *)
From KV Require Import Model.Base Model.ReasonSites Model.Json Model.Schema Proofs.C19Proofs Gen.Reasons.
Local Open Scope list_scope.

(* For every table whose sites take no argument from the value's leaves, every site renders to
   the same reason text for any two values that differ only in their string leaves (same
   schema-derived data, same member names, same type names, same validator texts): the reason
   is not a function of the leaves, so no marker planted in a leaf can appear in it. *)
Theorem C19_reasons_independent_of_leaves :
  forall sprintf tbl p q,
    sites_ok tbl = true -> same_but_leaves p q ->
    forall s, In s tbl -> render sprintf p s = render sprintf q s.
Proof. intros sprintf tbl p q Ht Hpq. exact (all_sites_indep sprintf p q tbl Hpq Ht). Qed.
Print Assumptions C19_reasons_independent_of_leaves.

(* per-run obligation 1: the table read from the current source has no value-derived argument *)
Theorem C19_gen_sites_ok : sites_ok reason_sites = true.
Proof. vm_compute. reflexivity. Qed.

(* per-run obligation 2: the translator still sees every SchemaField the model of visitJSON can
   report (Model/Schema.field_of), i.e. it has not silently lost a construction site *)
Definition model_fields : list string :=
  map field_of [S_type_int; S_type_expected; S_enum; S_not; S_oneOf_many []; S_oneOf_none; S_anyOf; S_allOf;
                S_nullable; S_format ""; S_exMin; S_exMax; S_min; S_max; S_mult; S_minLen; S_maxLen; S_pattern;
                S_minItems; S_maxItems; S_unique; S_minProps; S_maxProps; S_unsupported ""; S_required ""].
(* `not` is the one site without a Reason (the message is built from SchemaField alone) *)
Theorem C19_gen_sites_cover :
  forallb (fun f => String.eqb f "not" || str_in f (fields_of reason_sites)) model_fields = true.
Proof. vm_compute. reflexivity. Qed.

(* the instantiated statement for the current source *)
Theorem C19_current_source :
  forall sprintf p q, same_but_leaves p q ->
    forall s, In s reason_sites -> render sprintf p s = render sprintf q s.
Proof. intros sprintf p q H. exact (C19_reasons_independent_of_leaves sprintf reason_sites p q C19_gen_sites_ok H). Qed.
Print Assumptions C19_current_source.

(* the hypothesis is not vacuous and the guard is sharp: a site with a value argument does leak *)
Example C19_leaky_site_detected :
  sites_ok [mkRSite "x" "minLength" "minimum string length is %d, got %q" [ASchema; AValue]] = false.
Proof. reflexivity. Qed.
Example C19_leak_is_real :
  let s := mkRSite "x" "f" "%q" [AValue] in
  let sp (f : string) (a : list string) := concat_str a in
  let p := mkPools (fun _ => "") (fun _ => "") (fun _ => "") (fun _ => "") (fun _ => "secret") in
  let q := mkPools (fun _ => "") (fun _ => "") (fun _ => "") (fun _ => "") (fun _ => "other") in
  same_but_leaves p q /\ render sp p s <> render sp q s.
Proof. cbn. split; [repeat split|discriminate]. Qed.
