(* C03 - marshalling then reloading a document loses and invents nothing. *)
From KV Require Import Model.Base Model.Json Model.Codec Proofs.C03Proofs Gen.Marshal.
Local Open Scope list_scope.

(* generic: for every type table that is consistent (struct tags = keys written = keys removed from
   the extension map, no duplicates) and every object in normal form, marshal . unmarshal gives back
   every member - specified field, extension, unknown field - with its value, and nothing else *)
Theorem C03_roundtrip :
  forall ti, tbl_ok ti = true ->
  forall j k, normal ti j = true -> assoc k (marshal ti (unmarshal ti j)) = assoc k j.
Proof. exact roundtrip. Qed.
Print Assumptions C03_roundtrip.

(* per-run obligations on the tables regenerated from /repo's source *)
Definition known_bad : list string := ["openapi2.Schema"].
Theorem C03_gen_tables_ok :
  forallb (fun ti => tbl_ok ti || str_in (ti_name ti) known_bad) marshal_tables = true.
Proof. vm_compute. reflexivity. Qed.
Theorem C03_gen_tables_cover : Nat.leb 31 (List.length marshal_tables) = true.
Proof. vm_compute. reflexivity. Qed.

(* the statement for the current source: every consistent marshalled type round-trips *)
Theorem C03_current_source :
  forall ti, In ti marshal_tables -> str_in (ti_name ti) known_bad = false ->
  forall j k, normal ti j = true -> assoc k (marshal ti (unmarshal ti j)) = assoc k j.
Proof.
  intros ti Hin Hk. apply roundtrip.
  pose proof C03_gen_tables_ok as H. rewrite forallb_forall in H. specialize (H ti Hin).
  rewrite Hk in H. now rewrite Bool.orb_false_r in H.
Qed.
Print Assumptions C03_current_source.

(* the recorded finding: openapi2.Schema removes oneOf / anyOf / nullable from the extension map
   although the type has no such fields, so these unknown members do not survive *)
Definition v2schema : tyinfo :=
  match filter (fun ti => String.eqb (ti_name ti) "openapi2.Schema") marshal_tables with ti :: _ => ti | [] => mkTyInfo "" [] [] [] [] end.
Theorem C03_refuted_v2_schema_foreign_keys :
  tbl_ok v2schema = false /\
  assoc "nullable" (marshal v2schema (unmarshal v2schema [("nullable", JBool true); ("type", JStr "string")])) = None.
Proof. vm_compute. split; reflexivity. Qed.

Example C03_nonvacuous :
  exists ti, In ti marshal_tables /\ tbl_ok ti = true /\
  normal ti [("title", JStr "t"); ("version", JStr "1"); ("x-ext", JNum 1); ("zzUnknown", JBool true)] = true /\
  map fst (marshal ti (unmarshal ti [("title", JStr "t"); ("version", JStr "1"); ("x-ext", JNum 1); ("zzUnknown", JBool true)]))
  = ["x-ext"; "zzUnknown"; "title"; "version"].
Proof.
  exists (match filter (fun ti => String.eqb (ti_name ti) "openapi3.Info") marshal_tables with ti :: _ => ti | [] => mkTyInfo "" [] [] [] [] end).
  vm_compute. repeat split. tauto.
Qed.
