(* C05 - parameters are decoded as the inverse of OpenAPI style serialisation. *)
From KV Require Import Model.Base Model.Json Model.Schema Model.Request Model.Lookup Model.ParamCodec
     Spec.ParamSpec Proofs.C05Proofs Proofs.C05Object Proofs.C05Absent.
Local Open Scope list_scope.

(* strings.Split inverts strings.Join for any separator and any non-empty list of elements that
   avoid the separator's first character: any number of elements, any length *)
Theorem C05_split_join :
  forall c0 d' xs, xs <> [] -> clean c0 xs -> split (String c0 d') (join (String c0 d') xs) = xs.
Proof. exact split_join. Qed.
Print Assumptions C05_split_join.

(* arrays of primitives, every (in, style, explode) cell Parameter.Validate accepts and the style
   table defines: decoding the serialisation of the element texts yields exactly the elements read
   as the item type - for every element count and every element text meeting the named guards *)
Theorem C05_array_roundtrip :
  forall pi64 pi32 pf p ts ic vs,
    allowed_cell (pd_in p) (eff_style p) (eff_explode p) = true ->
    defined_cell p (SArr ts) = true ->
    shape_of (pd_schema p) = ShArr (Some ic) ->
    ts <> [] -> Forall (fun t => t <> ""%string) ts ->
    (pd_in p = LQuery -> eff_explode p = true \/ clean (arr_sep LQuery (eff_style p) (eff_explode p)) ts) ->
    (pd_in p <> LQuery -> clean (arr_sep (pd_in p) (eff_style p) (eff_explode p)) ts) ->
    leaves pi64 pi32 pf ts ic = Some vs -> Forall (fun v => v <> PNil) vs ->
    decode_param pi64 pi32 pf p (ser p (SArr ts)) = DRes (PA vs) true None.
Proof. exact array_roundtrip. Qed.
Print Assumptions C05_array_roundtrip.

(* flat objects, every (in, style, explode) cell that defines an object serialisation: decoding the
   serialisation of the member list yields an object with exactly the members read as their declared
   types (equality of Go maps: the same value under every key) - for every number of members and
   every member text meeting the named guards (non-empty, free of the cell's separators, names
   unique and declared, no additionalProperties schema) *)
Theorem C05_object_roundtrip :
  forall pi64 pi32 pf p kvs decl l,
    allowed_cell (pd_in p) (eff_style p) (eff_explode p) = true ->
    defined_cell p (SObj kvs) = true ->
    shape_of (pd_schema p) = ShObj decl None ->
    kvs <> [] -> nodup_s (map fst kvs) = true -> nodup_s (map fst decl) = true ->
    Forall (fun t => t <> ""%string) (flat kvs) ->
    (pd_in p = LQuery /\ eff_explode p = true \/ clean (obj_sep (pd_in p) (eff_style p) (eff_explode p)) (flat kvs)) ->
    (eq_form (pd_in p) (eff_explode p) = true -> clean "="%char (flat kvs)) ->
    members pi64 pi32 pf kvs decl None = Some l -> Forall (fun kv => snd kv <> PNil) l ->
    exists m, decode_param pi64 pi32 pf p (ser p (SObj kvs)) = DRes (PO m) true None /\
              forall k, assoc k m = assoc k l.
Proof. exact object_roundtrip. Qed.
Print Assumptions C05_object_roundtrip.

(* primitives, every cell *)
Theorem C05_prim_roundtrip :
  forall pi64 pi32 pf p t,
    allowed_cell (pd_in p) (eff_style p) (eff_explode p) = true ->
    defined_cell p (SPrim t) = true ->
    shape_of (pd_schema p) = ShPrim -> t <> ""%string ->
    decode_param pi64 pi32 pf p (ser p (SPrim t))
    = of_pres true (parse_primitive pi64 pi32 pf t (core_of (pd_schema p))).
Proof. exact prim_roundtrip. Qed.
Print Assumptions C05_prim_roundtrip.

(* absent required -> missing; absent optional -> accepted; text that is not a serialisation of
   the declared type -> rejected with the decoding error *)
Theorem C05_absent_required :
  forall pi64 pi32 pf rc rm fo multi p f,
    decode_param pi64 pi32 pf p f = DRes PNil false None -> pd_required p = true ->
    validate_param pi64 pi32 pf rc rm fo multi p f = VMissing.
Proof. exact absent_required. Qed.
Theorem C05_absent_optional :
  forall pi64 pi32 pf rc rm fo multi p f,
    decode_param pi64 pi32 pf p f = DRes PNil false None -> pd_required p = false ->
    validate_param pi64 pi32 pf rc rm fo multi p f = VOk.
Proof. exact absent_optional. Qed.
(* an exploded form object shares the query with every other parameter: for every object schema
   without an additionalProperties schema and every query none of whose keys is one of its declared
   properties, it is decoded as absent - so, by the two theorems above, reported missing when
   required and accepted when optional (the defect repaired in /repo 2109f56: it was decoded as {}) *)
Theorem C05_object_absent_among_other_parameters :
  forall pi64 pi32 pf name s decl q,
    shape_of s = ShObj decl None ->
    (forall k, In k (map fst decl) -> assoc k (map (fun kv : string * list string => (fst kv, first_of (snd kv))) q) = None) ->
    query_decode pi64 pi32 pf name "form" true s q = DRes PNil false None.
Proof. exact query_object_absent_among_others. Qed.
Print Assumptions C05_object_absent_among_other_parameters.
Theorem C05_undecodable_rejected :
  forall pi64 pi32 pf rc rm fo multi p f v found e,
    decode_param pi64 pi32 pf p f = DRes v found (Some e) ->
    validate_param pi64 pi32 pf rc rm fo multi p f = VDecode e.
Proof. exact undecodable_rejected. Qed.

(* the guards are necessary: refuted witnesses (each is a finding on the real decoder) *)
Definition strS : schema := Sch (mkCore (Some ["string"]) [] false false false false "" false false false None None None 0 None "" 0 None [] 0 None None) None [] [] [] None [] None.
Definition arrS : schema := Sch (mkCore (Some ["array"]) [] false false false false "" false false false None None None 0 None "" 0 None [] 0 None None) None [] [] [] (Some strS) [] None.
Definition pq : pdef := mkPDef LQuery "id" "form" (Some false) false false arrS.
Definition no_int (_ : string) : option Z := None.
Definition no_float (_ : string) : option float := None.
(* class 1: an empty element makes the whole array nil *)
Theorem C05_refuted_empty_element :
  decode_param no_int no_int no_float pq (ser pq (SArr ["a"; ""; "b"])) = DRes PNil true None.
Proof. vm_compute. reflexivity. Qed.
(* class 2: an element containing the separator is split in two *)
Theorem C05_refuted_separator_in_element :
  decode_param no_int no_int no_float pq (ser pq (SArr ["a,b"; "c"])) = DRes (PA [PS "a"; PS "b"; PS "c"]) true None.
Proof. vm_compute. reflexivity. Qed.

(* class 6: an undeclared member is silently dropped *)
Definition intS : schema := Sch (mkCore (Some ["integer"]) [] false false false false "" false false false None None None 0 None "" 0 None [] 0 None None) None [] [] [] None [] None.
Definition objS (ap : option schema) : schema :=
  Sch (mkCore (Some ["object"]) [] false false false false "" false false false None None None 0 None "" 0 None [] 0 None None) None [] [] [] None [("n", intS); ("s", strS)] ap.
Definition one_int (t : string) : option Z := if String.eqb t "7" then Some 7%Z else None.
Definition po (ap : option schema) : pdef := mkPDef LPath "id" "label" (Some true) true false (objS ap).
Theorem C05_refuted_undeclared_member_dropped :
  decode_param one_int one_int no_float (po None) (ser (po None) (SObj [("n", "7"); ("zz", "x")]))
  = DRes (PO [("n", PI64 7)]) true None.
Proof. vm_compute. reflexivity. Qed.
(* the former class 4 witness, now on the side of the property (repaired in /repo): next to an
   additionalProperties schema a declared integer member keeps its type, other members take the
   additionalProperties schema *)
Example C05_additional_properties_keep_declared_type :
  decode_param one_int one_int no_float (po (Some strS)) (ser (po (Some strS)) (SObj [("n", "7"); ("zz", "7")]))
  = DRes (PO [("n", PI64 7); ("zz", PS "7")]) true None.
Proof. vm_compute. reflexivity. Qed.

(* non-vacuity: a label/explode path object meets every hypothesis of the object theorem *)
Example C05_object_hyps_satisfiable :
  let p := po None in
  let kvs := [("s", "a,b"); ("n", "7")] in
  allowed_cell (pd_in p) (eff_style p) (eff_explode p) = true /\
  defined_cell p (SObj kvs) = true /\
  shape_of (pd_schema p) = ShObj [("n", core_of intS); ("s", core_of strS)] None /\
  ser p (SObj kvs) = mkFrag [("id", ".s=a,b.n=7")] [] [] [] /\
  members one_int one_int no_float kvs [("n", core_of intS); ("s", core_of strS)] None = Some [("s", PS "a,b"); ("n", PI64 7)] /\
  decode_param one_int one_int no_float p (ser p (SObj kvs)) = DRes (PO [("n", PI64 7); ("s", PS "a,b")]) true None.
Proof. vm_compute. repeat split. Qed.

(* non-vacuity: a matrix/explode path array meets every hypothesis *)
Example C05_hyps_satisfiable :
  let p := mkPDef LPath "id" "matrix" (Some true) true false arrS in
  allowed_cell (pd_in p) (eff_style p) (eff_explode p) = true /\
  defined_cell p (SArr ["x"; "yy"; "z=1"]) = true /\
  ser p (SArr ["x"; "yy"; "z=1"]) = mkFrag [("id", ";id=x;id=yy;id=z=1")] [] [] [] /\
  decode_param no_int no_int no_float p (ser p (SArr ["x"; "yy"; "z=1"])) = DRes (PA [PS "x"; PS "yy"; PS "z=1"]) true None.
Proof. vm_compute. repeat split. Qed.

From Coq Require Import Permutation.
From KV Require Import Model.DeepObject Spec.DeepSpec Proofs.ServerProofs Proofs.DeepProofs Proofs.DeepBuild Proofs.DeepSer Proofs.DeepKeys Proofs.DeepOrder Proofs.DeepFound Proofs.DeepFinal.
(* ---- deepObject query parameters (Model/DeepObject.v; tied to the decoder by its own case stream) ---- *)
(* after deepSet the path exists: it ends on the value just set, or on the nested object that was
   there before (the nested form wins); a path that parts at the first key is not disturbed *)
Theorem C05_deep_set_get : forall ks m v, ks <> [] ->
  deep_get (deep_set m ks v) ks = Some (PLeaf v) \/
  exists n, deep_get (deep_set m ks v) ks = Some (PNode n) /\ deep_get m ks = Some (PNode n).
Proof. exact deep_set_get. Qed.
Theorem C05_deep_set_other_key : forall k ks m v k' ks', k' <> k ->
  deep_get (deep_set m (k :: ks) v) (k' :: ks') = deep_get m (k' :: ks').
Proof. exact deep_set_other_key. Qed.
Print Assumptions C05_deep_set_get.
(* buildResObj on the parameter tree of a value returns the value read at the declared types: for
   every schema tree of objects (declared properties with non-empty names), arrays and primitives of
   any depth, every value of it (Spec/DeepSpec.reading: primitives that parse to a non-nil value,
   arrays with at least one element, objects with any subset of the declared members and - under
   additionalProperties - any further members, read at the additionalProperties schema), wherever in
   the parameter tree the value sits - given that strconv.Atoi inverts strconv.Itoa.  The value is
   well formed (member names unique) and its member names are non-empty. *)
Theorem C05_deep_build_reads_value :
  forall parse_int64 parse_int32 parse_float atoi,
  (forall n, atoi (itoa n) = Some (Z.of_nat n)) ->
  forall s, names_ok s = true -> forall v p root mk key, wfv v -> nek v ->
    deep_get root (child_path mk key) = Some (tree_of v) ->
    reading parse_int64 parse_int32 parse_float s v = Some p ->
    build parse_int64 parse_int32 parse_float atoi root s mk key = BOk p.
Proof. exact build_reading. Qed.
Print Assumptions C05_deep_build_reads_value.
(* deepSet over the serialisation of a value (in serialisation order) builds the parameter tree of
   the value: for every well-formed value (no empty array or object below the top, member names
   unique within an object) of any depth *)
Theorem C05_deep_set_builds_tree : forall v, wfv v ->
  match v with VPrim _ => True | _ => fold_set [] (ser [] v) = kids_of (tree_of v) end.
Proof. exact fold_set_ser. Qed.
(* the key name[k1][k2]... is parsed back into its path, for names without '[' and keys without ']' *)
Theorem C05_deep_key_roundtrip : forall name path, no_byte "["%char name = true ->
  Forall (fun k => no_byte "]"%char k = true) path -> key_path (name ++ render path)%string = path.
Proof. exact key_path_render. Qed.
(* the deepObject decoder inverts the deepObject serialisation: the query name[k1][k2]...=text of a
   well-formed object value of any depth is decoded to the value read at the declared types,
   without error (keys in serialisation order; see DESIGN.md for the order) - schemas with
   additionalProperties included: a declared member is read at its own schema, not at the
   additionalProperties schema (the defect repaired in /repo), any other member at the latter *)
Theorem C05_deep_object_roundtrip :
  forall parse_int64 parse_int32 parse_float atoi,
  (forall n, atoi (itoa n) = Some (Z.of_nat n)) ->
  forall name s ms p,
    no_byte "["%char name = true -> names_ok s = true ->
    wfv (VObj ms) -> nek (VObj ms) -> keys_ok (VObj ms) -> texts_ok (ser [] (VObj ms)) = true ->
    reading parse_int64 parse_int32 parse_float s (VObj ms) = Some p ->
    exists found, deep_decode parse_int64 parse_int32 parse_float atoi name s (query_of name (ser [] (VObj ms))) = DRes p found None.
Proof. exact deep_decode_roundtrip. Qed.
Print Assumptions C05_deep_object_roundtrip.
(* ... and in full: whatever the order in which the query keys reach the decoder (Go iterates maps),
   for values whose members are all declared, the decoder returns the value read at the declared
   types, reports the parameter as found, and no error.  (Permutation of the query; deepSet is a
   congruence for "same map up to member order" and commutes at paths that part, Proofs/DeepOrder.v;
   every serialised path leads into the decoded object, Proofs/DeepFound.v) *)
Theorem C05_deep_object_roundtrip_any_order :
  forall parse_int64 parse_int32 parse_float atoi,
  (forall n, atoi (itoa n) = Some (Z.of_nat n)) ->
  forall name s ms p q',
    no_byte "["%char name = true -> names_ok s = true -> no_ap s = true ->
    wfv (VObj ms) -> nek (VObj ms) -> keys_ok (VObj ms) -> texts_ok (ser [] (VObj ms)) = true ->
    declared_all s (VObj ms) ->
    reading parse_int64 parse_int32 parse_float s (VObj ms) = Some p ->
    Permutation (query_of name (ser [] (VObj ms))) q' ->
    deep_decode parse_int64 parse_int32 parse_float atoi name s q' = DRes p true None.
Proof. exact deep_decode_roundtrip_full. Qed.
Print Assumptions C05_deep_object_roundtrip_any_order.
(* the premises are satisfiable: a nested value with an array of objects *)
Example C05_deep_roundtrip_hyps_satisfiable :
  let i := DSPrim (prim_core (Some ["integer"]) "") in
  let s := DSPrim (prim_core (Some ["string"]) "") in
  let sch := DSObj [("o", DSObj [("x", i); ("y", DSArr i)] None); ("rows", DSArr (DSObj [("k", s)] None))] None in
  let v := [("o", VObj [("x", VPrim "3"); ("y", VArr [VPrim "4"])]); ("rows", VArr [VObj [("k", VPrim "u")]; VObj [("k", VPrim "v")]])] in
  let pint := fun t => if String.eqb t "3" then Some 3%Z else if String.eqb t "4" then Some 4%Z else None in
  names_ok sch = true /\ no_ap sch = true /\ texts_ok (ser [] (VObj v)) = true /\
  reading pint pint (fun _ => None) sch (VObj v) = Some (PO [("o", PO [("x", PI64 3); ("y", PA [PI64 4])]); ("rows", PA [PO [("k", PS "u")]; PO [("k", PS "v")]])]) /\
  query_of "f" (ser [] (VObj v)) = [("f[o][x]", ["3"]); ("f[o][y][0]", ["4"]); ("f[rows][0][k]", ["u"]); ("f[rows][1][k]", ["v"])].
Proof. vm_compute. repeat split. Qed.
(* additionalProperties next to declared properties: the declared member keeps its declared type *)
Example C05_deep_additional_properties_example :
  let i := DSPrim (prim_core (Some ["integer"]) "") in
  let s := DSPrim (prim_core (Some ["string"]) "") in
  let sch := DSObj [("n", i)] (Some s) in
  let v := [("n", VPrim "5"); ("x", VPrim "a")] in
  let pint := fun t => if String.eqb t "5" then Some 5%Z else None in
  names_ok sch = true /\ texts_ok (ser [] (VObj v)) = true /\
  reading pint pint (fun _ => None) sch (VObj v) = Some (PO [("n", PI64 5); ("x", PS "a")]) /\
  deep_decode pint pint (fun _ => None) pint "f" sch [("f[n]", ["5"]); ("f[x]", ["a"])]
  = DRes (PO [("n", PI64 5); ("x", PS "a")]) true None.
Proof. vm_compute. repeat split. Qed.
(* a test, not a theorem: one nested value (object in object, array of objects) through the model *)
Example C05_deep_example :
  let i := DSPrim (prim_core (Some ["integer"]) "") in
  let s := DSPrim (prim_core (Some ["string"]) "") in
  let sch := DSObj [("o", DSObj [("x", i); ("y", DSArr i)] None); ("rows", DSArr (DSObj [("k", s)] None))] None in
  let pint := fun t => if String.eqb t "3" then Some 3%Z else if String.eqb t "4" then Some 4%Z else if String.eqb t "0" then Some 0%Z else if String.eqb t "1" then Some 1%Z else None in
  deep_decode pint pint (fun _ => None) pint "f" sch
    [("f[o][x]", ["3"]); ("f[o][y][0]", ["4"]); ("f[rows][0][k]", ["u"]); ("f[rows][1][k]", ["v"]); ("fs[o][x]", ["9"])]
  = DRes (PO [("o", PO [("x", PI64 3); ("y", PA [PI64 4])]); ("rows", PA [PO [("k", PS "u")]; PO [("k", PS "v")]])]) true None.
Proof. vm_compute. reflexivity. Qed.

(* ---- arrays whose items schema is a composition (Model/ItemComp.v: parseValue, shared by the query
   decoder and by the array parser of path, header and cookie parameters) ---- *)
From KV Require Import Model.ItemComp Proofs.ItemCompProofs.

(* a schema without composition keywords is read as before: the theorems on plain items carry over *)
Theorem C05_items_plain_schema_as_before :
  forall pi64 pi32 pf raw c i p a,
  parse_value pi64 pi32 pf raw (Sch c None [] [] [] i p a) = parse_primitive pi64 pi32 pf raw c.
Proof. exact pv_plain. Qed.

(* allOf: a member that states no type (only constraints) can be added anywhere in the list without
   changing what is decoded - for member lists of any length, nested compositions included *)
Theorem C05_items_allOf_typeless_member_transparent :
  forall pi64 pi32 pf raw c nt oo ao l1 l2 i p a tc ti tp ta,
  c_types tc = None -> l1 ++ l2 <> [] ->
  parse_value pi64 pi32 pf raw (Sch c nt oo ao (l1 ++ Sch tc None [] [] [] ti tp ta :: l2) i p a)
  = parse_value pi64 pi32 pf raw (Sch c nt oo ao (l1 ++ l2) i p a).
Proof. exact allOf_typeless_member_transparent. Qed.
Print Assumptions C05_items_allOf_typeless_member_transparent.

(* allOf: when the members that read the text agree on the value and the others yield nothing, that value is decoded *)
Theorem C05_items_allOf_reads_value :
  forall pi64 pi32 pf raw c nt oo ao al i p a v,
  v <> PNil -> (forall m, In m al -> parse_value pi64 pi32 pf raw m = PROk v \/ parse_value pi64 pi32 pf raw m = PROk PNil) ->
  (exists m, In m al /\ parse_value pi64 pi32 pf raw m = PROk v) ->
  parse_value pi64 pi32 pf raw (Sch c nt oo ao al i p a) = PROk v.
Proof. exact allOf_reads_value. Qed.

(* anyOf: the first member that reads the text decides; oneOf: the single member that reads it *)
Theorem C05_items_anyOf_first_reader :
  forall pi64 pi32 pf raw c nt oo l1 m l2 i p a v,
  (forall x, In x l1 -> exists e, parse_value pi64 pi32 pf raw x = PRErr e) -> parse_value pi64 pi32 pf raw m = PROk v ->
  parse_value pi64 pi32 pf raw (Sch c nt oo (l1 ++ m :: l2) [] i p a) = PROk v.
Proof. exact anyOf_first_reader. Qed.
Theorem C05_items_oneOf_single_reader :
  forall pi64 pi32 pf raw c nt l1 m l2 i p a v,
  (forall x, In x l1 -> exists e, parse_value pi64 pi32 pf raw x = PRErr e) ->
  (forall x, In x l2 -> exists e, parse_value pi64 pi32 pf raw x = PRErr e) -> parse_value pi64 pi32 pf raw m = PROk v ->
  parse_value pi64 pi32 pf raw (Sch c nt (l1 ++ m :: l2) [] [] i p a) = PROk v.
Proof. exact oneOf_single_reader. Qed.
(* ... and a text two members read is refused: with strconv.ParseBool reading "1", oneOf: [integer, boolean] refuses 1 *)
Theorem C05_items_oneOf_two_readers_refused :
  forall pi64 pi32 pf raw c nt m1 m2 l i p a v1 v2,
  parse_value pi64 pi32 pf raw m1 = PROk v1 -> parse_value pi64 pi32 pf raw m2 = PROk v2 ->
  exists e, parse_value pi64 pi32 pf raw (Sch c nt (m1 :: m2 :: l) [] [] i p a) = PRErr e.
Proof. exact oneOf_two_readers_refused. Qed.

(* the array: texts that the items schema reads element by element come back as the array of those elements *)
Theorem C05_items_array_roundtrip :
  forall pi64 pi32 pf item raws vs,
  Forall2 (fun x v => parse_value pi64 pi32 pf x item = PROk v /\ v <> PNil) raws vs ->
  parse_array_v pi64 pi32 pf raws item [] = PROk (PA vs).
Proof. intros pi64 pi32 pf item raws vs H. exact (array_of_read_elements pi64 pi32 pf item raws vs H []). Qed.
Print Assumptions C05_items_array_roundtrip.

(* non-vacuity: items allOf: [{minimum: 1}, {type: integer}, {minimum: 1}] reads 7,8,9; anyOf: [boolean, integer] reads 7 as 7
   and 1 as true; oneOf: [integer, boolean] refuses 1 *)
Example C05_items_example :
  let pi := fun s => if String.eqb s "7" then Some 7%Z else if String.eqb s "8" then Some 8%Z else if String.eqb s "9" then Some 9%Z
                     else if String.eqb s "1" then Some 1%Z else None in
  let pf := fun _ : string => @None float in
  let core := fun ts mn => mkCoreD ts [] false false false false "" false false false mn None None 0 None "" 0 None [] 0 None None None in
  let ty := fun t => Sch (core (Some [t]) None) None [] [] [] None [] None in
  let min1 := Sch (core None (Some 1%float)) None [] [] [] None [] None in
  let comp := fun oo ao al => Sch (core None None) None oo ao al None [] None in
  parse_array_v pi pi pf ["7"; "8"; "9"] (comp [] [] [min1; ty "integer"; min1]) [] = PROk (PA [PI64 7; PI64 8; PI64 9]) /\
  parse_array_v pi pi pf ["7"; "1"] (comp [] [ty "boolean"; ty "integer"] []) [] = PROk (PA [PI64 7; PB true]) /\
  parse_value pi pi pf "1" (comp [ty "integer"; ty "boolean"] [] []) = PRErr DOther.
Proof. vm_compute. repeat split. Qed.
