(* C18 - a schema generated from a Go type accepts every JSON encoding of that type. *)
From KV Require Import Model.Base Model.Json Model.Schema Spec.SchemaSpec Spec.SchemaGuards Proofs.SchemaProofs
     Model.GoTypes Proofs.C18Proofs Model.Fields Proofs.FieldsProofs.
From Coq Require Import Sorting.Permutation Sorting.Sorted.
Local Open Scope list_scope.

(* For every non-recursive Go type built from booleans, sized integers, floats, strings, byte
   slices, times, pointers, slices, maps and tagged structs (any nesting), and every JSON value in
   the image of encoding/json on that type (non-nil slices and maps, the value itself not null):
   the schema the generator produces for the type is satisfied by the value (specification), ... *)
Theorem C18_generated_schema_accepts_encodings :
  forall rc rm fo, (forall k f v, fo k f v <> Some false) ->
  forall t j, encb t j = true -> j <> JNull -> satb rc rm fo md_plain (gen_root t) j = true.
Proof. intros rc rm fo Hfo t j. exact (gen_root_sound rc rm fo Hfo t j). Qed.
Print Assumptions C18_generated_schema_accepts_encodings.

(* ... and the model of the implementation's default-mode validation accepts it without a panic
   (generated schemas lie inside the guards of the C01 theorem) *)
Theorem C18_visit_accepts_encodings :
  forall rc rm fo, (forall k f v, fo k f v <> Some false) ->
  forall t j, wf_ty t = true -> encb t j = true -> j <> JNull -> vg j = true ->
  is_panic (visit rc rm fo st_default (gen_root t) j) = false /\
  accepts (visit rc rm fo st_default (gen_root t) j) = true.
Proof. exact gen_root_visit. Qed.
Print Assumptions C18_visit_accepts_encodings.

(* the inductive step, nullable positions included: a position reached through a pointer accepts
   null, any other position only meets null when its own type is a pointer *)
Theorem C18_every_position :
  forall rc rm fo, (forall k f v, fo k f v <> Some false) ->
  forall t nl j, encb t j = true -> (j = JNull -> nl = true \/ is_ptr t = true) -> satb rc rm fo md_plain (gen nl t) j = true.
Proof. intros rc rm fo Hfo. exact (gen_sound rc rm fo Hfo). Qed.

(* non-vacuity: a nested type and an encoding with a nil pointer element and an omitted field *)
Example C18_example :
  let t := TStruct [("id", false, TInt (Some 0%float) (Some 255%float) ""); ("name", true, TString);
                    ("tags", false, TSlice (TPtr TString)); ("m", false, TMap (TPtr (TStruct [("x", false, TFloat "double")])))] in
  let j := JObj [("id", JNum 7%float); ("m", JObj [("k", JNull); ("l", JObj [("x", JNum 1.5%float)])]); ("tags", JArr [JStr "a"; JNull])] in
  wf_ty t = true /\ encb t j = true /\ vg j = true /\
  accepts (visit (fun _ => true) (fun _ _ => true) (fun _ _ _ => None) st_default (gen_root t) j) = true.
Proof. vm_compute. repeat split. Qed.

(* refuted beyond the modelled fragment: a field tagged `,string` is encoded as a JSON string but
   its schema says integer (the generator ignores the option) - stated on the encoder image *)
Example C18_refuted_string_option :
  satb (fun _ => true) (fun _ _ => true) (fun _ _ _ => None) md_plain (gen_root (TStruct [("n", false, TInt None None "")])) (JObj [("n", JStr "5")]) = false.
Proof. vm_compute. reflexivity. Qed.

(* structs that embed structs (Model/Fields.v: appendFields, the sort of getTypeInfo, the property
   map of the struct case): for every embedding tree and every JSON name, when encoding/json writes a
   field under that name - the one of least depth, if it is the only one of that depth - the property
   the generator keeps for the name is generated from that field's type ... *)
Theorem C18_embedded_fields_follow_encoding_json :
  forall fs n t, json_field fs n = Some (Some t) -> gen_property fs n = Some t.
Proof. exact gen_property_follows_json. Qed.
Print Assumptions C18_embedded_fields_follow_encoding_json.

(* ... whichever correct sorting algorithm orders the fields (sort.Sort is not stable: the theorem
   holds for every sorted permutation of the collected fields, not only for the model's insertion sort) ... *)
Theorem C18_embedded_fields_any_sort :
  forall fs n e l, Permutation l (flatten fs) -> StronglySorted key_le l -> dominates n e (flatten fs) ->
  pick n l = Some (e_ty e).
Proof. exact sorted_fields_keep_dominant. Qed.
Print Assumptions C18_embedded_fields_any_sort.

(* ... and a name no field carries gets no property *)
Theorem C18_no_field_no_property :
  forall fs n, named n (flatten fs) = [] -> gen_property fs n = None.
Proof. exact gen_property_absent. Qed.

(* non-vacuity: Outer{ Kind int `kind`; Inner } with Inner{ Base; Deep } and Base{ ID; Kind string `kind` }
   (names by rank: deep 0, id 1, kind 2; types: string 0, integer 2, number 1): the outer kind wins,
   id and deep are promoted; and two fields of one name at one depth are written by neither side's rule *)
Example C18_embedded_example :
  let fs := [FField 2 2; FEmbed [FEmbed [FField 1 2; FField 2 0]; FField 0 1]]%N in
  json_field fs 2%N = Some (Some 2%N) /\ gen_property fs 2%N = Some 2%N /\
  json_field fs 1%N = Some (Some 2%N) /\ gen_property fs 0%N = Some 1%N /\ gen_property fs 3%N = None /\
  json_field [FEmbed [FField 0 2]; FEmbed [FField 0 0]]%N 0%N = None.
Proof. vm_compute. repeat split. Qed.
