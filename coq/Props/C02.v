(* C02 - loading resolves every $ref to exactly the object it designates. *)
From KV Require Import Model.Base Model.Loader Spec.LoaderSpec Exec.LoaderExec.
Local Open Scope list_scope.

Definition obj (id : N) (kids : list (string * string * kind * node)) : node := NObj id kids.
Definition sch (name : string) (n : node) : list string * kind * bool * node := (["components"; "schemas"; name], KSchema, true, n).
Definition case_of (files : list (string * file)) (rp : list (string * string * string)) : lcase :=
  mkLC true 0 "/api/root.json" files rp 0 [] [].
Definition loaded (c : lcase) : option (list (list string * option N)) :=
  match run c with ROk s => Some (model_obs c s) | _ => None end.

(* ---- refuted witnesses = findings (each: the loader's result on the left, what the references
   designate on the right) ---- *)

(* the in-progress set is keyed by the reference text: inside ext.json, "#/components/schemas/B"
   designates ext.json's B (id 2) but is filled in with the root's B (id 1), whose resolution
   happened to be in progress under the same text *)
Definition c_text : lcase := case_of
  [("/api/root.json", mkFile [sch "AA" (obj 9 [("properties", "r", KSchema, NRef "#/components/schemas/B")]);
                              sch "B" (obj 1 [("properties", "p", KSchema, NRef "ext.json#/components/schemas/X")])] [] None);
   ("/api/ext.json", mkFile [sch "B" (obj 2 []); sch "X" (obj 3 [("properties", "q", KSchema, NRef "#/components/schemas/B")])] [] None)]
  [("/api/root.json", "ext.json", "/api/ext.json")].
Theorem C02_refuted_same_text_other_file :
  let p := ["components"; "schemas"; "AA"; "properties:r"; "->"; "properties:p"; "->"; "properties:q"] in
  match loaded c_text with Some o => passoc p o = Some (Some 1%N) | None => False end /\
  passoc p (spec_obs_all c_text) = Some (Some 2%N).
Proof. vm_compute. split; reflexivity. Qed.

(* a cycle made of references only designates no object: loading succeeds and leaves both unresolved *)
Definition c_cycle : lcase := case_of
  [("/api/root.json", mkFile [sch "A" (NRef "#/components/schemas/B"); sch "B" (NRef "#/components/schemas/A")] [] None)] [].
Theorem C02_refuted_reference_cycle_loads :
  loaded c_cycle = Some [(["components"; "schemas"; "A"], None); (["components"; "schemas"; "B"], None)].
Proof. vm_compute. reflexivity. Qed.

(* positions no resolver visits: a parameter's examples (likewise header content and examples,
   components/links, the examples of a parameter's content) *)
Definition c_unvisited : lcase := case_of
  [("/api/root.json", mkFile
      [(["components"; "parameters"; "P"], KParameter, true,
        obj 3 [("schema", "", KSchema, obj 4 []); ("examples", "e", KExample, NRef "#/components/examples/E")]);
       (["components"; "examples"; "E"], KExample, true, obj 1 [])] [] None)] [].
Theorem C02_refuted_unvisited_position :
  loaded c_unvisited = Some [(["components"; "parameters"; "P"; "examples:e"], None)] /\
  spec_obs_all c_unvisited = [(["components"; "parameters"; "P"; "examples:e"], Some 1%N)].
Proof. vm_compute. split; reflexivity. Qed.

(* an internal reference inside a single-element file is looked up in the document that referred
   to the file: "#/components/schemas/K" inside one.json (which has no such member) resolves to
   the root's K *)
Definition c_single : lcase := case_of
  [("/api/root.json", mkFile [sch "A" (NRef "one.json"); sch "K" (obj 9 [])] [] None);
   ("/api/one.json", mkFile [] [] (Some (KSchema, obj 2 [("properties", "in", KSchema, NRef "#/components/schemas/K")])))]
  [("/api/root.json", "one.json", "/api/one.json")].
Theorem C02_refuted_single_element_context :
  let p := ["components"; "schemas"; "A"; "->"; "properties:in"] in
  match loaded c_single with Some o => passoc p o = Some (Some 9%N) | None => False end /\
  passoc p (spec_obs_all c_single) = Some None.
Proof. vm_compute. split; reflexivity. Qed.

(* non-vacuity of the comparison: chain and diamond in one document, resolved as designated *)
Definition c_good : lcase := case_of
  [("/api/root.json", mkFile [sch "A" (obj 1 [("properties", "x", KSchema, NRef "#/components/schemas/B"); ("properties", "y", KSchema, NRef "#/components/schemas/C")]);
                              sch "B" (NRef "#/components/schemas/C");
                              sch "C" (obj 2 [("items", "", KSchema, NRef "#/components/schemas/A")])] [] None)] [].
Example C02_example_chain_diamond :
  match loaded c_good with Some o => obs_eq o (spec_obs_all c_good) = true /\ guard_class c_good = 0%N | None => False end.
Proof. vm_compute. split; reflexivity. Qed.

(* ---- the positive direction, for one document ---- *)
From KV Require Import Proofs.LoaderSound.
(* For every document whose references are internal (#/...), outside extension areas, each
   reference text used at one kind (K), with distinct component pointers and distinct child labels:
   whatever the reference graph (chains, diamonds, self and mutual cycles, dangling or wrong-kind
   targets elsewhere), entry point and fuel - after a successful load every value stored at a
   reference position is an object of the document, sits at the position recorded for it, and is
   the object the reference text at that position designates (through chains of references).
   Invariant over the whole interpreter, callbacks of cycles included. *)
Theorem C02_single_document_sound :
  forall allow files rpath (K : string -> kind) (f : file),
    f_exts f = [] ->
    (forall p k t n, In (p, k, t, n) (f_cells f) ->
       wk K k n /\ find_cell p (f_cells f) = Some (k, n) /\ (List.length p = 3 \/ List.length p = 2)%nat) ->
    (forall a b c, find_cell [a; b; c] (f_cells f) <> None -> find_cell [a; b] (f_cells f) = None) ->
    forall fuel entry root s,
      files root = Some f -> load allow files rpath fuel entry root f = ROk s ->
      forall i p v, In ((i, p), v) (vals s) ->
        i = 0%N /\ val_ok K f v /\ exists r, node_at f p = Some (NRef r) /\ designates K f r (tv_path v) (tv_node v).
Proof.
  intros allow files rpath K f Hx Hc Hd fuel entry root s Hr Hl.
  exact (load_sound allow files rpath K f Hx Hc Hd fuel entry root s Hr Hl).
Qed.
Print Assumptions C02_single_document_sound.
