(* C20 - loading and validating arbitrary bytes never panics or hangs (partial: the reference walk). *)
From KV Require Import Model.Base Model.Loader Spec.LoaderSpec Exec.LoaderExec.
Local Open Scope list_scope.

(* refuted: a callback registered by one routine asserts its own type on the value another routine
   resolved under the same reference text.  p.json is read as a parameter; inside it, a schema
   position refers to "p.json" again while that text is in progress: the schema routine's callback
   (the type assertion to Schema) is run with the Parameter *)
Definition c_two_kinds : lcase :=
  mkLC true 0 "/api/root.json"
    [("/api/root.json", mkFile [(["components"; "parameters"; "P"], KParameter, true, NRef "p.json")] [] None);
     ("/api/p.json", mkFile [] [] (Some (KParameter,
        NObj 2 [("schema", "", KSchema, NObj 3 [("properties", "again", KSchema, NRef "p.json")])])))]
    [("/api/root.json", "p.json", "/api/p.json")] 2 [] [].
Theorem C20_refuted_callback_of_another_kind : run c_two_kinds = RPanic.
Proof. vm_compute. reflexivity. Qed.
