(* C20 - loading and validating arbitrary bytes never panics or hangs (partial: the reference walk). *)
From KV Require Import Model.Base Model.Loader Spec.LoaderSpec Exec.LoaderExec.
Local Open Scope list_scope.

(* refuted: a callback registered by one routine asserts its own type on the value another routine
   resolved under the same reference text.  p.json is read as a parameter; inside it, a schema
   position refers to "p.json" again while that text is in progress: the schema routine's callback
   (the type assertion to Schema) is run with the Parameter *)
Definition c_two_kinds : lcase :=
  mkLC true 0 "/api/root.json"
    [("/api/root.json", mkFile [(["components"; "parameters"; "P"], KParameter, true, NRef "p.json")] [] None);
     ("/api/p.json", mkFile [] [] (Some (KParameter,
        NObj 2 [("schema", "", KSchema, NObj 3 [("properties", "again", KSchema, NRef "p.json")])])))]
    [("/api/root.json", "p.json", "/api/p.json")] 2 [] [].
Theorem C20_refuted_callback_of_another_kind : run c_two_kinds = RPanic.
Proof. vm_compute. reflexivity. Qed.

(* the positive side: for a document whose references are all internal (#/...), none into an
   extension area, and each reference text used at one kind only (K), loading never panics - at any
   fuel, through every entry point, for every reference graph (chains, diamonds, cycles, dangling
   and wrong-kind targets included: those yield errors).  Invariant over the whole interpreter:
   every registered callback has the kind of the routine that will complete its reference. *)
From KV Require Import Proofs.LoaderNoPanic.
Theorem C20_no_panic_single_document :
  forall allow files rpath (K : string -> kind) fuel entry root rootfile,
    file_ok K rootfile -> files root = Some rootfile ->
    load allow files rpath fuel entry root rootfile <> RPanic.
Proof. exact load_no_panic. Qed.
Print Assumptions C20_no_panic_single_document.

(* non-vacuity: the chain / diamond / cycle document of C02 meets the hypotheses *)
Example C20_hypotheses_satisfiable :
  let K := fun _ : string => KSchema in
  let f := mkFile [(["components"; "schemas"; "A"], KSchema, true,
                    NObj 1 [("properties", "x", KSchema, NRef "#/components/schemas/B"); ("properties", "y", KSchema, NRef "#/components/schemas/A")]);
                   (["components"; "schemas"; "B"], KSchema, true, NRef "#/components/schemas/A")] [] None in
  file_ok K f.
Proof.
  cbn. split; [reflexivity|]. split; [|split; exact I].
  intros p k t n [E|[E|[]]]; inversion E; subst.
  - constructor. intros c key k' ch [E1|[E1|[]]]; inversion E1; subst; constructor; reflexivity.
  - constructor; reflexivity.
Qed.
