(* C04 - document validation accepts conforming documents and rejects each violation. *)
From KV Require Import Model.Base Model.Json Model.DocValidate Spec.DocSpec Proofs.C04Proofs.
Local Open Scope list_scope.

(* For every document tree, every option set, every reference mode and every example-mode state
   the traversal starts in: when no node falsifies a guard (the implementation's rule at the node
   is the specification's, and it descends into every child the grammar lists), the verdict of
   T.Validate is conformance.  The content is the completeness of the hand-written descent and the
   irrelevance of the example-mode state it threads through the options struct. *)
Theorem C04_validate_iff_conforms :
  forall o n m st pos, g_all o m n = true -> fst (validate o m st n) = conforms o pos n.
Proof. exact validate_conforms. Qed.
Print Assumptions C04_validate_iff_conforms.

(* "rejects each violation at whichever place": a conforming document satisfies the rules of its
   kind at every node reachable along the grammar - so one violated rule anywhere makes the document
   non-conforming, and by the theorem above rejected *)
Theorem C04_violation_anywhere_rejected :
  forall o pos n pos' n', reach o pos n pos' n' -> conforms o pos n = true ->
  ref_spec o (nd_ref n') = true /\ local_spec o (pos_enter (nd_kind n') pos') n' = true.
Proof. exact conforms_everywhere. Qed.
Print Assumptions C04_violation_anywhere_rejected.

(* the style/explode switch of Parameter.Validate is the specification's table *)
Theorem C04_style_table :
  forall inn style explode, str_in inn ["path";"query";"header";"cookie"] = true ->
  sm_supported inn style explode = style_allowed inn style explode.
Proof. exact sm_supported_table. Qed.

(* the path-parameter rule is the set comparison whenever the counts differ *)
Theorem C04_path_params_partial :
  forall path item,
  forallb (fun kc => negb (Nat.eqb (List.length (path_param_names (nd_kids (snd kc)) ++ path_param_names (nd_kids item)))
                                   (List.length (tpl_vars path))))
          (kids_of "operations" (nd_kids item)) = true ->
  path_params_ok path item = path_params_spec path item.
Proof. exact path_params_when_counts_differ. Qed.

(* ---- refuted witnesses = findings ---- *)
Definition o0 : vopts := mkVO false [] false false false false false.
Definition o_noop : vopts := mkVO true [] false false false false false.
Definition ok_resp : dnode := DN "Response" RNone [("#has_description", JBool true); ("#unknown", JArr [])] [].
Definition mk_op (params : list (string * string * dnode)) : dnode :=
  DN "Operation" RNone [("#unknown", JArr [])]
     (params ++ [("responses", "", DN "Responses" RNone [("#unknown", JArr [])] [("items", "200", ok_resp)])]).
Definition path_param (name : string) : string * string * dnode :=
  ("parameters", "0", DN "Parameter" RNone [("name", JStr name); ("in", JStr "path"); ("required", JBool true); ("#unknown", JArr [])]
                         [("schema", "", DN "Schema" RNone [("type", JStr "string"); ("#unknown", JArr [])] [])]).
Definition mk_doc (paths : list (string * string * dnode)) : dnode :=
  DN "Doc" RNone [("openapi", JStr "3.0.3"); ("#unknown", JArr [])]
     [("info", "", DN "Info" RNone [("title", JStr "t"); ("version", JStr "1"); ("#unknown", JArr [])] []);
      ("paths", "", DN "Paths" RNone [("#unknown", JArr [])] paths)].
Definition item (params : list (string * string * dnode)) : dnode :=
  DN "PathItem" RNone [("#unknown", JArr [])] [("operations", "get", mk_op params)].

(* non-vacuity: a document that meets every guard and conforms *)
Example C04_example :
  let d := mk_doc [("items", "/a/{x}", item [path_param "x"])] in
  g_all o0 MDirect d = true /\ validate_doc o0 d = true /\ conforms o0 XN d = true.
Proof. vm_compute. repeat split. Qed.

(* template variable {x}, declared path parameter y: the counts agree, the check is skipped *)
Theorem C04_refuted_path_param_names :
  let d := mk_doc [("items", "/a/{x}", item [path_param "y"])] in
  validate_doc o0 d = true /\ conforms o0 XN d = false.
Proof. vm_compute. split; reflexivity. Qed.

(* /a/{x} and /a/{y} are one template: rejected (the rule never fired until the lookup key was
   repaired in /repo; this was the refuted witness C04_refuted_conflicting_templates) *)
Example C04_conflicting_templates_rejected :
  let d := mk_doc [("items", "/a/{x}", item [path_param "x"]); ("items", "/a/{y}", item [path_param "y"])] in
  validate_doc o0 d = false /\ conforms o0 XN d = false.
Proof. vm_compute. split; reflexivity. Qed.

(* an unknown member of a header object is rejected (Header.Validate did not call validateExtensions
   nor compare examples with the schema until it was repaired in /repo; this was the refuted witness
   C04_refuted_header_extra_field) *)
Example C04_header_extra_field_rejected :
  let h := DN "Header" RNone [("#unknown", JArr [JStr "bogus"])] [("schema", "", DN "Schema" RNone [("type", JStr "string"); ("#unknown", JArr [])] [])] in
  let resp := DN "Response" RNone [("#has_description", JBool true); ("#unknown", JArr [])] [("headers", "X-H", h)] in
  let op := DN "Operation" RNone [("#unknown", JArr [])] [("responses", "", DN "Responses" RNone [("#unknown", JArr [])] [("items", "200", resp)])] in
  let d := mk_doc [("items", "/a", DN "PathItem" RNone [("#unknown", JArr [])] [("operations", "get", op)])] in
  validate_doc o0 d = false /\ conforms o0 XN d = false.
Proof. vm_compute. split; reflexivity. Qed.

(* the example mode is written into the options struct: without options it is lost (an example with
   a read-only member inside a request body is accepted) ... *)
Definition mt_sensitive : dnode :=
  DN "MediaType" RNone [("#has_example", JBool true); ("#ex_none", JBool true); ("#ex_req", JBool false); ("#ex_res", JBool true); ("#unknown", JArr [])]
     [("schema", "", DN "Schema" RNone [("type", JStr "object"); ("#unknown", JArr [])] [])].
Definition op_with_body : dnode :=
  DN "Operation" RNone [("#unknown", JArr [])]
     [("requestBody", "", DN "RequestBody" RNone [("#has_content", JBool true); ("#unknown", JArr [])] [("content", "application/json", mt_sensitive)]);
      ("responses", "", DN "Responses" RNone [("#unknown", JArr [])] [("items", "200", ok_resp)])].
Theorem C04_refuted_example_mode_lost :
  let d := mk_doc [("items", "/a", DN "PathItem" RNone [("#unknown", JArr [])] [("operations", "post", op_with_body)])] in
  validate_doc o0 d = true /\ conforms o0 XN d = false /\ validate_doc o_noop d = false.
Proof. vm_compute. repeat split. Qed.

(* ... and with options it outlives the request body or response that set it: the same parameter
   example is accepted or rejected depending on which operation was validated before *)
Definition param_sensitive : string * string * dnode :=
  ("parameters", "0", DN "Parameter" RNone [("name", JStr "q"); ("in", JStr "query"); ("#has_example", JBool true);
                                            ("#ex_none", JBool true); ("#ex_req", JBool true); ("#ex_res", JBool false); ("#unknown", JArr [])]
                         [("schema", "", DN "Schema" RNone [("type", JStr "object"); ("#unknown", JArr [])] [])]).
Theorem C04_refuted_example_mode_stale :
  let d1 := mk_doc [("items", "/a", item [param_sensitive])] in
  let d2 := mk_doc [("items", "/a", item []); ("items", "/b", item [param_sensitive])] in
  validate_doc o_noop d1 = true /\ validate_doc o_noop d2 = false /\ conforms o_noop XN d1 = true /\ conforms o_noop XN d2 = true.
Proof. vm_compute. repeat split. Qed.

(* a sibling field next to a reference nested inside a schema is not looked at (Schema.validate goes
   to the referenced value directly) *)
Theorem C04_refuted_nested_ref_sibling :
  let inner := DN "Schema" (RRef true ["description"]) [("type", JStr "string"); ("#unknown", JArr [])] [] in
  let s := DN "Schema" RNone [("type", JStr "array"); ("#unknown", JArr [])] [("items", "", inner)] in
  let comps := DN "Components" RNone [("#unknown", JArr [])] [("schemas", "S", s)] in
  let d := DN "Doc" RNone [("openapi", JStr "3.0.3"); ("#unknown", JArr [])]
              [("components", "", comps); ("info", "", DN "Info" RNone [("title", JStr "t"); ("version", JStr "1"); ("#unknown", JArr [])] []);
               ("paths", "", DN "Paths" RNone [("#unknown", JArr [])] [])] in
  validate_doc o0 d = true /\ conforms o0 XN d = false.
Proof. vm_compute. split; reflexivity. Qed.

(* operation-level servers are not validated *)
Theorem C04_refuted_operation_servers :
  let srv := DN "Server" RNone [("url", JStr ""); ("#unknown", JArr [])] [] in
  let op := DN "Operation" RNone [("#unknown", JArr [])]
               [("servers", "0", srv); ("responses", "", DN "Responses" RNone [("#unknown", JArr [])] [("items", "200", ok_resp)])] in
  let d := mk_doc [("items", "/a", DN "PathItem" RNone [("#unknown", JArr [])] [("operations", "get", op)])] in
  validate_doc o0 d = true /\ conforms o0 XN d = false.
Proof. vm_compute. split; reflexivity. Qed.
