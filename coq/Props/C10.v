(* C10 - no request or response can make validation of a valid document panic (partial: the
   modelled stages; parsers, gorilla/mux and the runtime are exercised, not modelled). *)
From KV Require Import Model.Base Model.Json Model.Schema Model.Request Model.ParamCodec Model.Lookup Model.Response Model.Body Model.Router
     Proofs.SchemaProofs Proofs.SchemaMain Proofs.C10Proofs Proofs.C10Compose.
Local Open Scope list_scope.

(* schema validation never panics: every tree schema (bounds flags without bounds, zero multipleOf,
   uncompilable patterns, any nesting), every JSON value (NaN and infinities included), every mode,
   every oracle for patterns and formats *)
Theorem C10_schema_validation_never_panics :
  forall rc rm fo st s v, is_panic (visit rc rm fo st s v) = false.
Proof. intros rc rm fo st s v. exact (visit_np rc rm fo st s v). Qed.
Print Assumptions C10_schema_validation_never_panics.

(* parameter decoding and validation: for every location, style, explode setting, schema and
   request fragment, whatever the number parsers return - provided an array-typed parameter schema
   declares its items, which is a rule of document validation (C04: "when schema type is 'array',
   schema 'items' must be non-null") *)
Theorem C10_parameter_stage_never_panics :
  forall pi64 pi32 pf rc rm fo multi p f,
    items_declared (pd_schema p) = true ->
    np_d (decode_param pi64 pi32 pf p f) = true /\
    is_vpanic (validate_param pi64 pi32 pf rc rm fo multi p f) = false.
Proof.
  intros. split; [now apply decode_param_no_panic|now apply validate_param_no_panic].
Qed.
Print Assumptions C10_parameter_stage_never_panics.

(* request bodies and responses: for every option set, content map, content type, body, status,
   header set *)
Theorem C10_body_stage_never_panics :
  forall rc rm fo o required content ct raw parsed,
    Proofs.C10Proofs.is_bpanic (validate_body rc rm fo o required content ct raw parsed) = false.
Proof. exact validate_body_no_panic. Qed.
Theorem C10_response_stage_never_panics :
  forall rc rm fo o is_head status responses ct body,
    Proofs.C10Proofs.is_rpanic (fst (validate_response rc rm fo o is_head status responses ct body)) = false.
Proof. exact validate_response_no_panic. Qed.
Print Assumptions C10_response_stage_never_panics.

(* the request stages composed: every operation (any number of parameters in effect, any request-body
   declaration) against every request (any fragment, content type, body bytes, parse result), in
   both error modes - the composition never yields a panic, provided array-typed parameter schemas
   declare their items (the document-validation rule above) *)
Theorem C10_request_stages_never_panic :
  forall pi64 pi32 pf rc rm fo multi o op r,
    Forall (fun p => items_declared (pd_schema p) = true) (op_params op) ->
    validate_request_stages pi64 pi32 pf rc rm fo multi o op r <> TPanicked.
Proof. exact request_stages_never_panic. Qed.
Print Assumptions C10_request_stages_never_panic.

(* the gate matters: without the document-validation rule the decoder does panic *)
Theorem C10_refuted_without_gate :
  let s := Sch (mkCore (Some ["array"]) [] false false false false "" false false false None None None 0 None "" 0 None [] 0 None None) None [] [] [] None [] None in
  let p := mkPDef LQuery "q" "" None false false s in
  np_d (decode_param (fun _ => None) (fun _ => None) (fun _ => None) p (mkFrag [] [("q", ["1"])] [] [])) = false.
Proof. vm_compute. reflexivity. Qed.
