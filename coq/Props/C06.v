(* C06 - request bodies are matched to a media type, decoded, checked as requests. *)
From KV Require Import Model.Base Model.Json Model.Schema Model.Lookup Model.Response Model.Body
     Spec.SchemaSpec Spec.SchemaGuardsRW Spec.ResponseSpec Spec.BodySpec Proofs.SchemaMain Proofs.C08Proofs Proofs.C06Proofs.
Local Open Scope list_scope.

(* media-type choice: exact string, then without parameters, then type/*, then */*,
   for every content map and every Content-Type string *)
Theorem C06_content_precedence :
  forall (A : Type) (content : list (string * A)) mime,
    content_get content mime = content_spec content mime.
Proof. exact @content_eq. Qed.

(* the schema read as a request: for every settings record with asreq set, visit accepts exactly
   the values satisfying satb in the request reading (read-only members must be absent unless the
   exclusion is on and are exempt from `required`; write-only members are ordinary) *)
Theorem C06_schema_as_request :
  forall rc rm fo o s v,
    sv_guard rc rm fo (md_req o) true s v = true ->
    accepts (visit rc rm fo (req_settings o) s v) = satb rc rm fo (md_req o) s v.
Proof.
  intros rc rm fo o s v G. change (md_req o) with (md_of (req_settings o)).
  exact (proj2 (proj2 (visit_spec rc rm fo (req_settings o) s v G))).
Qed.
Print Assumptions C06_schema_as_request.

(* the body flow: missing required body, undeclared content type, undecodable body, schema *)
Theorem C06_body_iff :
  forall rc rm fo o required content ct raw parsed,
    g_body rc rm fo o content ct raw parsed = true ->
    is_bpanic (validate_body rc rm fo o required content ct raw parsed) = false /\
    is_bok (validate_body rc rm fo o required content ct raw parsed)
    = body_spec rc rm fo o required content ct raw parsed.
Proof. exact body_iff. Qed.
Print Assumptions C06_body_iff.

(* the request reading is not the plain reading: a required read-only member may be missing and,
   when present, is rejected *)
Example C06_readonly_semantics :
  let ro := mkCore (Some ["string"]) [] false true false false "" false false false None None None 0 None "" 0 None [] 0 None None in
  let ob := mkCore (Some ["object"]) [] false false false false "" false false false None None None 0 None "" 0 None ["id"] 0 None None in
  let s := Sch ob None [] [] [] None [("id", Sch ro None [] [] [] None [] None)] None in
  let sat md v := satb (fun _ => true) (fun _ _ => true) (fun _ _ _ => None) md s v in
  sat (md_req (mkBOpts false false)) (JObj []) = true /\
  sat (md_req (mkBOpts false false)) (JObj [("id", JStr "x")]) = false /\
  sat (md_req (mkBOpts false true)) (JObj [("id", JStr "x")]) = true /\
  sat md_plain (JObj []) = false /\ sat md_plain (JObj [("id", JStr "x")]) = true.
Proof. vm_compute. repeat split. Qed.

(* ---- application/x-www-form-urlencoded bodies (Model/FormBody.v; tied to UrlencodedBodyDecoder by its
   own case stream) ---- *)
From KV Require Import Model.Request Model.ParamCodec Model.FormBody Proofs.FormProofs.
(* the decoder returns the object the form stands for: for every flat object schema (primitive and
   array-of-primitive properties, any number of them) and every non-empty form whose carried declared
   properties are values of their schemas - each property is read through the query-parameter decoder
   (style form, exploded), so this is the C05 round trip once per property, and what one property
   decodes to depends on its own key only *)
Theorem C06_form_decode_reads_value :
  forall pi64 pi32 pf c n o a l it props ap fields m,
    is_type c "object" = true -> existsb (fun kp => bad_prop (snd kp)) props = false -> fields <> [] ->
    form_value pi64 pi32 pf props fields = Some m ->
    form_decode pi64 pi32 pf (Sch c n o a l it props ap) (form_of fields) = Some m.
Proof. exact form_decode_reads_value. Qed.
Print Assumptions C06_form_decode_reads_value.
(* a test, not a theorem: a form with a number, a repeated key, an undeclared field and an absent property *)
Example C06_form_example :
  let prim t := Sch (mkCore (Some [t]) [] false false false false "" false false false None None None 0 None "" 0 None [] 0 None None) None [] [] [] None [] None in
  let arr t := Sch (mkCore (Some ["array"]) [] false false false false "" false false false None None None 0 None "" 0 None [] 0 None None) None [] [] [] (Some (prim t)) [] None in
  let s := Sch (mkCore (Some ["object"]) [] false false false false "" false false false None None None 0 None "" 0 None [] 0 None None) None [] [] [] None
               [("n", prim "integer"); ("s", prim "string"); ("tags", arr "string"); ("x", prim "number")] None in
  let pint := fun t => if String.eqb t "42" then Some 42%Z else None in
  form_decode pint pint (fun _ => None) s (form_of [("n", FPrim "42"); ("tags", FArr ["a"; "b"]); ("zz", FPrim "1")])
  = Some [("n", PI64 42); ("tags", PA [PS "a"; PS "b"])].
Proof. vm_compute. reflexivity. Qed.

(* the Encoding Object of a form body: whenever explode is written, and for style form (written or
   not), the method the decoder uses is the one the specification gives ... *)
Theorem C06_encoding_method_as_specified :
  forall style explode, (explode <> None \/ style = "" \/ style = "form") -> enc_method style explode = enc_method_spec style explode.
Proof.
  intros style explode H. unfold enc_method, enc_method_spec.
  destruct explode as [b|]; [reflexivity|].
  destruct H as [H|[H|H]]; [contradiction H; reflexivity | subst style; reflexivity | subst style; reflexivity].
Qed.

(* ... refuted for the other styles when explode is left out: the code says exploded, the specification
   says not (recorded finding form:urlencoded:array-in-declared-encoding-rejected; the existing test
   TestEncodingSerializationMethod pins the code's answer, so it stays a finding) *)
Example C06_refuted_encoding_explode_default :
  exists style, enc_method style None <> enc_method_spec style None.
Proof. exists "spaceDelimited". vm_compute. discriminate. Qed.
