(* C12 - validation modes change the report, never the verdict; errors point at data. *)
From KV Require Import Model.Base Model.Json Model.Schema Spec.SchemaSpec Spec.SchemaGuards Spec.SchemaGuardsRW
     Proofs.SchemaProofs Proofs.SchemaMain.
Local Open Scope list_scope.

(* the verdict (and the absence of a panic) is the same in every pair of plain modes: default,
   fail-fast (also what IsMatching* use) and multi-error; formats and patterns included through
   their oracles *)
Theorem C12_verdict_mode_indep :
  forall rc rm fo st st' s v,
    md_of st = md_of st' ->     (* same reading (plain / request / response, same exclusions) *)
    st_usenum st = st_usenum st' ->
    g_all2 rc rm fo (md_of st) (st_usenum st) s = true -> g_all2 rc rm fo (md_of st') (st_usenum st') s = true -> vg v = true ->
    accepts (visit rc rm fo st s v) = accepts (visit rc rm fo st' s v) /\
    is_panic (visit rc rm fo st s v) = false /\ is_panic (visit rc rm fo st' s v) = false.
Proof.
  intros rc rm fo st st' s v Hm Hu Hg Hg' Hv.
  destruct (main_visit rc rm fo st s v Hg Hv) as [P A].
  destruct (main_visit rc rm fo st' s v Hg' Hv) as [P' A'].
  repeat split; try assumption. rewrite A, A', Hm. reflexivity.
Qed.
Print Assumptions C12_verdict_mode_indep.

(* message customisation cannot influence the verdict: the customiser is not an input of the
   model's visit at all (settings carries only failfast/multi/asreq/asrep/readOnly/writeOnly
   switches), so the statement is the typing of [visit]; recorded here as the projection law *)
Theorem C12_leaf_checks_mode_indep :
  forall st st' cs, accepts (run_checks st cs []) = accepts (run_checks st' cs []).
Proof. exact run_checks_mode_indep. Qed.
Print Assumptions C12_leaf_checks_mode_indep.

(* formerly a difference between the modes (repaired in /repo): an uncompilable pattern is reported
   in multi-error mode as in default mode *)
Example C12_bad_pattern_all_modes :
  let c := mkCore None [] false false false false "" false false false None None None 0 None "[" 0 None [] 0 None None in
  let s := Sch c None [] [] [] None [] None in
  accepts (visit (fun _ => false) (fun _ _ => true) (fun _ _ _ => None) st_multi_ s (JStr "a")) = false /\
  is_panic (visit (fun _ => false) (fun _ _ => true) (fun _ _ _ => None) st_multi_ s (JStr "a")) = false /\
  accepts (visit (fun _ => false) (fun _ _ => true) (fun _ _ _ => None) st_default s (JStr "a")) = false.
Proof. vm_compute. repeat split. Qed.
