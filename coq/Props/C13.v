(* C13 - validation leaves the request readable; defaults are added exactly once. *)
From KV Require Import Model.Base Model.Json Model.Schema Model.Request Model.Lookup Model.ParamCodec Model.Defaults
     Spec.ParamSpec Proofs.C05Proofs Proofs.C05Object Proofs.C13Proofs Proofs.C13Inject.
Local Open Scope list_scope.

(* whatever the security requirements do (undeclared schemes, callbacks that read the body, any
   number of requirements) and whether or not the body is validated, the request body is
   readable afterwards: the original bytes, or the re-encoded body when validation passed and
   defaults were set *)
Theorem C13_body_readable :
  forall data reqs body_checked valid defaults_set rewritten,
    request_stream data true reqs body_checked valid defaults_set rewritten
    = SFresh (if body_checked && valid && defaults_set then rewritten else data).
Proof. exact stream_readable. Qed.
Print Assumptions C13_body_readable.

(* body properties: a member that carries a value is never touched; every declared property with an
   applicable default carries a value afterwards; a second pass changes nothing - for every
   property list and every object *)
Theorem C13_present_members_untouched :
  forall roOff props l k x, assoc k l = Some x -> x <> JNull -> assoc k (add_defaults roOff props l) = Some x.
Proof. exact add_defaults_keeps. Qed.
Theorem C13_defaults_filled :
  forall roOff props l k pc d, In (k, pc) props -> gets_default roOff pc = Some d ->
    lacks (add_defaults roOff props l) k = false.
Proof. exact add_defaults_fills. Qed.
Theorem C13_defaults_idempotent :
  forall roOff props l, add_defaults roOff props (add_defaults roOff props l) = add_defaults roOff props l.
Proof. exact add_defaults_idempotent. Qed.
Print Assumptions C13_defaults_idempotent.

(* all depths: for every schema without allOf (properties, items, additionalProperties nested to any
   depth) and every value, a second injection pass is the identity *)
Theorem C13_inject_idempotent_without_allof :
  forall roOff s, noall s = true -> forall v, inject roOff s (inject roOff s v) = inject roOff s v.
Proof. exact inject_idempotent. Qed.
Print Assumptions C13_inject_idempotent_without_allof.

(* with allOf it is not: the members are visited before the schema's own defaults are filled in, so
   what they would add below a member that the schema itself defaults appears on the second pass
   only ("a second validation changes nothing further" fails - a finding on the real code:
   {allOf:[{properties:{p:{properties:{q:{default:1}}}}}], properties:{p:{default:{}}}} against {}) *)
Definition objC (d : option json) : score :=
  mkCoreD (Some ["object"]) [] false false false false "" false false false None None None 0 None "" 0 None [] 0 None None d.
Definition intD : schema :=
  Sch (mkCoreD (Some ["integer"]) [] false false false false "" false false false None None None 0 None "" 0 None [] 0 None None (Some (JNum 1))) None [] [] [] None [] None.
Definition inner : schema := Sch (objC None) None [] [] [] None [("p", Sch (objC None) None [] [] [] None [("q", intD)] None)] None.
Definition outer : schema := Sch (objC None) None [] [] [inner] None [("p", Sch (objC (Some (JObj []))) None [] [] [] None [] None)] None.
Theorem C13_refuted_allof_sees_own_default_later :
  inject false outer (JObj []) = JObj [("p", JObj [])] /\
  inject false outer (inject false outer (JObj [])) = JObj [("p", JObj [("q", JNum 1)])].
Proof. vm_compute. split; reflexivity. Qed.
(* non-vacuity of the positive theorem: a nested schema without allOf on which injection does work *)
Example C13_inject_example :
  let s := Sch (objC None) None [] [] [] None [("p", Sch (objC (Some (JObj []))) None [] [] [] None [("q", intD)] None)] None in
  noall s = true /\ inject false s (JObj []) = JObj [("p", JObj [("q", JNum 1)])].
Proof. vm_compute. split; reflexivity. Qed.

(* parameters: a scalar default written into an empty query / header / cookie is decoded back from
   exactly the text that was written (so the second validation sees the parameter as present) *)
Theorem C13_param_default_reads_back :
  forall pi64 pi32 pf sprint p d,
    pd_in p <> LPath ->
    allowed_cell (pd_in p) (eff_style p) (eff_explode p) = true ->
    defined_cell p (SPrim (sprint d)) = true ->
    shape_of (pd_schema p) = ShPrim -> scalar d = true -> sprint d <> ""%string ->
    decode_param pi64 pi32 pf p (populate sprint p frag0 d)
    = of_pres true (parse_primitive pi64 pi32 pf (sprint d) (core_of (pd_schema p))).
Proof. exact populated_scalar_reads_back. Qed.
Print Assumptions C13_param_default_reads_back.

(* ... and so a second validation changes nothing: the default-setting step of ValidateParameter
   (Model/Defaults.v set_param_default: the default is written only for a parameter that is not
   found, has no value and no decoding error) applied to its own result is the identity *)
Theorem C13_param_default_setting_idempotent :
  forall pi64 pi32 pf sprint p d,
    pd_in p <> LPath ->
    allowed_cell (pd_in p) (eff_style p) (eff_explode p) = true ->
    defined_cell p (SPrim (sprint d)) = true ->
    shape_of (pd_schema p) = ShPrim -> scalar d = true -> sprint d <> ""%string ->
    param_default (pd_schema p) = Some d ->
    let once := set_param_default sprint pi64 pi32 pf false p frag0 in
    set_param_default sprint pi64 pi32 pf false p once = once.
Proof. exact set_param_default_idempotent. Qed.
Print Assumptions C13_param_default_setting_idempotent.
(* "nothing else changes": whatever the request carries for a parameter - a value, an empty text
   (the defect repaired in /repo 0d07618: the default was appended next to it, at every validation
   again), an undecodable text - stays as it is; with default-setting skipped nothing is written *)
Theorem C13_present_parameter_untouched :
  forall pi64 pi32 pf sprint p f,
    decode_param pi64 pi32 pf p f <> DRes PNil false None ->
    set_param_default sprint pi64 pi32 pf false p f = f.
Proof. exact set_param_default_leaves_present. Qed.
Theorem C13_skip_leaves_parameters :
  forall pi64 pi32 pf sprint p f, set_param_default sprint pi64 pi32 pf true p f = f.
Proof. exact set_param_default_skipped. Qed.
Example C13_empty_header_keeps_its_text :
  let intS := Sch (mkCoreD (Some ["integer"]) [] false false false false "" false false false None None None 0 None "" 0 None [] 0 None None (Some (JNum 26))) None [] [] [] None [] None in
  let p := mkPDef LHeader "X-H" "" None false false intS in
  let f := mkFrag [] [] [("X-H", [""])] [] in
  set_param_default (fun _ => "26") (fun _ => None) (fun _ => None) (fun _ => None) false p f = f /\
  set_param_default (fun _ => "26") (fun _ => None) (fun _ => None) (fun _ => None) false p (mkFrag [] [] [] [])
  = mkFrag [] [] [("X-H", ["26"])] [].
Proof. vm_compute. split; reflexivity. Qed.

(* array defaults are written the way the parameter's serialization method reads them back (the
   population used `Explode != nil && *Explode` and "," whatever the style, and fmt.Sprint for header
   arrays, until it was repaired in /repo): the forwarded request decodes to the default's elements *)
Theorem C13_array_default_reads_back :
  forall pi64 pi32 pf sprint p l ic vs,
    pd_in p <> LPath ->
    allowed_cell (pd_in p) (eff_style p) (eff_explode p) = true ->
    defined_cell p (SArr (map sprint l)) = true ->
    shape_of (pd_schema p) = ShArr (Some ic) ->
    l <> [] -> Forall (fun t => t <> ""%string) (map sprint l) ->
    (pd_in p = LQuery -> eff_explode p = true \/ clean (arr_sep LQuery (eff_style p) (eff_explode p)) (map sprint l)) ->
    (pd_in p <> LQuery -> clean (arr_sep (pd_in p) (eff_style p) (eff_explode p)) (map sprint l)) ->
    leaves pi64 pi32 pf (map sprint l) ic = Some vs -> Forall (fun v => v <> PNil) vs ->
    decode_param pi64 pi32 pf p (populate sprint p frag0 (JArr l)) = DRes (PA vs) true None.
Proof. exact populated_array_reads_back. Qed.
Print Assumptions C13_array_default_reads_back.
(* ... and object defaults (every style but deepObject, whose decoder has its own model: Model/DeepObject.v):
   the members' texts, as name,value pairs / name=value pairs / exploded into the query (the population
   wrote fmt.Sprint of the map, and nothing at all for headers and cookies, until repaired in /repo d5e631d) *)
Theorem C13_object_default_reads_back :
  forall pi64 pi32 pf sprint p l decl ms,
    pd_in p <> LPath ->
    allowed_cell (pd_in p) (eff_style p) (eff_explode p) = true ->
    String.eqb (eff_style p) "deepObject" = false ->
    defined_cell p (SObj (member_texts sprint l)) = true ->
    shape_of (pd_schema p) = ShObj decl None ->
    l <> [] -> nodup_s (map fst (member_texts sprint l)) = true -> nodup_s (map fst decl) = true ->
    Forall (fun t => t <> ""%string) (flat (member_texts sprint l)) ->
    (pd_in p = LQuery /\ eff_explode p = true \/ clean (obj_sep (pd_in p) (eff_style p) (eff_explode p)) (flat (member_texts sprint l))) ->
    (eq_form (pd_in p) (eff_explode p) = true -> clean "="%char (flat (member_texts sprint l))) ->
    members pi64 pi32 pf (member_texts sprint l) decl None = Some ms -> Forall (fun kv => snd kv <> PNil) ms ->
    exists m, decode_param pi64 pi32 pf p (populate sprint p frag0 (JObj l)) = DRes (PO m) true None /\
              forall k, assoc k m = assoc k ms.
Proof. exact populated_object_reads_back. Qed.
Print Assumptions C13_object_default_reads_back.
Example C13_object_default_example :
  let intS := Sch (mkCore (Some ["integer"]) [] false false false false "" false false false None None None 0 None "" 0 None [] 0 None None) None [] [] [] None [] None in
  let objS := Sch (mkCore (Some ["object"]) [] false false false false "" false false false None None None 0 None "" 0 None [] 0 None None) None [] [] [] None [("a", intS)] None in
  let sprint v := match v with JNum _ => "1" | _ => "?" end in
  let pi s := if String.eqb s "1" then Some 1%Z else None in
  decode_param pi pi (fun _ => None) (mkPDef LQuery "o" "" None false false objS) (populate sprint (mkPDef LQuery "o" "" None false false objS) frag0 (JObj [("a", JNum 1)]))
  = DRes (PO [("a", PI64 1)]) true None /\
  populate sprint (mkPDef LHeader "X-O" "" None false false objS) frag0 (JObj [("a", JNum 1)]) = mkFrag [] [] [("X-O", ["a,1"])] [].
Proof. vm_compute. split; reflexivity. Qed.
(* the former refuted witness, now on the side of the property *)
Example C13_array_default_example :
  let intS := Sch (mkCore (Some ["integer"]) [] false false false false "" false false false None None None 0 None "" 0 None [] 0 None None) None [] [] [] None [] None in
  let arrS := Sch (mkCore (Some ["array"]) [] false false false false "" false false false None None None 0 None "" 0 None [] 0 None None) None [] [] [] (Some intS) [] None in
  let p := mkPDef LQuery "id" "" None false false arrS in
  let sprint v := match v with JNum x => if PrimFloat.eqb x 1 then "1" else "2" | _ => "?" end in
  let pi s := if String.eqb s "1" then Some 1%Z else if String.eqb s "2" then Some 2%Z else None in
  decode_param pi pi (fun _ => None) p (populate sprint p frag0 (JArr [JNum 1; JNum 2]))
  = DRes (PA [PI64 1; PI64 2]) true None.
Proof. vm_compute. reflexivity. Qed.
