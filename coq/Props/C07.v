(* C07 - a request passes iff security, every effective parameter and the body pass. *)
From KV Require Import Model.Base Model.Request Spec.RequestSpec Proofs.C07Proofs.
Local Open Scope list_scope.

(* for every scheme declaration / callback outcome, every option set, every operation (security
   lists, parameter lists and body of any shape) the model of ValidateRequest returns no error iff
   the property's conditions hold.  No guard is left: the two defects the earlier statement excluded
   (path-level query parameters under ExcludeRequestQueryParams, the empty requirement without a
   callback) were repaired in /repo.  [callback_meaning]: without a callback nothing is accepted. *)
Theorem C07_request_iff :
  forall declared auth o op, callback_meaning auth o ->
    (validate_request declared auth o op = None <-> request_spec declared auth o op = true).
Proof. exact request_iff. Qed.
Print Assumptions C07_request_iff.

Theorem C07_multi_exact :
  forall declared auth o op, o_multi o = true ->
    validate_request declared auth o op =
    match map fst (filter (fun pb => negb (snd pb)) (checked_parts declared auth o op)) with
    | [] => None | l => Some l end.
Proof. exact multi_exact. Qed.
Print Assumptions C07_multi_exact.

Theorem C07_first_error_only :
  forall declared auth o op, o_multi o = false ->
    validate_request declared auth o op =
    match map fst (filter (fun pb => negb (snd pb)) (checked_parts declared auth o op)) with
    | [] => None | f :: _ => Some [f] end.
Proof. exact first_only. Qed.

(* security: first satisfied requirement wins; an operation-level list (even empty) replaces the
   document-level one; the callback is asked only about declared schemes, and exactly the schemes
   of a requirement it satisfies *)
Theorem C07_security_spec :
  forall declared auth o rs, callback_meaning auth o ->
    fst (security_ok declared auth o rs) = sec_spec declared auth rs.
Proof. exact security_ok_spec. Qed.
Theorem C07_calls_declared :
  forall declared auth o op n, In n (auth_calls declared auth o op) -> declared n = true.
Proof. exact calls_declared. Qed.
Theorem C07_satisfied_requirement_calls :
  forall declared auth names,
    fst (schemes_ok declared auth names) = true -> snd (schemes_ok declared auth names) = names.
Proof. exact schemes_ok_calls_all. Qed.
Print Assumptions C07_security_spec.

(* the two former refuted witnesses, now on the side of the property *)
Definition opx (sec : option (list requirement)) (pp : list param) : operation :=
  mkOp sec [] [] pp false true.
Example C07_path_level_query_excluded :
  let o := mkROpts false false true true in
  let op := opx None [mkParam LQuery "q" false] in
  validate_request (fun _ => true) (fun _ => true) o op = None /\
  request_spec (fun _ => true) (fun _ => true) o op = true.
Proof. vm_compute. split; reflexivity. Qed.
Example C07_empty_requirement_without_callback_passes :
  let o := mkROpts false false false false in
  let op := opx (Some [[]; ["s"]]) [] in
  validate_request (fun _ => true) (fun _ => false) o op = None /\
  request_spec (fun _ => true) (fun _ => false) o op = true.
Proof. vm_compute. split; reflexivity. Qed.

Example C07_hyps_satisfiable :
  let o := mkROpts true false true true in
  let op := mkOp (Some [["a"; "b"]; []]) [["z"]] [mkParam LQuery "q" false; mkParam LHeader "h" true]
                 [mkParam LHeader "h" false; mkParam LPath "id" true] true false in
  callback_meaning (fun n => String.eqb n "a") o /\
  validate_request (fun _ => true) (fun n => String.eqb n "a") o op = Some [PBody].
Proof. split; [intros H; discriminate H|vm_compute; reflexivity]. Qed.
