From KV Require Import Model.Base Model.Json Model.Schema Spec.SchemaSpec Model.GoTypes.
Local Open Scope list_scope.

Section IND.
  Variable P : gty -> Prop.
  Hypotheses (Hb : P TBool) (Hi : forall lo hi f, P (TInt lo hi f)) (Hf : forall f, P (TFloat f)) (Hs : P TString)
             (Hy : P TBytes) (Ht : P TTime) (Ha : P TAny)
             (Hp : forall t, P t -> P (TPtr t)) (Hl : forall t, P t -> P (TSlice t)) (Hm : forall t, P t -> P (TMap t))
             (Hst : forall fs, Forall (fun x => P (snd x)) fs -> P (TStruct fs)).
  Fixpoint gty_ind' (t : gty) : P t :=
    match t with
    | TBool => Hb | TInt lo hi f => Hi lo hi f | TFloat f => Hf f | TString => Hs | TBytes => Hy | TTime => Ht | TAny => Ha
    | TPtr t' => Hp t' (gty_ind' t') | TSlice t' => Hl t' (gty_ind' t') | TMap t' => Hm t' (gty_ind' t')
    | TStruct fs => Hst fs ((fix go (l : list (string * bool * gty)) : Forall (fun x => P (snd x)) l :=
                               match l with [] => Forall_nil _ | x :: r => Forall_cons x (gty_ind' (snd x)) (go r) end) fs)
    end.
End IND.

Definition is_ptr (t : gty) : bool := match t with TPtr _ => true | _ => false end.
Lemma encb_null t : encb t JNull = true -> is_ptr t = true.
Proof. destruct t; cbn; try discriminate; try reflexivity. Qed.

Section SOUND.
  Variable rc : string -> bool.
  Variable rm : string -> string -> bool.
  Variable fo : string -> string -> json -> option bool.
  (* no registered format validator rejects an encoded value (int32/int64/float/double have none or
     accept in-range numbers; byte and date-time accept what encoding/json writes): checked on the
     Go side for every generated value *)
  Hypothesis Hfo : forall k f v, fo k f v <> Some false.

  Notation sat := (satb rc rm fo md_plain).

  Lemma fmt_pass_ok c k v : fmt_pass fo c k v = true.
  Proof.
    unfold fmt_pass. destruct (String.eqb (c_format c) ""); [reflexivity|]. cbn.
    specialize (Hfo k (c_format c) v). destruct (fo k (c_format c) v) as [[]|]; congruence.
  Qed.

  Definition props_of (fs : list (string * bool * gty)) : list (string * schema) :=
    (fix go (l : list (string * bool * gty)) : list (string * schema) :=
       match l with [] => [] | (n, _, ft) :: r => (n, gen false ft) :: go r end) fs.
  Definition fields_enc (fs : list (string * bool * gty)) (l : list (string * json)) : bool :=
    (fix go (fs : list (string * bool * gty)) : bool :=
       match fs with
       | [] => true
       | (n, omit, ft) :: r => match assoc n l with Some x => encb ft x | None => omit end && go r
       end) fs.

  Lemma props_of_cons n o ft r : props_of ((n, o, ft) :: r) = (n, gen false ft) :: props_of r.
  Proof. reflexivity. Qed.
  Lemma fields_enc_cons n o ft r l : fields_enc ((n, o, ft) :: r) l = (match assoc n l with Some x => encb ft x | None => o end && fields_enc r l).
  Proof. reflexivity. Qed.

  (* a leaf schema (no composition, no items, no properties) on a non-null value *)
  Lemma sat_plain c it props ap v : v <> JNull -> c_enum c = [] ->
    sat (Sch c None [] [] [] it props ap) v =
    match v with
    | JNull => false
    | JBool _ => permits c "boolean"
    | JNum x => num_ok fo c x
    | JStr x => str_ok rc rm fo c x
    | JArr l => arr_ok c l && match it with Some its => forallb (fun x => sat its x) l | None => true end
    | JObj l =>
        obj_ok md_plain c l (map (fun kp => (fst kp, core_of (snd kp))) props) &&
        forallb (fun kp => match assoc (fst kp) l with
                           | Some x => negb (forbidden md_plain (core_of (snd kp))) && sat (snd kp) x
                           | None => true end) props &&
        forallb (fun kv => str_in (fst kv) (map fst props) ||
                           (match c_apHas c with Some false => false | _ => true end &&
                            match ap with Some a => sat a (snd kv) | None => true end)) l
    end.
  Proof. intros Hv He. destruct v; [now contradiction Hv| | | | |]; cbn [satb]; rewrite He; reflexivity. Qed.

  Lemma sat_null_nullable c n one any all it props ap : c_nullable c = true -> sat (Sch c n one any all it props ap) JNull = true.
  Proof. intros H. cbn [satb]. unfold permits_null. now rewrite H. Qed.

  Lemma gen_nullable t : c_nullable (core_of (gen true t)) = true.
  Proof. induction t; cbn; try reflexivity; assumption. Qed.
  Lemma gen_enum nl t : c_enum (core_of (gen nl t)) = [].
  Proof. revert nl. induction t; intros nl; cbn; try reflexivity; apply IHt. Qed.

  Theorem gen_sound : forall t nl j,
    encb t j = true -> (j = JNull -> nl = true \/ is_ptr t = true) -> sat (gen nl t) j = true.
  Proof.
    induction t as [| lo hi f | f | | | | | t IH | t IH | t IH | fs IH] using gty_ind'; intros nl j He Hn.
    - destruct j; try discriminate. reflexivity.
    - destruct j as [| |x| | |]; try discriminate. cbn [encb] in He. apply andb_prop in He as [He Hhi]. apply andb_prop in He as [Hint Hlo].
      cbn [gen]. rewrite sat_plain; [|discriminate|reflexivity]. unfold num_ok, permits, mk_core, mkCore. cbn -[fmt_pass f_is_int].
      rewrite Hint, fmt_pass_ok. cbn [andb].
      destruct lo as [m|]; [rewrite Hlo|]; destruct hi as [m'|]; try rewrite Hhi; reflexivity.
    - destruct j as [| |x| | |]; try discriminate. cbn [gen]. rewrite sat_plain; [|discriminate|reflexivity].
      unfold num_ok, permits, mk_core, mkCore. cbn -[fmt_pass]. now rewrite fmt_pass_ok.
    - destruct j; try discriminate. cbn [gen]. rewrite sat_plain; [|discriminate|reflexivity].
      unfold str_ok, permits, mk_core, mkCore. cbn -[fmt_pass ulen]. rewrite fmt_pass_ok. destruct (ulen _); reflexivity.
    - destruct j; try discriminate. cbn [gen]. rewrite sat_plain; [|discriminate|reflexivity].
      unfold str_ok, permits, mk_core, mkCore. cbn -[fmt_pass ulen]. rewrite fmt_pass_ok. destruct (ulen _); reflexivity.
    - destruct j; try discriminate. cbn [gen]. rewrite sat_plain; [|discriminate|reflexivity].
      unfold str_ok, permits, mk_core, mkCore. cbn -[fmt_pass ulen]. rewrite fmt_pass_ok. destruct (ulen _); reflexivity.
    - (* TAny: the empty schema, on a non-null value *)
      destruct j as [|b|x|s|l|l]; try discriminate He; cbn [gen]; (rewrite sat_plain; [|discriminate|reflexivity]).
      + reflexivity.
      + unfold num_ok, permits, mk_core, mkCore. cbn -[fmt_pass]. now rewrite fmt_pass_ok.
      + unfold str_ok, permits, mk_core, mkCore. cbn -[fmt_pass ulen]. rewrite fmt_pass_ok. destruct (ulen _); reflexivity.
      + unfold arr_ok, permits, mk_core, mkCore. cbn. destruct (N.of_nat (List.length l)); reflexivity.
      + unfold obj_ok, permits, mk_core, mkCore. cbn. clear He Hn. destruct (N.of_nat (List.length l)); cbn; induction l as [|kv l IHl]; try reflexivity; exact IHl.
    - (* pointer *)
      cbn [gen]. cbn [encb] in He. destruct j; try (apply IH; [exact He|discriminate]).
      destruct (gen true t) as [c n one any all it props ap] eqn:E. apply sat_null_nullable.
      change c with (core_of (Sch c n one any all it props ap)). rewrite <- E. apply gen_nullable.
    - (* slice *)
      destruct j as [| | | |l|]; try discriminate.
      cbn [encb] in He. cbn [gen]. rewrite sat_plain; [|discriminate|reflexivity].
      unfold arr_ok, permits. cbn. destruct (N.of_nat (List.length l)); cbn [N.leb N.compare andb]; rewrite forallb_forall in He; apply forallb_forall; intros x Hx;
      (apply IH; [now apply He|]; intros ->; right; apply encb_null; now apply He).
    - (* map *)
      destruct j as [| | | | |l]; try discriminate.
      cbn [encb] in He. cbn [gen]. rewrite sat_plain; [|discriminate|reflexivity].
      unfold obj_ok, permits. cbn. destruct (N.of_nat (List.length l)); cbn [N.leb N.compare andb]; rewrite forallb_forall in He; apply forallb_forall; intros kv Hkv;
      (apply IH; [now apply He|]; intros E; right; apply encb_null; rewrite <- E; now apply He).
    - (* struct *)
      destruct j as [| | | | |l]; try discriminate.
      change (fields_enc fs l = true) in He. change (gen nl (TStruct fs)) with
        (Sch (mk_core (match fs with [] => None | _ => Some ["object"] end) nl "" None None) None [] [] [] None (props_of fs) None).
      rewrite sat_plain; [|discriminate|reflexivity].
      assert (Hobj : obj_ok md_plain (mk_core (match fs with [] => None | _ => Some ["object"] end) nl "" None None) l
                       (map (fun kp => (fst kp, core_of (snd kp))) (props_of fs)) = true).
      { unfold obj_ok, permits, mk_core, mkCore. destruct fs; cbn; destruct (N.of_nat (List.length l)); reflexivity. }
      rewrite Hobj. cbn [andb].
      assert (Hprops : forallb (fun kp => match assoc (fst kp) l with
                                          | Some x => negb (forbidden md_plain (core_of (snd kp))) && sat (snd kp) x
                                          | None => true end) (props_of fs) = true).
      { clear Hobj Hn. induction fs as [|[[n omit] ft] r IHr]; [reflexivity|].
        inversion IH as [|x0 l0 Hx HF]; subst. rewrite fields_enc_cons in He. apply andb_prop in He as [Hf Hr].
        rewrite props_of_cons. cbn [forallb fst snd]. rewrite (IHr HF Hr), Bool.andb_true_r.
        revert Hf. destruct (assoc n l) as [x|]; [|reflexivity]. intros Hf.
        cbn [snd] in Hx. rewrite (Hx false x Hf) by (intros ->; right; now apply encb_null).
        unfold forbidden. cbn. reflexivity. }
      rewrite Hprops. cbn [andb].
      apply forallb_forall. intros kv _. destruct (str_in (fst kv) (map fst (props_of fs))); reflexivity.
  Qed.

  (* the schema generated for the root accepts every non-null encoding *)
  Corollary gen_root_sound : forall t j, encb t j = true -> j <> JNull -> sat (gen_root t) j = true.
  Proof.
    induction t; intros j He Hj; try (apply gen_sound; [exact He|intros ->; now contradiction Hj]).
    cbn [gen_root]. apply IHt; [|exact Hj]. cbn [encb] in He. destruct j; try exact He. now contradiction Hj.
  Qed.
End SOUND.

(* ---- the generated schemas are inside the guards of the C01 theorem, so the implementation's
   visit accepts what the specification accepts ---- *)
From KV Require Import Spec.SchemaGuards Spec.SchemaGuardsRW Proofs.SchemaProofs Proofs.SchemaMain.

Fixpoint wf_ty (t : gty) : bool :=
  match t with
  | TPtr t' | TSlice t' | TMap t' => wf_ty t'
  | TStruct fs =>
      nodup_str (map (fun x => fst (fst x)) fs) &&
      (fix go (l : list (string * bool * gty)) : bool := match l with [] => true | (_, _, ft) :: r => wf_ty ft && go r end) fs
  | _ => true
  end.

Section GUARDS.
  Variable rc : string -> bool.
  Variable rm : string -> string -> bool.
  Variable fo : string -> string -> json -> option bool.

  Lemma map_fst_props fs : map fst (props_of fs) = map (fun x => fst (fst x)) fs.
  Proof. induction fs as [|[[n o] ft] r IH]; [reflexivity|]. rewrite props_of_cons. cbn [map fst]. now rewrite IH. Qed.

  Lemma gen_guards : forall t nl, wf_ty t = true -> g_all2 rc rm fo md_plain false (gen nl t) = true.
  Proof.
    induction t as [| lo hi f | f | | | | | t IH | t IH | t IH | fs IH] using gty_ind'; intros nl Hw;
      try (destruct nl; reflexivity).
    - cbn [gen]. apply IH. exact Hw.
    - cbn [gen wf_ty] in *. unfold g_all2. cbn [all_sub opt_all forallb]. fold (g_all2 rc rm fo md_plain false).
      rewrite (IH false Hw). destruct nl; reflexivity.
    - cbn [gen wf_ty] in *. unfold g_all2. cbn [all_sub opt_all forallb]. fold (g_all2 rc rm fo md_plain false).
      rewrite (IH false Hw). destruct nl; reflexivity.
    - change (gen nl (TStruct fs)) with
        (Sch (mk_core (match fs with [] => None | _ => Some ["object"] end) nl "" None None) None [] [] [] None (props_of fs) None).
      cbn [wf_ty] in Hw. apply andb_prop in Hw as [Hnd Hws].
      unfold g_all2. cbn [all_sub opt_all forallb]. fold (g_all2 rc rm fo md_plain false).
      assert (Hkids : forallb (fun kp => g_all2 rc rm fo md_plain false (snd kp)) (props_of fs) = true).
      { clear Hnd. induction fs as [|[[n o] ft] r IHr]; [reflexivity|]. inversion IH as [|x0 l0 Hx HF]; subst.
        apply andb_prop in Hws as [Hwf Hwr]. rewrite props_of_cons. cbn [forallb snd]. cbn [snd] in Hx.
        rewrite (Hx false Hwf). now apply IHr. }
      rewrite Hkids.
      assert (Hhere : here_ok2 rc rm fo md_plain false
                (Sch (mk_core (match fs with [] => None | _ => Some ["object"] end) nl "" None None) None [] [] [] None (props_of fs) None) = true).
      { unfold here_ok2, here_ok, g_rw_here, g_enum_here, g_empty_here, g_small_here. cbn [core_of negb orb].
        rewrite map_fst_props, Hnd.
        assert (Hrw : forallb (fun kp => negb (forbidden md_plain (core_of (snd kp))) || negb (satb rc rm fo md_plain (snd kp) JNull)) (props_of fs) = true).
        { apply forallb_forall. intros kp _. unfold forbidden. reflexivity. }
        rewrite Hrw. destruct fs as [|f0 r]; [destruct nl; reflexivity|].
        destruct f0 as [[n o] ft]. rewrite props_of_cons. destruct nl; reflexivity. }
      rewrite Hhere. reflexivity.
  Qed.

  Lemma gen_mults : forall t nl, mults_of (gen nl t) = [].
  Proof.
    induction t as [| lo hi f | f | | | | | t IH | t IH | t IH | fs IH] using gty_ind'; intros nl; try reflexivity.
    - cbn [gen]. apply IH.
    - cbn [gen mults_of]. cbn. now rewrite IH.
    - cbn [gen mults_of]. cbn. now rewrite IH.
    - change (gen nl (TStruct fs)) with
        (Sch (mk_core (match fs with [] => None | _ => Some ["object"] end) nl "" None None) None [] [] [] None (props_of fs) None).
      cbn [mults_of]. cbn. rewrite app_nil_r.
      induction fs as [|[[n o] ft] r IHr]; [reflexivity|]. inversion IH as [|x0 l0 Hx HF]; subst.
      rewrite props_of_cons. cbn [flat_map snd]. cbn [snd] in Hx. rewrite (Hx false). cbn. now apply IHr.
  Qed.

  Lemma gen_root_is_gen t : exists t', gen_root t = gen false t' /\ (wf_ty t = true -> wf_ty t' = true) /\
                                        (forall j, j <> JNull -> encb t j = true -> encb t' j = true).
  Proof.
    induction t; try (eexists; split; [reflexivity|split; auto]).
    destruct IHt as [t' [E [Hw He]]]. exists t'. split; [exact E|]. split; [exact Hw|].
    intros j Hj H. apply He; [exact Hj|]. cbn [encb] in H. destruct j; try exact H. now contradiction Hj.
  Qed.

  (* C18 against the model of the implementation: the default-mode visit of the generated schema
     accepts every non-null encoding, and does not panic *)
  Theorem gen_root_visit :
    (forall k f v, fo k f v <> Some false) ->
    forall t j, wf_ty t = true -> encb t j = true -> j <> JNull -> vg j = true ->
    is_panic (visit rc rm fo st_default (gen_root t) j) = false /\
    accepts (visit rc rm fo st_default (gen_root t) j) = true.
  Proof.
    intros Hfo t j Hw He Hj Hv.
    destruct (gen_root_is_gen t) as [t' [E [Hw' He']]]. rewrite E.
    assert (Hg : g_all2 rc rm fo (md_of st_default) (st_usenum st_default) (gen false t') = true) by (apply gen_guards; auto).
    destruct (main_visit rc rm fo st_default (gen false t') j Hg Hv) as [P A].
    split; [exact P|]. rewrite A. apply gen_sound; [exact Hfo|now apply He'|]. intros ->. now contradiction Hj.
  Qed.
End GUARDS.
