From KV Require Import Model.Base Model.Middleware Spec.MiddlewareSpec.

Lemma client_obs_eqb_refl c : client_obs_eqb c c = true.
Proof. unfold client_obs_eqb. now rewrite Z.eqb_refl, String.eqb_refl, Bool.eqb_reflx. Qed.

(* ---------- the client writer ---------- *)
Lemma cl_run_panic c hs : c_panic c = true -> cl_run c hs = c.
Proof.
  revert c; induction hs as [|h hs IH]; intros c Hp; [reflexivity|].
  unfold cl_run in *; cbn [fold_left].
  assert (cl_step c h = c) as ->.
  { destruct h; cbn [cl_step]; unfold cl_write_header, cl_write, cl_flush; now rewrite ?Hp. }
  now apply IH.
Qed.

Lemma cl_run_wrote code body hs :
  cl_run (mkClient true code body false) (no_flush hs)
  = mkClient true code (body ++ handler_body hs) false.
Proof.
  revert body; induction hs as [|h hs IH]; intros body; cbn [no_flush handler_body].
  - now rewrite app_str_nil_r.
  - destruct h; cbn [no_flush handler_body]; unfold cl_run in *; cbn [fold_left cl_step].
    + apply IH.
    + unfold cl_write_header; cbn. apply IH.
    + unfold cl_write; cbn. rewrite IH. now rewrite app_str_assoc.
    + apply IH.
Qed.

Lemma cl_run_fresh body hs :
  cl_run (mkClient false 200 body false) (no_flush hs)
  = match handler_status hs with
    | None => mkClient false 200 body false
    | Some n => if code_valid n then mkClient true n (body ++ handler_body hs) false
                else mkClient false 200 body true
    end.
Proof.
  induction hs as [|h hs IH]; cbn [no_flush handler_body handler_status]; [reflexivity|].
  destruct h; cbn [no_flush handler_body handler_status]; unfold cl_run in *; cbn [fold_left cl_step].
  - apply IH.
  - unfold cl_write_header; cbn [c_panic c_wrote c_body c_code].
    destruct (code_valid n) eqn:Hv.
    + apply cl_run_wrote.
    + fold (cl_run (mkClient false 200 body true) (no_flush hs)). now apply cl_run_panic.
  - unfold cl_write; cbn [c_panic c_wrote c_body c_code code_valid].
    change (code_valid 200) with true; cbn iota.
    fold (cl_run (mkClient true 200 (body ++ b) false) (no_flush hs)).
    rewrite cl_run_wrote. now rewrite app_str_assoc.
  - apply IH.
Qed.

(* ---------- strict wrapper ---------- *)
Definition strict_res (w : wrap) (hs : list hop) : wrap :=
  mkWrap (w_hw w || g_wrote hs)
         (if w_hw w then w_status w
          else match handler_status hs with Some n => n | None => w_status w end)
         (w_body w ++ handler_body hs) (w_cl w).

Lemma strict_fold hs w : fold_left strict_step hs w = strict_res w hs.
Proof.
  revert w; induction hs as [|h hs IH]; intros [hw st body c].
  - unfold strict_res, g_wrote; cbn. rewrite app_str_nil_r, Bool.orb_false_r.
    now destruct hw.
  - cbn [fold_left]. rewrite IH. unfold strict_res, g_wrote.
    destruct h; cbn [strict_step handler_status handler_body w_hw w_status w_body w_cl];
      try reflexivity.
    + destruct hw; cbn [w_hw w_status w_body w_cl orb]; reflexivity.
    + destruct hw; cbn [w_hw w_status w_body w_cl orb]; rewrite app_str_assoc; reflexivity.
Qed.

(* ---------- warn wrapper: the client sees exactly what it would see directly ---------- *)
Definition warn_inv (w : wrap) : Prop :=
  w_hw w = true -> c_wrote (w_cl w) = true \/ c_panic (w_cl w) = true.

Lemma warn_step_client w h :
  warn_inv w -> w_cl (warn_step w h) = cl_step (w_cl w) h /\ warn_inv (warn_step w h).
Proof.
  destruct w as [hw st body [wr code cb p]]. unfold warn_inv, warn_step. cbn [w_cl w_hw c_panic].
  intros Hinv. destruct p.
  { split; [|exact Hinv]. destruct h; reflexivity. }
  destruct h; cbn [cl_step].
  - split; [reflexivity|exact Hinv].
  - unfold warn_write_header, cl_write_header; cbn [w_cl w_hw w_status c_panic c_wrote c_body c_code].
    destruct hw.
    + destruct (Hinv eq_refl) as [Hwr|Hpp]; [|discriminate]. cbn in Hwr; subst wr.
      split; [reflexivity|]. intros _. now left.
    + destruct wr; [split; [reflexivity|now left]|].
      destruct (code_valid n); (split; [reflexivity|]); intros _; cbn; [now left|now right].
  - destruct hw; cbn [w_cl w_hw w_status w_body].
    + destruct (Hinv eq_refl) as [Hwr|Hpp]; [|discriminate]. cbn in Hwr; subst wr.
      split; [reflexivity|]. intros _. now left.
    + unfold warn_write_header, cl_write_header, cl_write;
        cbn [w_cl w_hw w_status w_body c_panic c_wrote c_body c_code].
      destruct wr; cbn; (split; [reflexivity|now left]).
  - cbn [w_cl w_hw]. unfold cl_flush; cbn [c_panic c_wrote].
    split; [reflexivity|]. intros Hw. destruct (Hinv Hw) as [Hwr|Hpp]; [|discriminate].
    cbn in Hwr; subst wr. now left.
Qed.

Lemma warn_fold hs w :
  warn_inv w -> w_cl (fold_left warn_step hs w) = cl_run (w_cl w) hs.
Proof.
  revert w; induction hs as [|h hs IH]; intros w Hinv; [reflexivity|].
  cbn [fold_left]. destruct (warn_step_client w h Hinv) as [Hc Hi].
  rewrite (IH _ Hi), Hc. reflexivity.
Qed.

(* ---------- the middleware ---------- *)
Section MWP.
  Variable route_ok req_ok : bool.
  Variable resp_ok : Z -> string -> bool.
  Variable ef : Z -> errcode -> list hop.

  Lemma handler_iff strict hs :
    o_called (run route_ok req_ok resp_ok ef strict hs) = route_ok && req_ok.
  Proof.
    unfold run. destruct route_ok, req_ok; cbn [negb andb]; try reflexivity.
    destruct (c_panic _); [reflexivity|].
    destruct (negb _); [destruct strict|]; reflexivity.
  Qed.

  Lemma run_spec_nonstrict hs :
    spec_ok route_ok req_ok resp_ok ef false hs (run route_ok req_ok resp_ok ef false hs) = true.
  Proof.
    unfold spec_ok. rewrite handler_iff, Bool.eqb_reflx. cbn [andb].
    unfold run. destruct route_ok; cbn [negb].
    2:{ cbn [o_client o_errs]. rewrite client_obs_eqb_refl. reflexivity. }
    destruct req_ok; cbn [negb].
    2:{ cbn [o_client o_errs]. rewrite client_obs_eqb_refl. reflexivity. }
    assert (Hc : w_cl (fold_left warn_step hs (wrap0 client0)) = cl_run client0 hs).
    { apply warn_fold. intros H; discriminate H. }
    destruct (c_panic _) eqn:Hp.
    - cbn [o_client o_errs]. rewrite Hc, client_obs_eqb_refl. reflexivity.
    - destruct (negb _); cbn [o_client o_errs]; rewrite Hc, client_obs_eqb_refl; reflexivity.
  Qed.

  Lemma run_spec_strict hs :
    spec_ok route_ok req_ok resp_ok ef true hs (run route_ok req_ok resp_ok ef true hs) = true.
  Proof.
    unfold spec_ok. rewrite handler_iff, Bool.eqb_reflx. cbn [andb].
    unfold run. destruct route_ok; cbn [negb].
    2:{ cbn [o_client o_errs]. rewrite client_obs_eqb_refl. reflexivity. }
    destruct req_ok; cbn [negb].
    2:{ cbn [o_client o_errs]. rewrite client_obs_eqb_refl. reflexivity. }
    pose proof (strict_fold hs (wrap0 client0)) as Hfold.
    unfold strict_res in Hfold; cbn [wrap0 w_cl w_body w_hw w_status orb String.append] in Hfold.
    unfold spec_status. rewrite Hfold. unfold client0.
    rewrite (cl_run_fresh "" hs). unfold w_code, g_wrote.
    destruct (handler_status hs) as [n|] eqn:Hs;
      cbn [w_cl w_status w_body w_hw c_panic String.append].
    - destruct (code_valid n) eqn:Hv; cbn [c_panic]; [|reflexivity].
      destruct (resp_ok n (handler_body hs)); cbn [negb].
      + cbn [o_client o_errs]. unfold strict_flush, w_code. cbn [w_cl w_status w_body w_hw].
        unfold cl_write_header, cl_write; cbn. rewrite Hv; cbn.
        rewrite client_obs_eqb_refl. reflexivity.
      + cbn [o_client o_errs]. rewrite client_obs_eqb_refl. reflexivity.
    - (* the handler wrote nothing: implicit 200, empty body *)
      destruct (resp_ok 200 (handler_body hs)); cbn [negb].
      + cbn [o_client o_errs]. unfold strict_flush, w_code. cbn [w_cl w_status w_body w_hw].
        assert (Hb : handler_body hs = "").
        { clear -Hs. induction hs as [|h r IH]; [reflexivity|].
          destruct h; cbn in *; try discriminate; auto. }
        rewrite Hb. reflexivity.
      + cbn [o_client o_errs]. rewrite client_obs_eqb_refl. reflexivity.
  Qed.

  Lemma run_spec strict hs :
    spec_ok route_ok req_ok resp_ok ef strict hs (run route_ok req_ok resp_ok ef strict hs) = true.
  Proof.
    destruct strict; [apply run_spec_strict | apply run_spec_nonstrict].
  Qed.
End MWP.

(* History: before the fix: commit in /repo (finding F-C14-1) the strict wrapper called
   WriteHeader(0) when the handler wrote nothing, and this statement needed the guard g_wrote. *)
