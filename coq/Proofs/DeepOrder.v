(* deepObject: the order in which the keys of the query reach deepSet does not matter.
   Trees that differ in the order of the members of their maps only ([kperm]) are indistinguishable
   for buildResObj; deepSet is a congruence for that relation and two deepSets at incomparable paths
   commute up to it. *)
From Coq Require Import Permutation.
From KV Require Import Model.Base Model.Json Model.Schema Model.Request Model.ParamCodec Model.Router Proofs.C09Proofs.
From KV Require Import Model.DeepObject Spec.DeepSpec Proofs.DeepBuild Proofs.DeepSer.
Local Open Scope list_scope.

Inductive tperm : ptree -> ptree -> Prop :=
| tp_leaf s : tperm (PLeaf s) (PLeaf s)
| tp_node a b : kperm a b -> tperm (PNode a) (PNode b)
with kperm : list (string * ptree) -> list (string * ptree) -> Prop :=
| kp_nil : kperm [] []
| kp_skip k t1 t2 a b : tperm t1 t2 -> kperm a b -> kperm ((k, t1) :: a) ((k, t2) :: b)
| kp_swap x y a : kperm (x :: y :: a) (y :: x :: a)
| kp_trans a b c : kperm a b -> kperm b c -> kperm a c.

Fixpoint tperm_refl (t : ptree) : tperm t t :=
  match t with
  | PLeaf s => tp_leaf s
  | PNode a => tp_node a a ((fix go (a : list (string * ptree)) : kperm a a :=
                               match a with
                               | [] => kp_nil
                               | (k, t) :: r => kp_skip k t t r r (tperm_refl t) (go r)
                               end) a)
  end.
Lemma kperm_refl : forall a, kperm a a.
Proof. induction a as [|[k t] a IH]; [constructor|]. apply kp_skip; [apply tperm_refl|exact IH]. Qed.

Lemma tperm_sym : forall t1 t2, tperm t1 t2 -> tperm t2 t1
with kperm_sym : forall a b, kperm a b -> kperm b a.
Proof.
  - intros t1 t2 H. destruct H as [s|a b Hk]; [constructor|constructor; now apply kperm_sym].
  - intros a b H. destruct H as [|k t1 t2 a b Ht Hk|x y a|a b c H1 H2].
    + constructor.
    + apply kp_skip; [now apply tperm_sym|now apply kperm_sym].
    + apply kp_swap.
    + eapply kp_trans; [apply kperm_sym; exact H2|apply kperm_sym; exact H1].
Qed.

(* the keys are permuted *)
Lemma kperm_keys : forall a b, kperm a b -> Permutation (map fst a) (map fst b).
Proof.
  induction 1; simpl.
  - constructor.
  - now constructor.
  - destruct x, y. apply perm_swap.
  - eapply perm_trans; eauto.
Qed.

Lemma assoc_none_notin {A} k (m : list (string * A)) : assoc k m = None <-> ~ In k (map fst m).
Proof.
  induction m as [|[k' v] m IH]; simpl; [tauto|].
  destruct (String.eqb_spec k k') as [->|Hn].
  - split; [discriminate|]. intros H. exfalso. apply H. now left.
  - rewrite IH. split; intros H; [intros [E|E]; [congruence|contradiction]|intros E; apply H; now right].
Qed.

(* lookups agree up to tperm, for maps without repeated keys *)
Definition orel (o1 o2 : option ptree) : Prop :=
  match o1, o2 with
  | None, None => True
  | Some t1, Some t2 => tperm t1 t2
  | _, _ => False
  end.

Lemma kperm_assoc : forall a b, kperm a b -> NoDup (map fst a) -> forall k, orel (assoc k a) (assoc k b).
Proof.
  induction 1 as [|k0 t1 t2 a b Ht Hk IH|[kx tx] [ky ty] a|a b c H1 IH1 H2 IH2]; intros Hnd k.
  - exact I.
  - simpl in Hnd. inversion Hnd; subst. simpl. destruct (String.eqb k k0); [exact Ht|now apply IH].
  - simpl in Hnd. inversion Hnd as [|? ? Hx Hnd']; subst. simpl.
    destruct (String.eqb_spec k kx) as [->|Hnx]; destruct (String.eqb_spec kx ky) as [E|Hxy].
    + exfalso. apply Hx. left. now rewrite E.
    + destruct (String.eqb_spec kx ky); [contradiction|]. apply tperm_refl.
    + subst ky. destruct (String.eqb_spec k kx); [contradiction|]. destruct (assoc k a); simpl; [apply tperm_refl|exact I].
    + destruct (String.eqb k ky); [apply tperm_refl|]. destruct (assoc k a); simpl; [apply tperm_refl|exact I].
  - specialize (IH1 Hnd k).
    assert (Hnd2 : NoDup (map fst b)) by (eapply Permutation_NoDup; [apply kperm_keys; eassumption|assumption]).
    specialize (IH2 Hnd2 k). unfold orel in *.
    destruct (assoc k a), (assoc k b), (assoc k c); try contradiction; auto.
    (* transitivity of tperm *)
    inversion IH1; subst; inversion IH2; subst; constructor. eapply kp_trans; eauto.
Qed.

(* ---- maps without repeated keys, at every level ---- *)
Fixpoint nd_tree (t : ptree) : Prop :=
  match t with
  | PLeaf _ => True
  | PNode a => NoDup (map fst a) /\
               (fix go (a : list (string * ptree)) : Prop :=
                  match a with [] => True | kt :: r => nd_tree (snd kt) /\ go r end) a
  end.
Fixpoint nd_all (a : list (string * ptree)) : Prop :=
  match a with [] => True | kt :: r => nd_tree (snd kt) /\ nd_all r end.
Definition nd_kids (a : list (string * ptree)) : Prop := NoDup (map fst a) /\ nd_all a.
Lemma nd_tree_node a : nd_tree (PNode a) = nd_kids a.
Proof. reflexivity. Qed.

Lemma nd_all_assoc : forall a k t, nd_all a -> assoc k a = Some t -> nd_tree t.
Proof.
  induction a as [|[k' t'] a IH]; simpl; intros k t Hn H; [discriminate|]. destruct Hn as [H1 H2].
  destruct (String.eqb k k'); [inversion H; subst; exact H1|eauto].
Qed.

(* deepGet cannot tell the two maps apart *)
Lemma kperm_deep_get : forall p a b, kperm a b -> nd_kids a -> orel (deep_get a p) (deep_get b p).
Proof.
  induction p as [|k r IH]; intros a b Hk [Hnd Hall].
  - simpl. now constructor.
  - simpl. pose proof (kperm_assoc a b Hk Hnd k) as Ho. unfold orel in Ho.
    destruct (assoc k a) as [t1|] eqn:E1; destruct (assoc k b) as [t2|] eqn:E2; try contradiction; [|exact I].
    inversion Ho; subst.
    + simpl. constructor.
    + apply IH; [assumption|]. pose proof (nd_all_assoc a k _ Hall E1) as Hn. rewrite nd_tree_node in Hn. exact Hn.
Qed.

(* sliceMapToSlice cannot either *)
Lemma existsb_perm {A} (f : A -> bool) l l' : Permutation l l' -> existsb f l = existsb f l'.
Proof.
  induction 1; simpl; auto.
  - now rewrite IHPermutation.
  - destruct (f x), (f y); reflexivity.
  - congruence.
Qed.
Lemma fold_max_perm (l l' : list (option Z)) : Permutation l l' -> forall acc,
  fold_left (fun a (k : option Z) => match k with Some z => Z.max a z | None => a end) l acc
  = fold_left (fun a (k : option Z) => match k with Some z => Z.max a z | None => a end) l' acc.
Proof.
  induction 1; intros acc; simpl; auto.
  - destruct x, y; try reflexivity. f_equal. lia.
  - now rewrite IHPermutation1.
Qed.
Lemma kperm_slice_len atoi a b : kperm a b -> slice_len atoi a = slice_len atoi b.
Proof.
  intros Hk. pose proof (kperm_keys a b Hk) as Hp. unfold slice_len.
  assert (Hp2 : Permutation (map (fun kv : string * ptree => atoi (fst kv)) a) (map (fun kv : string * ptree => atoi (fst kv)) b)).
  { rewrite <- !(map_map fst atoi). now apply Permutation_map. }
  rewrite (existsb_perm _ _ _ Hp2), (fold_max_perm _ _ Hp2).
  replace (List.length a) with (List.length b); [reflexivity|].
  rewrite <- (map_length fst a), <- (map_length fst b). symmetry. now apply Permutation_length.
Qed.

(* schemas without an additionalProperties schema (buildResObj then never iterates a map of the tree) *)
Fixpoint no_ap (s : dsch) : bool :=
  match s with
  | DSPrim _ => true
  | DSArr it => no_ap it
  | DSObj props ap =>
      (fix go (l : list (string * dsch)) : bool := match l with [] => true | (_, ps) :: r => no_ap ps && go r end) props
      && match ap with Some _ => false | None => true end
  end.

Section RESPECT.
  Variable parse_int64 parse_int32 : string -> option Z.
  Variable parse_float : string -> option float.
  Variable atoi : string -> option Z.
  Notation build := (build parse_int64 parse_int32 parse_float atoi).

  (* buildResObj returns the same value on maps that differ in member order only *)
  Theorem build_kperm : forall s, no_ap s = true -> forall a b mk key, kperm a b -> nd_kids a ->
    build a s mk key = build b s mk key.
  Proof.
    induction s as [c|it IH|decl IHd|decl ap IHd IHa] using dsch_ind'; intros Hs a b mk key Hk Hnd.
    - cbn [DeepObject.build]. pose proof (kperm_deep_get (child_path mk key) a b Hk Hnd) as Ho. unfold orel in Ho.
      destruct (deep_get a (child_path mk key)) as [t1|]; destruct (deep_get b (child_path mk key)) as [t2|]; try contradiction; [|reflexivity].
      inversion Ho; subst; reflexivity.
    - cbn [DeepObject.build]. pose proof (kperm_deep_get (child_path mk key) a b Hk Hnd) as Ho. unfold orel in Ho.
      destruct (deep_get a (child_path mk key)) as [t1|]; destruct (deep_get b (child_path mk key)) as [t2|]; try contradiction; [|reflexivity].
      inversion Ho as [|n1 n2 Hn]; subst; [reflexivity|].
      rewrite (kperm_slice_len atoi n1 n2 Hn). destruct (slice_len atoi n2) as [n|]; [|reflexivity].
      replace (map (fun i => build a it (child_path mk key) (itoa i)) (List.seq 0 n))
        with (map (fun i => build b it (child_path mk key) (itoa i)) (List.seq 0 n)); [reflexivity|].
      apply map_ext. intros i. symmetry. apply IH; auto.
    - cbn [DeepObject.build]. pose proof (kperm_deep_get (child_path mk key) a b Hk Hnd) as Ho. unfold orel in Ho.
      destruct (deep_get a (child_path mk key)) as [t1|]; destruct (deep_get b (child_path mk key)) as [t2|]; try contradiction; [|reflexivity].
      inversion Ho as [|n1 n2 Hn]; subst; [reflexivity|].
      replace (obj_loop (fun k ps => build a ps (child_path mk key) k) decl [])
        with (obj_loop (fun k ps => build b ps (child_path mk key) k) decl []); [reflexivity|].
      simpl in Hs. rewrite andb_true_r in Hs.
      generalize (@nil (string * pval)) as acc. revert Hs. induction decl as [|[k ps] decl IHl]; intros Hs acc; [reflexivity|].
      inversion IHd as [|? ? Hps Hrest]; subst. apply andb_true_iff in Hs. destruct Hs as [Hps' Hs'].
      cbn [obj_loop]. simpl in Hps. rewrite <- (Hps Hps' a b (child_path mk key) k Hk Hnd).
      destruct (build a ps (child_path mk key) k) as [v|]; [|reflexivity]. destruct v; apply (IHl Hrest Hs').
    - simpl in Hs. rewrite andb_false_r in Hs. discriminate.
  Qed.
End RESPECT.

(* ---- upd and kperm ---- *)
Lemma upd_keys_in {A} k (v : A) m : forall x, In x (map fst (upd k v m)) <-> x = k \/ In x (map fst m).
Proof.
  induction m as [|[k' v'] m IH]; intros x; simpl.
  - split; [intros [E|[]]; left; auto|intros [E|[]]; left; auto].
  - destruct (String.eqb_spec k k') as [->|Hn]; simpl.
    + split; [intros [E|E]; [left; auto|right; right; exact E]|intros [E|[E|E]]; [left; auto|left; auto|right; exact E]].
    + rewrite IH. split; [intros [E|[E|E]]; auto|intros [E|[E|E]]; auto].
Qed.
Lemma upd_nodup {A} k (v : A) m : NoDup (map fst m) -> NoDup (map fst (upd k v m)).
Proof.
  induction m as [|[k' v'] m IH]; simpl; intros H.
  - constructor; [intros []|constructor].
  - inversion H as [|? ? Hx Hm]; subst. destruct (String.eqb_spec k k') as [->|Hn]; simpl.
    + constructor; assumption.
    + constructor; [|now apply IH]. rewrite upd_keys_in. intros [E|E]; [congruence|contradiction].
Qed.
Lemma upd_nd_all k v m : nd_tree v -> nd_all m -> nd_all (upd k v m).
Proof.
  intros Hv. induction m as [|[k' v'] m IH]; simpl; intros H.
  - auto.
  - destruct H as [H1 H2]. destruct (String.eqb k k'); simpl; auto.
Qed.
Lemma upd_nd_kids k v m : nd_tree v -> nd_kids m -> nd_kids (upd k v m).
Proof. intros Hv [H1 H2]. split; [now apply upd_nodup|now apply upd_nd_all]. Qed.

Lemma upd_tperm k v1 v2 : tperm v1 v2 -> forall a, kperm (upd k v1 a) (upd k v2 a).
Proof.
  intros Hv. induction a as [|[k' t'] a IH]; simpl.
  - apply kp_skip; [exact Hv|constructor].
  - destruct (String.eqb k k').
    + apply kp_skip; [exact Hv|apply kperm_refl].
    + apply kp_skip; [apply tperm_refl|exact IH].
Qed.

Lemma kperm_upd : forall a b, kperm a b -> NoDup (map fst a) -> forall k v1 v2, tperm v1 v2 ->
  kperm (upd k v1 a) (upd k v2 b).
Proof.
  induction 1 as [|k0 t1 t2 a b Ht Hk IH|[kx tx] [ky ty] a|a b c H1 IH1 H2 IH2]; intros Hnd k v1 v2 Hv.
  - simpl. apply kp_skip; [exact Hv|constructor].
  - simpl in Hnd. inversion Hnd; subst. simpl. destruct (String.eqb k k0).
    + apply kp_skip; assumption.
    + apply kp_skip; [exact Ht|now apply IH].
  - simpl in Hnd. inversion Hnd as [|? ? Hx Hnd']; subst. inversion Hnd' as [|? ? Hy Hnd'']; subst.
    assert (Hxy : kx <> ky) by (intros E; apply Hx; left; now rewrite E).
    simpl. destruct (String.eqb_spec k kx) as [->|Hkx].
    + destruct (String.eqb_spec kx ky); [contradiction|].
      eapply kp_trans; [apply kp_swap|]. apply kp_skip; [apply tperm_refl|]. apply kp_skip; [exact Hv|apply kperm_refl].
    + destruct (String.eqb_spec k ky) as [->|Hky].
      * eapply kp_trans; [apply kp_swap|]. apply kp_skip; [exact Hv|]. apply kp_skip; [apply tperm_refl|apply kperm_refl].
      * destruct (String.eqb_spec k kx); [contradiction|].
        eapply kp_trans; [apply kp_swap|]. apply kp_skip; [apply tperm_refl|]. apply kp_skip; [apply tperm_refl|].
        now apply upd_tperm.
  - assert (Hnd2 : NoDup (map fst b)) by (eapply Permutation_NoDup; [apply kperm_keys; eassumption|assumption]).
    eapply kp_trans; [apply (IH1 Hnd k v1 v1 (tperm_refl v1))|apply (IH2 Hnd2 k v1 v2 Hv)].
Qed.

Lemma kperm_nd_kids : forall a b, kperm a b -> nd_kids a -> nd_kids b.
Proof.
  assert (T : (forall a b, kperm a b -> nd_kids a -> nd_kids b) /\ True); [|exact (proj1 T)].
  split; [|exact I].
  fix IHk 3. intros a b H. destruct H as [|k t1 t2 a b Ht Hk|x y a|a b c H1 H2]; intros [Hnd Hall].
  - split; [constructor|exact I].
  - simpl in Hnd, Hall. inversion Hnd as [|? ? Hx Hnd']; subst. destruct Hall as [Ht1 Ha].
    destruct (IHk a b Hk (conj Hnd' Ha)) as [Hb1 Hb2]. split.
    + simpl. constructor; [|exact Hb1]. intros Hin. apply Hx. eapply Permutation_in; [apply Permutation_sym, kperm_keys; exact Hk|exact Hin].
    + simpl. split; [|exact Hb2].
      destruct Ht as [s|n1 n2 Hn]; [exact I|]. rewrite nd_tree_node in *. apply (IHk n1 n2 Hn Ht1).
  - destruct x as [kx tx], y as [ky ty]. simpl in *. destruct Hall as (Hx & Hy & Ha). split; [|repeat split; assumption].
    eapply Permutation_NoDup; [apply perm_swap|exact Hnd].
  - apply (IHk b c H2). apply (IHk a b H1). split; assumption.
Qed.

(* ---- deepSet ---- *)
Lemma sub_nd k m : nd_kids m -> nd_kids (sub k m).
Proof.
  intros [H1 H2]. unfold sub. destruct (assoc k m) as [[s|n]|] eqn:E; try (split; [constructor|exact I]).
  pose proof (nd_all_assoc m k _ H2 E) as Hn. now rewrite nd_tree_node in Hn.
Qed.

Lemma deep_set_nd : forall p m t, nd_kids m -> nd_kids (deep_set m p t).
Proof.
  induction p as [|k r IH]; intros m t Hm; [exact Hm|].
  destruct r as [|k2 r'].
  - cbn [deep_set]. destruct (assoc k m) as [[s|n]|]; try exact Hm; apply upd_nd_kids; auto; exact I.
  - rewrite deep_set_cons. apply upd_nd_kids; [|exact Hm]. rewrite nd_tree_node. apply IH. now apply sub_nd.
Qed.

Lemma kperm_sub k a b : kperm a b -> nd_kids a -> kperm (sub k a) (sub k b).
Proof.
  intros Hk [Hnd Hall]. pose proof (kperm_assoc a b Hk Hnd k) as Ho. unfold orel, sub in *.
  destruct (assoc k a) as [t1|]; destruct (assoc k b) as [t2|]; try contradiction; [|constructor].
  inversion Ho; subst; [constructor|assumption].
Qed.

(* deepSet is a congruence *)
Theorem deep_set_kperm : forall p a b t, kperm a b -> nd_kids a -> kperm (deep_set a p t) (deep_set b p t).
Proof.
  induction p as [|k r IH]; intros a b t Hk Hnd; [exact Hk|].
  destruct r as [|k2 r'].
  - cbn [deep_set]. destruct Hnd as [Hn1 Hn2]. pose proof (kperm_assoc a b Hk Hn1 k) as Ho. unfold orel in Ho.
    destruct (assoc k a) as [t1|]; destruct (assoc k b) as [t2|]; try contradiction.
    + inversion Ho; subst; [|exact Hk]. apply kperm_upd; auto. constructor.
    + apply kperm_upd; auto. constructor.
  - rewrite !deep_set_cons. apply kperm_upd; [exact Hk|exact (proj1 Hnd)|].
    constructor. apply IH; [now apply kperm_sub|now apply sub_nd].
Qed.

Lemma fold_set_nd : forall l m, nd_kids m -> nd_kids (fold_set m l).
Proof. induction l as [|[p t] l IH]; intros m Hm; [exact Hm|]. apply IH. now apply deep_set_nd. Qed.

Lemma fold_set_kperm : forall l a b, kperm a b -> nd_kids a -> kperm (fold_set a l) (fold_set b l).
Proof.
  induction l as [|[p t] l IH]; intros a b Hk Hnd; [exact Hk|].
  apply IH; [now apply deep_set_kperm|now apply deep_set_nd].
Qed.

(* ---- two deepSets at paths that part before either ends commute ---- *)
Fixpoint incomp (p q : list string) : Prop :=
  match p, q with
  | k1 :: r1, k2 :: r2 => k1 <> k2 \/ (k1 = k2 /\ incomp r1 r2)
  | _, _ => False
  end.
Lemma incomp_sym : forall p q, incomp p q -> incomp q p.
Proof.
  induction p as [|k1 r1 IH]; intros [|k2 r2] H; simpl in *; try contradiction.
  destruct H as [H|[-> H]]; [left; congruence|right; split; [reflexivity|now apply IH]].
Qed.

(* deepSet at a non-empty path: the map with one key rewritten, or the map itself *)
Definition step (o : option ptree) (r : list string) (t : string) : option ptree :=
  match r with
  | [] => match o with Some (PNode _) => None | _ => Some (PLeaf t) end
  | _ => Some (PNode (deep_set (match o with Some (PNode n) => n | _ => [] end) r t))
  end.
Lemma deep_set_step k r m t :
  deep_set m (k :: r) t = match step (assoc k m) r t with Some x => upd k x m | None => m end.
Proof. destruct r as [|k2 r']; [cbn [deep_set step]; destruct (assoc k m) as [[s|n]|]; reflexivity|reflexivity]. Qed.

Lemma upd_comm k1 k2 (x y : ptree) : k1 <> k2 -> forall m, kperm (upd k2 y (upd k1 x m)) (upd k1 x (upd k2 y m)).
Proof.
  intros Hne. induction m as [|[k0 v0] m IH].
  - simpl. destruct (String.eqb_spec k2 k1); [congruence|]. destruct (String.eqb_spec k1 k2); [congruence|]. apply kp_swap.
  - simpl. destruct (String.eqb_spec k1 k0) as [->|H1]; destruct (String.eqb_spec k2 k0) as [->|H2]; simpl.
    + congruence.
    + destruct (String.eqb_spec k2 k0); [contradiction|]. rewrite String.eqb_refl. apply kperm_refl.
    + rewrite String.eqb_refl. destruct (String.eqb_spec k1 k0); [contradiction|]. apply kperm_refl.
    + destruct (String.eqb_spec k2 k0); [contradiction|]. destruct (String.eqb_spec k1 k0); [contradiction|].
      apply kp_skip; [apply tperm_refl|exact IH].
Qed.

Lemma upd_upd {A} k (a b : A) m : upd k a (upd k b m) = upd k a m.
Proof.
  induction m as [|[k' v'] m IH]; cbn.
  - now rewrite String.eqb_refl.
  - destruct (String.eqb_spec k k') as [->|Hn]; cbn.
    + now rewrite String.eqb_refl.
    + destruct (String.eqb_spec k k'); [contradiction|]. now rewrite IH.
Qed.

Lemma sub_upd_same k n m : sub k (upd k (PNode n) m) = n.
Proof. unfold sub. now rewrite assoc_upd_same. Qed.

Theorem deep_set_comm : forall p q m t u, incomp p q -> nd_kids m ->
  kperm (deep_set (deep_set m p t) q u) (deep_set (deep_set m q u) p t).
Proof.
  induction p as [|k1 r1 IH]; intros [|k2 r2] m t u Hi Hm; simpl in Hi; try contradiction.
  destruct Hi as [Hne|[<- Hi]].
  - (* different first keys: each deepSet rewrites its own key *)
    rewrite (deep_set_step k1 r1 m t), (deep_set_step k2 r2 m u).
    destruct (step (assoc k1 m) r1 t) as [x|] eqn:E1; destruct (step (assoc k2 m) r2 u) as [y|] eqn:E2.
    + rewrite (deep_set_step k2 r2 (upd k1 x m) u), (deep_set_step k1 r1 (upd k2 y m) t).
      rewrite (assoc_upd_other k1 k2 x m) by congruence. rewrite (assoc_upd_other k2 k1 y m) by congruence.
      rewrite E1, E2. now apply upd_comm.
    + rewrite (deep_set_step k2 r2 (upd k1 x m) u). rewrite (assoc_upd_other k1 k2 x m) by congruence. rewrite E2.
      rewrite (deep_set_step k1 r1 m t), E1. apply kperm_refl.
    + rewrite (deep_set_step k2 r2 m u), E2. rewrite (deep_set_step k1 r1 (upd k2 y m) t).
      rewrite (assoc_upd_other k2 k1 y m) by congruence. rewrite E1. apply kperm_refl.
    + rewrite (deep_set_step k2 r2 m u), E2, (deep_set_step k1 r1 m t), E1. apply kperm_refl.
  - (* the same first key: both go on below it *)
    destruct r1 as [|a1 r1']; [destruct r2; simpl in Hi; contradiction|].
    destruct r2 as [|a2 r2']; [simpl in Hi; contradiction|].
    rewrite !deep_set_cons. rewrite !sub_upd_same. rewrite !upd_upd.
    apply upd_tperm. constructor. apply IH; [exact Hi|now apply sub_nd].
Qed.

(* ---- any order of the pairs ---- *)
Definition pairwise_incomp (l : list (list string * string)) : Prop :=
  NoDup l /\ forall x y, In x l -> In y l -> x <> y -> incomp (fst x) (fst y).

Lemma pairwise_perm l l' : Permutation l l' -> pairwise_incomp l -> pairwise_incomp l'.
Proof.
  intros Hp [Hnd H]. split; [eapply Permutation_NoDup; eauto|].
  intros x y Hx Hy. apply H; eapply Permutation_in; try eassumption; now apply Permutation_sym.
Qed.
Lemma pairwise_tail x l : pairwise_incomp (x :: l) -> pairwise_incomp l.
Proof. intros [Hnd H]. inversion Hnd; subst. split; [assumption|]. intros a b Ha Hb. apply H; now right. Qed.

Theorem fold_set_perm : forall l l', Permutation l l' -> pairwise_incomp l -> forall m, nd_kids m ->
  kperm (fold_set m l) (fold_set m l').
Proof.
  induction 1 as [|x l l' Hp IH|x y l|l1 l2 l3 H1 IH1 H2 IH2]; intros Hpw m Hm.
  - apply kperm_refl.
  - cbn [fold_set fold_left]. apply IH; [eapply pairwise_tail; eauto|now apply deep_set_nd].
  - cbn [fold_set fold_left]. destruct Hpw as [Hnd Hpw].
    assert (Hxy : x <> y).
    { inversion Hnd as [|? ? Hin _]; subst. intros ->. apply Hin. now left. }
    assert (Hi : incomp (fst y) (fst x)) by (apply Hpw; [now left|right; now left|congruence]).
    change (fold_left _ l ?s) with (fold_set s l).
    apply fold_set_kperm; [|apply deep_set_nd; now apply deep_set_nd].
    apply deep_set_comm; assumption.
  - eapply kp_trans; [apply IH1; assumption|].
    apply IH2; [eapply pairwise_perm; eauto|assumption].
Qed.

(* ---- the paths of a serialisation part pairwise ---- *)
Lemma incomp_app p : forall a b, incomp a b -> incomp (p ++ a) (p ++ b).
Proof. induction p as [|k p IH]; intros a b H; [exact H|]. simpl. right. split; [reflexivity|now apply IH]. Qed.
Lemma incomp_cons_ne k1 k2 a b : k1 <> k2 -> incomp (k1 :: a) (k2 :: b).
Proof. intros H. simpl. now left. Qed.

(* every path of [ser p v] extends p, by at least one key for arrays and objects *)
Lemma ser_paths_extend : forall v p pt, In pt (ser p v) -> exists rest, fst pt = p ++ rest.
Proof.
  induction v as [t|l IH|ms IH] using dval_ind'; intros p pt Hin.
  - simpl in Hin. destruct Hin as [<-|[]]. exists []. now rewrite app_nil_r.
  - rewrite ser_arr_eq in Hin. revert Hin. generalize 0 as i. induction l as [|x l IHl]; intros i Hin; [destruct Hin|].
    inversion IH as [|? ? Hx Hl]; subst. rewrite ser_arr_cons in Hin. apply in_app_or in Hin. destruct Hin as [Hin|Hin].
    + destruct (Hx _ _ Hin) as [rest E]. exists (itoa i :: rest). rewrite E. now rewrite <- app_assoc.
    + apply (IHl Hl (S i) Hin).
  - rewrite ser_obj_eq in Hin. induction ms as [|[k x] ms IHm]; [destruct Hin|].
    inversion IH as [|? ? Hx Hl]; subst. rewrite ser_obj_cons in Hin. apply in_app_or in Hin. destruct Hin as [Hin|Hin].
    + simpl in Hx. destruct (Hx _ _ Hin) as [rest E]. exists (k :: rest). rewrite E. now rewrite <- app_assoc.
    + apply (IHm Hl Hin).
Qed.

Definition pincomp (x y : list string * string) : Prop := incomp (fst x) (fst y).

Lemma incomp_irrefl : forall p, ~ incomp p p.
Proof. induction p as [|k p IH]; simpl; [tauto|]. intros [H|[_ H]]; [congruence|auto]. Qed.

Lemma fop_app {A} (R : A -> A -> Prop) : forall l1 l2, ForallOrdPairs R l1 -> ForallOrdPairs R l2 ->
  (forall x y, In x l1 -> In y l2 -> R x y) -> ForallOrdPairs R (l1 ++ l2).
Proof.
  induction l1 as [|a l1 IH]; intros l2 H1 H2 Hc; [exact H2|].
  inversion H1 as [|? ? Ha Hl]; subst. simpl. constructor.
  - apply Forall_app. split; [exact Ha|]. apply Forall_forall. intros y Hy. apply Hc; [now left|exact Hy].
  - apply IH; auto. intros x y Hx Hy. apply Hc; [now right|exact Hy].
Qed.

Lemma ser_fop : forall v p, wfv v -> ForallOrdPairs pincomp (ser p v).
Proof.
  induction v as [t|l IH|ms IH] using dval_ind'; intros p Hw.
  - simpl. constructor; constructor.
  - rewrite wfv_arr in Hw. destruct Hw as [_ Hall]. rewrite ser_arr_eq.
    assert (G : forall l i, Forall (fun v => forall p, wfv v -> ForallOrdPairs pincomp (ser p v)) l -> wf_all l ->
                ForallOrdPairs pincomp (ser_arr p i l) /\
                (forall pt, In pt (ser_arr p i l) -> exists j rest, i <= j /\ fst pt = p ++ itoa j :: rest)).
    { clear. induction l as [|x l IHl]; intros i Hf Hw.
      - split; [constructor|intros pt []].
      - inversion Hf as [|? ? Hx Hf']; subst. destruct Hw as [Hwx Hwl]. rewrite ser_arr_cons.
        destruct (IHl (S i) Hf' Hwl) as [Hfop Hidx]. split.
        + apply fop_app; [now apply Hx|exact Hfop|].
          intros a b Ha Hb. destruct (ser_paths_extend x _ _ Ha) as [ra Ea]. destruct (Hidx _ Hb) as (j & rb & Hj & Eb).
          unfold pincomp. rewrite Ea, Eb, <- app_assoc. apply incomp_app. simpl. left. intros E. apply itoa_inj in E. lia.
        + intros pt Hin. apply in_app_or in Hin. destruct Hin as [Hin|Hin].
          * destruct (ser_paths_extend x _ _ Hin) as [ra Ea]. exists i, ra. split; [lia|]. now rewrite Ea, <- app_assoc.
          * destruct (Hidx _ Hin) as (j & rb & Hj & Eb). exists j, rb. split; [lia|exact Eb]. }
    exact (proj1 (G l 0 IH Hall)).
  - rewrite wfv_obj in Hw. destruct Hw as (_ & Hnd & Hall). rewrite ser_obj_eq.
    assert (G : forall ms, Forall (fun kx : string * dval => forall p, wfv (snd kx) -> ForallOrdPairs pincomp (ser p (snd kx))) ms ->
                wf_members ms -> NoDup (map fst ms) ->
                ForallOrdPairs pincomp (ser_obj p ms) /\
                (forall pt, In pt (ser_obj p ms) -> exists k rest, In k (map fst ms) /\ fst pt = p ++ k :: rest)).
    { clear. induction ms as [|[k x] ms IHm]; intros Hf Hw Hnd.
      - split; [constructor|intros pt []].
      - inversion Hf as [|? ? Hx Hf']; subst. destruct Hw as [Hwx Hwl]. simpl in Hnd. inversion Hnd as [|? ? Hnotin Hnd']; subst.
        rewrite ser_obj_cons. destruct (IHm Hf' Hwl Hnd') as [Hfop Hkeys]. split.
        + apply fop_app; [now apply (Hx (p ++ [k]))|exact Hfop|].
          intros a b Ha Hb. destruct (ser_paths_extend x _ _ Ha) as [ra Ea]. destruct (Hkeys _ Hb) as (k' & rb & Hk' & Eb).
          unfold pincomp. rewrite Ea, Eb, <- app_assoc. apply incomp_app. simpl. left. intros E. subst k'. contradiction.
        + intros pt Hin. apply in_app_or in Hin. destruct Hin as [Hin|Hin].
          * destruct (ser_paths_extend x _ _ Hin) as [ra Ea]. exists k, ra. split; [now left|]. now rewrite Ea, <- app_assoc.
          * destruct (Hkeys _ Hin) as (k' & rb & Hk' & Eb). exists k', rb. split; [now right|exact Eb]. }
    exact (proj1 (G ms IH Hall Hnd)).
Qed.

Lemma fop_pairwise l : ForallOrdPairs pincomp l -> pairwise_incomp l.
Proof.
  intros H. split.
  - induction H as [|a l Ha Hl IH]; constructor; [|exact IH].
    intros Hin. rewrite Forall_forall in Ha. apply (incomp_irrefl (fst a)). apply (Ha a Hin).
  - intros x y Hx Hy Hne. destruct (ForallOrdPairs_In H x y Hx Hy) as [E|[R|R]]; [contradiction|exact R|].
    apply incomp_sym. exact R.
Qed.

Lemma texts_ok_perm l l' : Permutation l l' -> texts_ok l = texts_ok l'.
Proof.
  induction 1 as [|[p t] l l' Hp IH|[p t] [q u] l|l1 l2 l3 H1 IH1 H2 IH2]; simpl; auto.
  - now rewrite IH.
  - destruct (negb (contains delim t)), (negb (contains delim u)); reflexivity.
  - congruence.
Qed.

Section ANYORDER.
  Variable parse_int64 parse_int32 : string -> option Z.
  Variable parse_float : string -> option float.
  Variable atoi : string -> option Z.
  Hypothesis atoi_itoa : forall n, atoi (itoa n) = Some (Z.of_nat n).

  (* makeObject + buildResObj invert the serialisation whatever the order in which the (path, text)
     pairs arrive (Go iterates a map) *)
  Theorem make_object_roundtrip_any_order : forall s ms p l',
    names_ok s = true -> no_ap s = true -> wfv (VObj ms) -> nek (VObj ms) -> texts_ok (ser [] (VObj ms)) = true ->
    reading parse_int64 parse_int32 parse_float s (VObj ms) = Some p ->
    Permutation (ser [] (VObj ms)) l' ->
    exists tree, mk_tree l' = Some tree /\
                 build parse_int64 parse_int32 parse_float atoi tree s [] "" = BOk p.
  Proof.
    intros s ms p l' Hn Hap Hw Hne Ht Hr Hp.
    exists (fold_set [] l'). split.
    - unfold mk_tree. apply mk_tree_fold. now rewrite <- (texts_ok_perm _ _ Hp).
    - assert (Hk : kperm (fold_set [] (ser [] (VObj ms))) (fold_set [] l')).
      { apply fold_set_perm; [exact Hp|apply fop_pairwise; now apply ser_fop|split; [constructor|exact I]]. }
      rewrite <- (build_kperm parse_int64 parse_int32 parse_float atoi s Hap _ _ [] "" Hk).
      + pose proof (fold_set_ser (VObj ms) Hw) as Hf. cbn [kids_of] in Hf. rewrite Hf, tree_of_obj. cbn [kids_of].
        apply (build_reading parse_int64 parse_int32 parse_float atoi atoi_itoa s Hn (VObj ms) p (obj_kids ms) [] "" Hw Hne); [reflexivity|exact Hr].
      + apply fold_set_nd. split; [constructor|exact I].
  Qed.
End ANYORDER.

From KV Require Import Model.Server Proofs.ServerProofs Proofs.DeepKeys.

Section DECODEANY.
  Variable parse_int64 parse_int32 : string -> option Z.
  Variable parse_float : string -> option float.
  Variable atoi : string -> option Z.
  Hypothesis atoi_itoa : forall n, atoi (itoa n) = Some (Z.of_nat n).

  (* the deepObject decoder inverts the deepObject serialisation, whatever the order of the query keys *)
  Theorem deep_decode_roundtrip_any_order : forall name s ms p q',
    no_byte "["%char name = true -> names_ok s = true -> no_ap s = true ->
    wfv (VObj ms) -> nek (VObj ms) -> keys_ok (VObj ms) -> texts_ok (ser [] (VObj ms)) = true ->
    reading parse_int64 parse_int32 parse_float s (VObj ms) = Some p ->
    Permutation (query_of name (ser [] (VObj ms))) q' ->
    exists found, deep_decode parse_int64 parse_int32 parse_float atoi name s q' = DRes p found None.
  Proof.
    intros name s ms p q' Hname Hn Hap Hw Hne Hk Ht Hr Hp.
    assert (Hpaths : Forall (fun pt : list string * string => fst pt <> [] /\ Forall (fun k => no_byte "]"%char k = true) (fst pt)) (ser [] (VObj ms))).
    { pose proof (ser_paths_deeper (VObj ms) name I) as H1. pose proof (ser_paths_ok (VObj ms) [] Hk (Forall_nil _)) as H2.
      rewrite Forall_forall in *. intros pt Hin. split.
      - destruct (H1 pt Hin) as [_ (k2 & rest & E)]. rewrite E. discriminate.
      - apply (H2 pt Hin). }
    assert (Hprops : Permutation (ser [] (VObj ms)) (deep_props name q')).
    { rewrite <- (deep_props_query_of name _ Hname Hpaths) at 1. unfold deep_props. now apply Permutation_flat_map. }
    destruct (make_object_roundtrip_any_order parse_int64 parse_int32 parse_float atoi atoi_itoa s ms p _ Hn Hap Hw Hne Ht Hr Hprops) as (tree & Hm & Hb).
    unfold deep_decode.
    destruct (deep_props name q') as [|pt rest] eqn:Ep.
    { exfalso. apply Permutation_sym, Permutation_nil in Hprops. apply (ser_nonempty (VObj ms) [] Hw Hprops). }
    rewrite Hm, Hb.
    assert (Hpo : exists m, p = PO m).
    { destruct s as [c|it|decl [a|]]; cbn [no_ap] in Hap; rewrite ?andb_false_r in Hap; try discriminate Hap; cbn [reading] in Hr; try discriminate.
      destruct (obj_loop _ decl []) as [m|]; cbn in Hr; [|discriminate]. inversion Hr. eauto. }
    destruct Hpo as [m ->]. eexists. reflexivity.
  Qed.
End DECODEANY.
