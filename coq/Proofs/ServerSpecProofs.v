From KV Require Import Model.Base Model.Lookup Model.ParamCodec Model.Router Model.Server Spec.ServerSpec Proofs.C09Proofs Proofs.ServerProofs.
Local Open Scope list_scope.

Lemma until_brace_spec : forall r name rest, until_brace r = Some (name, rest) ->
  r = (name ++ String "}"%char rest)%string /\ index_byte "}"%char name = None.
Proof.
  induction r as [|c r IH]; simpl; intros name rest H; [discriminate|].
  destruct (Ascii.eqb c "}"%char) eqn:E.
  - inversion H; subst. apply Ascii.eqb_eq in E. subst. split; reflexivity.
  - destruct (until_brace r) as [[a b]|] eqn:Eu; [|discriminate]. inversion H; subst.
    destruct (IH a rest eq_refl) as [-> Hn]. split; [reflexivity|]. simpl. rewrite E, Hn. reflexivity.
Qed.
Lemma until_brace_complete : forall name rest, index_byte "}"%char name = None ->
  until_brace (name ++ String "}"%char rest) = Some (name, rest).
Proof.
  induction name as [|c name IH]; simpl; intros rest H; [reflexivity|].
  destruct (Ascii.eqb c "}"%char); [discriminate|].
  destruct (index_byte "}"%char name) eqn:E; [discriminate|]. now rewrite IH.
Qed.

Fixpoint tok_names (ts : list ptok) : list string :=
  match ts with [] => [] | PLit _ :: r => tok_names r | PVar n :: r => n :: tok_names r end.

Lemma ptoks_nil_inv f r : ptoks (S f) r = Some [] -> r = ""%string.
Proof.
  destruct r as [|c r]; [reflexivity|]. simpl. destruct (Ascii.eqb c "{"%char).
  - destruct (until_brace r) as [[a b]|]; [|discriminate]. destruct (ptoks f b); discriminate.
  - destruct (ptoks f r); discriminate.
Qed.

Lemma strip_cons_var n ts : strip_final_slash (PVar n :: ts) = PVar n :: strip_final_slash ts.
Proof. destruct ts; reflexivity. Qed.
Lemma strip_cons_lit c ts : (ts = [] /\ Ascii.eqb c "/"%char = true) \/
  strip_final_slash (PLit c :: ts) = PLit c :: strip_final_slash ts.
Proof.
  destruct ts as [|t ts].
  - simpl. destruct (Ascii.eqb c "/"%char); [left; auto|right; reflexivity].
  - right. reflexivity.
Qed.

(* the token reading of a pattern describes the same URLs as the relation [fills] *)
Theorem ptoks_fills : forall fuel pat ts, String.length pat < fuel -> ptoks fuel pat = Some ts ->
  forall vals c, fill_toks (strip_final_slash ts) vals = Some c -> fills pat (tok_names ts) vals c.
Proof.
  induction fuel as [|f IH]; intros pat ts Hlen H vals c Hf; [lia|].
  destruct pat as [|ch r].
  - simpl in H. inversion H; subst. simpl in Hf. destruct vals; [|discriminate]. inversion Hf; subst. constructor.
  - cbn [ptoks] in H. destruct (Ascii.eqb ch "{"%char) eqn:Eb.
    + apply Ascii.eqb_eq in Eb; subst ch.
      destruct (until_brace r) as [[name rest]|] eqn:Eu; [|discriminate].
      destruct (ptoks f rest) as [ts'|] eqn:Et; [|discriminate]. inversion H; subst ts. clear H.
      destruct (until_brace_spec _ _ _ Eu) as [-> Hn].
      rewrite strip_cons_var in Hf. cbn [fill_toks] in Hf. destruct vals as [|v vs]; [discriminate|].
      destruct (fill_toks (strip_final_slash ts') vs) as [c'|] eqn:Ec; [|discriminate]. inversion Hf; subst c.
      cbn [tok_names]. apply F_var; [assumption|].
      apply (IH rest ts'); auto. simpl in Hlen. rewrite length_app_str in Hlen. simpl in Hlen. lia.
    + destruct (ptoks f r) as [ts'|] eqn:Et; [|discriminate]. inversion H; subst ts. clear H.
      destruct (strip_cons_lit ch ts') as [[-> Es]|Es].
      * (* the pattern ends with this "/" *)
        apply Ascii.eqb_eq in Es; subst ch.
        destruct f; [simpl in Hlen; lia|]. apply ptoks_nil_inv in Et. subst r.
        simpl in Hf. destruct vals; [|discriminate]. inversion Hf; subst. constructor.
      * rewrite Es in Hf. cbn [fill_toks] in Hf.
        destruct (fill_toks (strip_final_slash ts') vals) as [c'|] eqn:Ec; [|discriminate]. inversion Hf; subst c.
        cbn [tok_names]. apply F_lit; [assumption| |].
        -- destruct (Ascii.eqb ch "/"%char) eqn:E1; [|reflexivity]. destruct (String.eqb_spec r "") as [->|]; [|reflexivity].
           exfalso. destruct f; [simpl in Hlen; lia|]. simpl in Et. inversion Et; subst ts'. simpl in Es. rewrite E1 in Es. discriminate.
        -- apply (IH r ts'); auto. simpl in Hlen. lia.
Qed.

Theorem fills_ptoks : forall pat names vals c, fills pat names vals c ->
  forall fuel, String.length pat < fuel ->
  exists ts, ptoks fuel pat = Some ts /\ tok_names ts = names /\ fill_toks (strip_final_slash ts) vals = Some c.
Proof.
  induction 1 as [| |ch pat names vals s Hb Hs Hf IH|name pat names v vals s Hn Hf IH]; intros fuel Hlen.
  - destruct fuel; [simpl in Hlen; lia|]. exists []. auto.
  - destruct fuel; [simpl in Hlen; lia|]. destruct fuel; [simpl in Hlen; lia|]. exists [PLit "/"%char]. auto.
  - destruct fuel; [simpl in Hlen; lia|]. destruct (IH fuel) as (ts & Ht & Hnm & Hfl); [simpl in Hlen; lia|].
    exists (PLit ch :: ts). cbn [ptoks]. rewrite Hb, Ht. split; [reflexivity|]. split; [exact Hnm|].
    destruct (strip_cons_lit ch ts) as [[-> Es]|Es].
    + exfalso. rewrite Es in Hs. cbn [andb] in Hs. destruct fuel; [simpl in Hlen; destruct pat; simpl in *; [discriminate|lia]|].
      apply ptoks_nil_inv in Ht. subst pat. discriminate.
    + rewrite Es. cbn [fill_toks]. now rewrite Hfl.
  - destruct fuel; [simpl in Hlen; lia|].
    destruct (IH fuel) as (ts & Ht & Hnm & Hfl). { simpl in Hlen. rewrite length_app_str in Hlen. simpl in Hlen. lia. }
    exists (PVar name :: ts). cbn [ptoks]. replace (Ascii.eqb "{"%char "{"%char) with true by reflexivity.
    rewrite until_brace_complete by assumption. rewrite Ht. split; [reflexivity|]. split; [simpl; now rewrite Hnm|].
    rewrite strip_cons_var. cbn [fill_toks]. now rewrite Hfl.
Qed.

(* the judge's check of a reported match means what C09_server_match_sound says *)
Theorem reproduces_spec : forall pat url vals rest, reproduces pat url vals rest = true ->
  exists names consumed rest0, fills pat names vals consumed /\ url = (consumed ++ rest0)%string /\
                               rest = slashify rest0 /\ String.prefix "/" rest = true.
Proof.
  intros pat url vals rest H. unfold reproduces in H. apply andb_true_iff in H. destruct H as [Hp H].
  unfold pattern_toks in H. destruct (ptoks (S (String.length pat)) pat) as [ts|] eqn:Et; [|discriminate].
  destruct (fill_toks (strip_final_slash ts) vals) as [c|] eqn:Ef; [|discriminate].
  pose proof (ptoks_fills _ pat ts (Nat.lt_succ_diag_r _) Et vals c Ef) as Hfills.
  apply orb_true_iff in H. destruct H as [H|H].
  - apply String.eqb_eq in H. exists (tok_names ts), c, rest. repeat split; auto.
    unfold slashify. destruct (String.eqb_spec rest ""); [subst; discriminate|reflexivity].
  - apply andb_true_iff in H. destruct H as [H1 H2]. apply String.eqb_eq in H1, H2. subst.
    exists (tok_names ts), url, ""%string. rewrite app_str_nil_r. repeat split; auto.
Qed.

(* ---- under_server: the URLs a server stands for ---- *)
Definition good_val (v : string) : Prop := v <> ""%string /\ no_byte "/"%char v = true.

Lemma cuts_spec : forall u r, In r (cuts u) <-> exists v, good_val v /\ u = (v ++ r)%string.
Proof.
  induction u as [|c u IH]; intros r; simpl.
  - split; [intros []|]. intros (v & [Hne _] & E). destruct v; [congruence|discriminate].
  - destruct (Ascii.eqb c "/"%char) eqn:Ec.
    + split; [intros []|]. intros (v & [Hne Hs] & E). destruct v as [|d v]; [congruence|].
      inversion E; subst. simpl in Hs. rewrite Ec in Hs. discriminate.
    + split.
      * intros [<-|Hin].
        -- exists (String c ""). split; [split; [discriminate|simpl; now rewrite Ec]|reflexivity].
        -- apply IH in Hin. destruct Hin as (v & [Hne Hs] & ->).
           exists (String c v). split; [split; [discriminate|simpl; now rewrite Ec, Hs]|reflexivity].
      * intros (v & [Hne Hs] & E). destruct v as [|d v]; [congruence|]. inversion E; subst.
        destruct v as [|e v]; [left; reflexivity|]. right. apply IH.
        exists (String e v). split; [split; [discriminate|]|reflexivity]. simpl in Hs. apply andb_true_iff in Hs. tauto.
Qed.

Theorem covers_spec : forall ts u, covers ts u = true <->
  exists vals c rest0, fill_toks ts vals = Some c /\ u = (c ++ rest0)%string /\ boundary rest0 = true /\ Forall good_val vals.
Proof.
  induction ts as [|[ch|n] ts IH]; intros u; cbn [covers fill_toks].
  - split.
    + intros H. exists [], ""%string, u. auto.
    + intros (vals & c & rest0 & Hf & -> & Hb & _). destruct vals; [|discriminate]. inversion Hf; subst. exact Hb.
  - destruct u as [|d u].
    + split; [discriminate|]. intros (vals & c & rest0 & Hf & E & _).
      destruct (fill_toks ts vals); [|discriminate]. inversion Hf; subst. discriminate.
    + rewrite andb_true_iff, IH. split.
      * intros [Hc (vals & c & rest0 & Hf & -> & Hb & Hg)]. apply Ascii.eqb_eq in Hc; subst d.
        exists vals, (String ch c), rest0. rewrite Hf. auto.
      * intros (vals & c & rest0 & Hf & E & Hb & Hg).
        destruct (fill_toks ts vals) as [c'|] eqn:Ef; [|discriminate]. inversion Hf; subst c. inversion E; subst.
        split; [apply Ascii.eqb_refl|]. exists vals, c', rest0. auto.
  - rewrite existsb_exists. split.
    + intros (r & Hin & Hc). apply cuts_spec in Hin. destruct Hin as (v & Hv & ->).
      apply IH in Hc. destruct Hc as (vals & c & rest0 & Hf & -> & Hb & Hg).
      exists (v :: vals), (v ++ c)%string, rest0. rewrite Hf. rewrite app_str_assoc. auto.
    + intros (vals & c & rest0 & Hf & -> & Hb & Hg). destruct vals as [|v vs]; [discriminate|].
      destruct (fill_toks ts vs) as [c'|] eqn:Ef; [|discriminate]. inversion Hf; subst c.
      inversion Hg; subst. exists (c' ++ rest0)%string. split.
      * apply cuts_spec. exists v. split; [assumption|]. now rewrite app_str_assoc.
      * apply IH. exists vs, c', rest0. auto.
Qed.

(* the specification the judge evaluates says: the URL is the server's pattern filled with non-empty
   slash-free values, followed by nothing or by a path *)
Theorem under_server_spec : forall pat url, under_server pat url = true <->
  exists names vals consumed rest0, fills pat names vals consumed /\ url = (consumed ++ rest0)%string /\
                                    boundary rest0 = true /\ Forall good_val vals.
Proof.
  intros pat url. unfold under_server, pattern_toks. split.
  - destruct (ptoks (S (String.length pat)) pat) as [ts|] eqn:Et; [|discriminate].
    intros H. apply covers_spec in H. destruct H as (vals & c & rest0 & Hf & -> & Hb & Hg).
    exists (tok_names ts), vals, c, rest0. repeat split; auto.
    apply (ptoks_fills _ pat ts (Nat.lt_succ_diag_r _) Et vals c Hf).
  - intros (names & vals & consumed & rest0 & Hf & -> & Hb & Hg).
    destruct (fills_ptoks _ _ _ _ Hf (S (String.length pat)) (Nat.lt_succ_diag_r _)) as (ts & Ht & _ & Hfl).
    rewrite Ht. apply covers_spec. exists vals, consumed, rest0. auto.
Qed.
