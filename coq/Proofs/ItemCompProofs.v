(* Array elements read through a composition: what each keyword contributes, for member lists of
   any length and nesting. *)
From Coq Require Import List String ZArith Bool Arith Lia.
From KV Require Import Model.Base Model.Json Model.Schema Model.ParamCodec Model.ItemComp.
Import ListNotations.
Local Open Scope list_scope.

Definition all_fold (f : schema -> pres) : list schema -> pval -> pres :=
  fix all (l : list schema) (acc : pval) {struct l} : pres :=
    match l with
    | [] => PROk acc
    | m :: r => match f m with
                | PRErr e => PRErr e
                | PROk PNil => all r acc
                | PROk v => all r v
                end
    end.
Definition any_fold (f : schema -> pres) : list schema -> pres -> pres :=
  fix any (l : list schema) (last : pres) {struct l} : pres :=
    match l with
    | [] => last
    | m :: r => match f m with
                | PROk v => PROk v
                | PRErr e => any r (PRErr e)
                end
    end.
Definition one_fold (f : schema -> pres) : list schema -> nat -> pval -> pres :=
  fix one (l : list schema) (n : nat) (v : pval) {struct l} : pres :=
    match l with
    | [] => if Nat.eqb n 1 then PROk v else PRErr DOther
    | m :: r => match f m with
                | PROk w => one r (S n) w
                | PRErr _ => one r n v
                end
    end.

Section PROOFS.
  Variable pi64 pi32 : string -> option Z.
  Variable pf : string -> option float.
  Notation pv := (parse_value pi64 pi32 pf).
  Notation prim := (parse_primitive pi64 pi32 pf).

  Lemma pv_plain raw c i p a : pv raw (Sch c None [] [] [] i p a) = prim raw c.
  Proof. reflexivity. Qed.

  Lemma pv_allOf raw c nt oo ao al i p a :
    al <> [] -> pv raw (Sch c nt oo ao al i p a) = all_fold (pv raw) al PNil.
  Proof. destruct al as [|m r]; intros H; [contradiction H; reflexivity | reflexivity]. Qed.

  Lemma pv_anyOf raw c nt oo ao i p a :
    ao <> [] -> pv raw (Sch c nt oo ao [] i p a) = any_fold (pv raw) ao (PROk PNil).
  Proof. destruct ao as [|m r]; intros H; [contradiction H; reflexivity | reflexivity]. Qed.

  Lemma pv_oneOf raw c nt oo i p a :
    oo <> [] -> pv raw (Sch c nt oo [] [] i p a) = one_fold (pv raw) oo 0 PNil.
  Proof. destruct oo as [|m r]; intros H; [contradiction H; reflexivity | reflexivity]. Qed.

  (* ---- allOf ---- *)
  Lemma all_fold_skip f l1 m l2 : f m = PROk PNil -> forall acc, all_fold f (l1 ++ m :: l2) acc = all_fold f (l1 ++ l2) acc.
  Proof.
    intros Hm. induction l1 as [|x r IH]; intros acc; cbn [app all_fold].
    - rewrite Hm. reflexivity.
    - destruct (f x) as [v|e]; [|reflexivity]. destruct v; apply IH.
  Qed.

  Lemma typeless_reads_nil raw c i p a : c_types c = None -> pv raw (Sch c None [] [] [] i p a) = PROk PNil.
  Proof.
    intros H. rewrite pv_plain. unfold parse_primitive. destruct (String.eqb raw ""); [reflexivity|].
    rewrite H. reflexivity.
  Qed.

  Theorem allOf_typeless_member_transparent raw c nt oo ao l1 l2 i p a tc ti tp ta :
    c_types tc = None -> l1 ++ l2 <> [] ->
    pv raw (Sch c nt oo ao (l1 ++ Sch tc None [] [] [] ti tp ta :: l2) i p a) = pv raw (Sch c nt oo ao (l1 ++ l2) i p a).
  Proof.
    intros Ht Hne. rewrite pv_allOf by (destruct l1; discriminate). rewrite (pv_allOf _ _ _ _ _ (l1 ++ l2)) by exact Hne.
    apply all_fold_skip. apply typeless_reads_nil. exact Ht.
  Qed.

  Lemma all_fold_agree f v : v <> PNil -> forall l,
    (forall m, In m l -> f m = PROk v \/ f m = PROk PNil) ->
    forall acc, (acc = v \/ (acc = PNil /\ exists m, In m l /\ f m = PROk v)) -> all_fold f l acc = PROk v.
  Proof.
    intros Hv. induction l as [|x r IH]; intros Hall acc Hacc; cbn [all_fold].
    - destruct Hacc as [Ha|[_ [m [Hm _]]]]; [subst; reflexivity | destruct Hm].
    - destruct (Hall x (or_introl eq_refl)) as [Hx|Hx]; rewrite Hx.
      + assert (Hgo : all_fold f r v = PROk v).
        { apply IH; [intros m Hm; apply Hall; right; exact Hm | left; reflexivity]. }
        destruct v; [contradiction Hv; reflexivity | exact Hgo ..].
      + apply IH; [intros m Hm; apply Hall; right; exact Hm|].
        destruct Hacc as [Ha|[Ha [m [Hm Hfm]]]]; [left; exact Ha|].
        right. split; [exact Ha|]. exists m. split; [|exact Hfm].
        destruct Hm as [Hm|Hm]; [|exact Hm]. subst m. rewrite Hx in Hfm. injection Hfm as Hfm. contradiction Hv. symmetry. exact Hfm.
  Qed.

  Theorem allOf_reads_value raw c nt oo ao al i p a v :
    v <> PNil -> (forall m, In m al -> pv raw m = PROk v \/ pv raw m = PROk PNil) -> (exists m, In m al /\ pv raw m = PROk v) ->
    pv raw (Sch c nt oo ao al i p a) = PROk v.
  Proof.
    intros Hv Hall [m [Hm Hfm]]. rewrite pv_allOf by (destruct al; [destruct Hm | discriminate]).
    apply all_fold_agree; [exact Hv | exact Hall | right; split; [reflexivity | exists m; split; assumption]].
  Qed.

  (* ---- anyOf: the first member that reads the text ---- *)
  Lemma any_fold_first f l1 m l2 v :
    (forall x, In x l1 -> exists e, f x = PRErr e) -> f m = PROk v -> forall last, any_fold f (l1 ++ m :: l2) last = PROk v.
  Proof.
    intros H1 Hm. induction l1 as [|x r IH]; intros last; cbn [app any_fold].
    - rewrite Hm. reflexivity.
    - destruct (H1 x (or_introl eq_refl)) as [e He]. rewrite He. apply IH. intros y Hy. apply H1. right. exact Hy.
  Qed.

  Theorem anyOf_first_reader raw c nt oo l1 m l2 i p a v :
    (forall x, In x l1 -> exists e, pv raw x = PRErr e) -> pv raw m = PROk v ->
    pv raw (Sch c nt oo (l1 ++ m :: l2) [] i p a) = PROk v.
  Proof. intros H1 Hm. rewrite pv_anyOf by (destruct l1; discriminate). apply any_fold_first; assumption. Qed.

  (* ---- oneOf: exactly one member reads the text ---- *)
  Lemma one_fold_none f l : (forall x, In x l -> exists e, f x = PRErr e) ->
    forall n v, one_fold f l n v = if Nat.eqb n 1 then PROk v else PRErr DOther.
  Proof.
    induction l as [|x r IH]; intros H n v; cbn [one_fold]; [reflexivity|].
    destruct (H x (or_introl eq_refl)) as [e He]. rewrite He. apply IH. intros y Hy. apply H. right. exact Hy.
  Qed.

  Lemma one_fold_single f l1 m l2 v :
    (forall x, In x l1 -> exists e, f x = PRErr e) -> (forall x, In x l2 -> exists e, f x = PRErr e) -> f m = PROk v ->
    forall w, one_fold f (l1 ++ m :: l2) 0 w = PROk v.
  Proof.
    intros H1 H2 Hm. induction l1 as [|x r IH]; intros w; cbn [app one_fold].
    - rewrite Hm. rewrite one_fold_none by exact H2. reflexivity.
    - destruct (H1 x (or_introl eq_refl)) as [e He]. rewrite He. apply IH. intros y Hy. apply H1. right. exact Hy.
  Qed.

  Lemma one_fold_two f l n v : 2 <= n -> exists e, one_fold f l n v = PRErr e.
  Proof.
    revert n v. induction l as [|x r IH]; intros n v Hn; cbn [one_fold].
    - destruct (Nat.eqb n 1) eqn:E; [apply Nat.eqb_eq in E; lia | exists DOther; reflexivity].
    - destruct (f x); [apply IH; lia | apply IH; exact Hn].
  Qed.

  Theorem oneOf_single_reader raw c nt l1 m l2 i p a v :
    (forall x, In x l1 -> exists e, pv raw x = PRErr e) -> (forall x, In x l2 -> exists e, pv raw x = PRErr e) -> pv raw m = PROk v ->
    pv raw (Sch c nt (l1 ++ m :: l2) [] [] i p a) = PROk v.
  Proof. intros H1 H2 Hm. rewrite pv_oneOf by (destruct l1; discriminate). apply one_fold_single; assumption. Qed.

  (* two members that both read the text: refused (integer and boolean both read "1") *)
  Theorem oneOf_two_readers_refused raw c nt m1 m2 l i p a v1 v2 :
    pv raw m1 = PROk v1 -> pv raw m2 = PROk v2 -> exists e, pv raw (Sch c nt (m1 :: m2 :: l) [] [] i p a) = PRErr e.
  Proof.
    intros H1 H2. rewrite pv_oneOf by discriminate. cbn [one_fold]. rewrite H1, H2. apply one_fold_two. lia.
  Qed.

  (* ---- the array: every element read by the items schema ---- *)
  Theorem array_of_read_elements item raws vs :
    Forall2 (fun x v => pv x item = PROk v /\ v <> PNil) raws vs ->
    forall acc, parse_array_v pi64 pi32 pf raws item acc = PROk (PA (acc ++ vs)).
  Proof.
    induction 1 as [|x v raws vs [Hx Hv] _ IH]; intros acc; cbn [parse_array_v].
    - rewrite app_nil_r. reflexivity.
    - rewrite Hx. specialize (IH (acc ++ [v])). rewrite <- app_assoc in IH. cbn [app] in IH.
      destruct v; [contradiction Hv; reflexivity | exact IH ..].
  Qed.
End PROOFS.
