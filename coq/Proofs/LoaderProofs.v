(* C11: with external references disallowed the loader reads nothing beyond the location of the
   document it was handed.  Invariant over the whole interpreter: every URI appended to the read log
   by [resolve] is the current document path - and with the switch off the document path never
   changes.  C20 (partial): without a backtrack callback of another kind, no step panics. *)
From KV Require Import Model.Base Model.Loader.
Local Open Scope list_scope.

Section CLOSED.
  Variable files : string -> option file.
  Variable rpath : option string -> string -> string.

  Notation do_read := (do_read files).
  Notation resolve := (resolve false files rpath).

  (* reads of a result, through a projection to the state *)
  Definition rreads {A} (proj : A -> lstate) (r : res A) : list string :=
    match r with ROk a => reads (proj a) | RErr rd => rd | _ => [] end.

  (* every logged read is an old one or the document path [dp] *)
  Definition within (dp : option string) (s0 : lstate) (l : list string) : Prop :=
    forall x, In x l -> In x (reads s0) \/ dp = Some x.

  Lemma within_refl dp s : within dp s (reads s).
  Proof. intros x H. now left. Qed.
  Lemma within_same dp s s' : reads s' = reads s -> within dp s (reads s').
  Proof. intros E x H. left. now rewrite <- E. Qed.
  Lemma within_trans dp s0 s1 l : within dp s0 (reads s1) -> within dp s1 l -> within dp s0 l.
  Proof. intros H01 H1 x Hx. destruct (H1 x Hx) as [H|H]; [now apply H01|now right]. Qed.

  Lemma bind_within {A B} (pa : A -> lstate) (pb : B -> lstate) dp s0 (r : res A) (f : A -> res B) :
    within dp s0 (rreads pa r) ->
    (forall a, r = ROk a -> within dp (pa a) (rreads pb (f a))) ->
    within dp s0 (rreads pb (bind r f)).
  Proof.
    intros Hr Hf. destruct r as [a|rd| |]; cbn [bind rreads] in *; try (intros x []).
    - eapply within_trans; [exact Hr|]. now apply Hf.
    - exact Hr.
  Qed.

  Lemma do_read_within u s : within (Some u) s (rreads fst (do_read u s)).
  Proof.
    unfold Loader.do_read. destruct (files u); cbn [rreads fst reads]; intros x Hx;
      apply in_app_or in Hx as [H|[<-|[]]]; auto.
  Qed.

  Lemma set_val_reads c v s : reads (set_val c v s) = reads s.
  Proof. destruct c; reflexivity. Qed.
  Lemma fresh_reads u s : reads (snd (fresh u s)) = reads s.
  Proof. reflexivity. Qed.
  Lemma run_back_reads ref v : forall l s, rreads (fun x => x) (run_back ref v l s) = reads s \/ run_back ref v l s = RPanic.
  Proof.
    induction l as [|[[r c] k] l IH]; intros s; cbn [run_back]; [now left|].
    destruct (String.eqb r ref); [|apply IH].
    destruct (kind_eqb k (tv_kind v)); [|now right].
    destruct (IH (set_val c v s)) as [H|H]; [left; now rewrite H, set_val_reads|now right].
  Qed.
  Lemma unvisit_within dp ref v s : within dp s (rreads (fun x => x) (unvisit ref v s)).
  Proof.
    unfold unvisit. destruct v as [v|]; cbn [bind].
    - destruct (run_back_reads ref v (back s) s) as [H|H].
      + destruct (run_back ref v (back s) s) as [s1|rd| |]; cbn [bind rreads reads] in *; try (intros x []).
        * rewrite H. apply within_refl.
        * rewrite H. apply within_refl.
      + rewrite H. cbn. intros x [].
    - cbn. apply within_refl.
  Qed.

  (* the invariant of the recursive routine *)
  Definition rec_ok (rec : resolver) : Prop :=
    forall k dest nd inst path doc docfile dp s, within dp s (rreads fst (rec k dest nd inst path doc docfile dp s)).

  Section STEP.
    Variable rec : resolver.
    Hypothesis Hrec : rec_ok rec.

    Lemma walk_class_within cls vinst vpath doc docfile dp : forall l s,
      within dp s (rreads (fun x => x) (walk_class rec cls l vinst vpath doc docfile dp s)).
    Proof.
      induction l as [|[[[c key] k'] child] l IH]; intros s; cbn [walk_class]; [apply within_refl|].
      destruct (String.eqb c cls); [|apply IH].
      apply (bind_within fst (fun x => x)); [apply Hrec|]. intros a _. apply IH.
    Qed.
    Lemma walk_within kids vinst vpath doc docfile dp : forall classes s,
      within dp s (rreads (fun x => x) (walk rec classes kids vinst vpath doc docfile dp s)).
    Proof.
      induction classes as [|cls rest IH]; intros s; cbn [walk]; [apply within_refl|].
      apply (bind_within (fun x => x) (fun x => x)); [apply walk_class_within|]. intros a _. apply IH.
    Qed.
    Lemma walk_value_within k v doc docfile dp s :
      within dp s (rreads (fun x => x) (walk_value rec k v doc docfile dp s)).
    Proof.
      unfold walk_value. destruct v as [v|]; [|apply within_refl].
      destruct (tv_node v); [apply within_refl|apply walk_within].
    Qed.
    Lemma resolve_cells_within i f dp : forall l s,
      within dp s (rreads (fun x => x) (resolve_cells rec i f dp l s)).
    Proof.
      induction l as [|[[[p k] trav] n] l IH]; intros s; cbn [resolve_cells]; [apply within_refl|].
      destruct trav; [|apply IH].
      apply (bind_within fst (fun x => x)); [apply Hrec|]. intros a _. apply IH.
    Qed.

    Lemma drill_within segs cdoc cfile cpath dp s :
      within dp s (rreads fst (drill files segs cdoc cfile cpath dp s)).
    Proof.
      unfold drill.
      destruct (match cfile with
                | Some f => match find_cell segs (f_cells f) with
                            | Some (kc, n) => Some (FTyped cdoc segs kc n)
                            | None => match find_ext segs (f_exts f) with
                                      | Some n => Some (FRaw n match cpath with Some u => u | None => ""%string end)
                                      | None => None end end
                | None => None end) as [fd|]; [apply within_refl|].
      destruct dp as [u|]; [|apply within_refl].
      apply (bind_within fst fst); [apply do_read_within|].
      intros [s2 f] _. cbn [fst].
      destruct (find_cell segs (f_cells f)) as [[kc n]|]; [apply within_refl|].
      destruct (find_ext segs (f_exts f)); apply within_refl.
    Qed.

    (* with the switch off, one step of the routine keeps the invariant *)
    Lemma resolve_body_within : rec_ok (resolve_body false files rpath rec).
    Proof.
      intros k dest nd inst path doc docfile dp s. unfold resolve_body.
      destruct nd as [ref|id kids].
      2:{ apply (bind_within (fun x => x) fst); [apply walk_value_within|]. intros a _. apply within_refl. }
      destruct (match dest with Some c => val_of c (vals s) | None => None end) as [v|]; [apply within_refl|].
      destruct (str_in ref (inprog s)); [apply within_refl|].
      set (s0 := mkLS (vals s) (ref :: inprog s) (back s) (docs s) (next s) (reads s) (origin s)).
      assert (H0 : within dp s (reads s0)) by (apply within_same; reflexivity).
      destruct (negb (has_hash ref)); cbn [negb]; [exact H0|].
      eapply within_trans; [exact H0|].
      apply (bind_within (fun r : lstate * N * option file * option string => fst (fst (fst r))) fst).
      { destruct (String.eqb (before_hash ref) ""); apply within_refl. }
      intros [[[s1 cdoc] cfile] cpath] Hr. cbn [fst].
      assert (Hcp : cpath = dp).
      { destruct (String.eqb (before_hash ref) ""); [now inversion Hr|discriminate Hr]. }
      subst cpath.
      destruct (frag_segments (after_hash ref)) as [segs|]; [|apply within_refl].
      apply (bind_within fst fst); [apply drill_within|].
      intros [s2 fd] _. cbn [fst].
      apply (bind_within fst fst).
      { destruct fd as [ci p kc n|n from].
        - destruct (negb (kind_eqb kc k)); [apply within_refl|].
          destruct n; [|apply Hrec].
          destruct (val_of (ci, p) (vals s2)); [apply within_refl|apply Hrec].
        - cbn. eapply within_trans; [|apply Hrec]. apply within_same. reflexivity. }
      intros [s3 v] _. cbn [fst].
      set (v' := option_map (fun v0 => mkTV (tv_inst v0) (tv_path v0) (tv_node v0) k) v).
      set (s4 := match v' with Some v0 => set_val dest v0 s3 | None => s3 end).
      assert (H4 : reads s4 = reads s3) by (unfold s4; destruct v'; [apply set_val_reads|reflexivity]).
      assert (within dp s3 (reads s4)) by (rewrite H4; apply within_refl).
      eapply within_trans; [eassumption|].
      apply (bind_within (fun x => x) fst); [apply walk_value_within|]. intros s5 _.
      apply (bind_within (fun x => x) fst); [apply unvisit_within|]. intros s6 _. apply within_refl.
    Qed.
  End STEP.

  Theorem resolve_within : forall fuel, rec_ok (resolve fuel).
  Proof.
    induction fuel as [|fuel IH]; [intros k dest nd inst path doc docfile dp s x []|].
    cbn [Loader.resolve]. now apply resolve_body_within.
  Qed.

  (* the three entry points *)
  Theorem load_closed fuel entry root rootfile :
    forall x, In x (rreads (fun s => s) (load false files rpath fuel entry root rootfile)) ->
              x = root /\ entry <> 1%N.
  Proof.
    intros x Hx. unfold load in Hx.
    destruct (N.eqb_spec entry 0) as [->|H0].
    - assert (W : within (Some root) (empty_state root)
                    (rreads (fun s => s) (bind (do_read root (empty_state root)) (fun sf => let '(s1, f) := sf in
                        resolve_cells (resolve fuel) 0 f (Some root) (f_cells f)
                          (mkLS (vals s1) (inprog s1) (back s1) [(root, 0%N)] (next s1) (reads s1) (origin s1)))))).
      { apply (bind_within fst (fun s => s)); [apply do_read_within|]. intros [s1 f] _. cbn [fst].
        eapply within_trans; [|apply resolve_cells_within, resolve_within]. apply within_same. reflexivity. }
      destruct (W x Hx) as [[]|E]; inversion E. split; [reflexivity|discriminate].
    - destruct (N.eqb_spec entry 1) as [->|H1].
      + destruct (resolve_cells_within (resolve fuel) (resolve_within fuel) 0 rootfile None (f_cells rootfile) (empty_state "") x Hx) as [[]|E].
        discriminate E.
      + destruct (resolve_cells_within (resolve fuel) (resolve_within fuel) 0 rootfile (Some root) (f_cells rootfile)
                    (mkLS [] [] [] [(root, 0%N)] 1 [] [(0%N, root)]) x Hx) as [[]|E].
        inversion E. split; [reflexivity|assumption].
  Qed.
End CLOSED.
