From KV Require Import Model.Base Model.Json Model.Codec.
Local Open Scope list_scope.

Lemma str_in_In k l : str_in k l = true <-> In k l.
Proof.
  induction l as [|x l IH]; cbn; [split; [discriminate|tauto]|].
  destruct (String.eqb_spec k x) as [->|Hn]; cbn; [tauto|]. rewrite IH. intuition congruence.
Qed.
Lemma subset_in a b k : subset a b = true -> str_in k a = true -> str_in k b = true.
Proof. unfold subset. rewrite forallb_forall. intros H Hk. apply H. now apply str_in_In. Qed.
Lemma norm_in k l : special k = false -> str_in k (norm l) = str_in k l.
Proof.
  intros Hs. induction l as [|x l IH]; [reflexivity|]. cbn.
  destruct (String.eqb_spec k x) as [->|Hn]; cbn.
  - rewrite Hs. cbn. now rewrite String.eqb_refl.
  - destruct (special x); cbn; [exact IH|]. destruct (String.eqb_spec k x); [contradiction|exact IH].
Qed.

Lemma assoc_app_l {A} k (a b : list (string * A)) v : assoc k a = Some v -> assoc k (a ++ b) = Some v.
Proof. induction a as [|[k' v'] a IH]; cbn; [discriminate|]. destruct (String.eqb k k'); auto. Qed.
Lemma assoc_app_r {A} k (a b : list (string * A)) : assoc k a = None -> assoc k (a ++ b) = assoc k b.
Proof. induction a as [|[k' v'] a IH]; cbn; [reflexivity|]. destruct (String.eqb k k'); [discriminate|auto]. Qed.
Lemma assoc_filter_in {A} k (p : string * A -> bool) (l : list (string * A)) :
  (forall v, p (k, v) = true) -> assoc k (filter p l) = assoc k l.
Proof.
  intros Hp. induction l as [|[k' v'] l IH]; [reflexivity|]. cbn.
  destruct (String.eqb_spec k k') as [->|Hn].
  - rewrite Hp. cbn. now rewrite String.eqb_refl.
  - destruct (p (k', v')); cbn; [|exact IH]. destruct (String.eqb_spec k k'); [contradiction|exact IH].
Qed.
Lemma assoc_filter_out {A} k (p : string * A -> bool) (l : list (string * A)) :
  (forall v, p (k, v) = false) -> assoc k (filter p l) = None.
Proof.
  intros Hp. induction l as [|[k' v'] l IH]; [reflexivity|]. cbn.
  destruct (p (k', v')) eqn:E; cbn; [|exact IH].
  destruct (String.eqb_spec k k') as [->|Hn]; [rewrite Hp in E; discriminate|exact IH].
Qed.

Lemma assoc_filter_none {A} k (p : string * A -> bool) (l : list (string * A)) :
  assoc k l = None -> assoc k (filter p l) = None.
Proof.
  induction l as [|[k' v'] l IH]; [reflexivity|]. cbn.
  destruct (String.eqb_spec k k') as [->|Hn]; [discriminate|]. intros H.
  destruct (p (k', v')); cbn; [|now apply IH]. destruct (String.eqb_spec k k'); [contradiction|now apply IH].
Qed.

Lemma assoc_in_list {A} k (l : list (string * A)) v : assoc k l = Some v -> In (k, v) l.
Proof.
  induction l as [|[k' v'] l IH]; cbn; [discriminate|].
  destruct (String.eqb_spec k k') as [->|]; [intros [= ->]; now left|]. intros H. right. auto.
Qed.

Lemma assoc_flat_keys (f : string -> list (string * json)) ks k :
  (forall k', k' <> k -> forall kv, In kv (f k') -> fst kv <> k) ->
  ~ In k ks -> assoc k (flat_map f ks) = None.
Proof.
  intros Hf Hn. induction ks as [|k0 ks IH]; [reflexivity|]. cbn.
  assert (Hk0 : k0 <> k) by (intros ->; apply Hn; now left).
  rewrite assoc_app_r; [apply IH; intros Hi; apply Hn; now right|].
  specialize (Hf k0 Hk0). induction (f k0) as [|[k' v'] l IHl]; [reflexivity|]. cbn.
  destruct (String.eqb_spec k k') as [->|]; [exfalso; apply (Hf (k', v')); [now left|reflexivity]|].
  apply IHl. intros kv Hkv. apply Hf. now right.
Qed.

Section RT.
  Variable ti : tyinfo.
  Hypothesis Hok : tbl_ok ti = true.

  Notation emit := (emit ti).

  Lemma emit_keys r k' kv : In kv (emit r k') -> fst kv = k'.
  Proof.
    unfold Codec.emit. destruct (assoc k' (r_fields r)) as [v|]; [|intros []].
    destruct (str_in k' (ti_cond ti) && jzero v); [intros []|]. intros [<-|[]]. reflexivity.
  Qed.

  Lemma assoc_emit_list r ks k : nodup_l ks = true -> str_in k ks = true ->
    assoc k (flat_map (emit r) ks) = assoc k (emit r k).
  Proof.
    induction ks as [|k0 ks IH]; intros Hnd Hin; [discriminate|]. cbn in Hnd, Hin |- *.
    apply andb_prop in Hnd as [Hfresh Hnd]. apply Bool.negb_true_iff in Hfresh.
    destruct (String.eqb_spec k k0) as [->|Hne]; cbn in Hin.
    - assert (Hrest : assoc k0 (flat_map (emit r) ks) = None).
      { apply assoc_flat_keys; [|intros Hi; apply str_in_In in Hi; congruence].
        intros k' Hk' kv Hkv. rewrite (emit_keys r k' kv Hkv). exact Hk'. }
      destruct (assoc k0 (emit r k0)) as [v|] eqn:E.
      + now apply assoc_app_l.
      + now rewrite assoc_app_r.
    - rewrite assoc_app_r; [now apply IH|].
      unfold Codec.emit. destruct (assoc k0 (r_fields r)) as [v|]; [|reflexivity].
      destruct (str_in k0 (ti_cond ti) && jzero v); [reflexivity|]. cbn.
      destruct (String.eqb_spec k k0); [contradiction|reflexivity].
  Qed.

  (* marshal . unmarshal is the identity on every normal-form object: every member - a field the
     specification defines, an extension, an unknown field - comes back with its value, and nothing
     else appears *)
  Theorem roundtrip j k :
    normal ti j = true -> assoc k (marshal ti (unmarshal ti j)) = assoc k j.
  Proof.
    intros Hn. unfold tbl_ok in Hok.
    apply andb_prop in Hok as [H Hcond]. apply andb_prop in H as [H Htd]. apply andb_prop in H as [H Htm].
    apply andb_prop in H as [H Hnd3]. apply andb_prop in H as [Hnd1 Hnd2].
    unfold same_set in Htm, Htd. apply andb_prop in Htm as [Htm1 Htm2]. apply andb_prop in Htd as [Htd1 Htd2].
    unfold normal in Hn. apply andb_prop in Hn as [Hz Hsp]. rewrite forallb_forall in Hz, Hsp.
    unfold marshal. set (r := unmarshal ti j).
    assert (Hre : r_ext r = filter (fun kv => negb (str_in (fst kv) (ti_deleted ti))) j) by reflexivity.
    assert (Hrf : r_fields r = filter (fun kv => str_in (fst kv) (ti_tags ti)) j) by reflexivity.
    rewrite Hre.
    destruct (assoc k j) as [v|] eqn:Ekj.
    2:{ (* absent from the input: absent from the output *)
      rewrite assoc_app_r.
      - destruct (str_in k (ti_marshal ti)) eqn:Em.
        + rewrite (assoc_emit_list r _ k Hnd2 Em). unfold Codec.emit. rewrite Hrf.
          now rewrite (assoc_filter_none k _ j Ekj).
        + apply assoc_flat_keys; [|intros Hi; apply str_in_In in Hi; congruence].
          intros k' Hk' kv Hkv. rewrite (emit_keys r k' kv Hkv). exact Hk'.
      - now apply assoc_filter_none. }
    pose proof (assoc_in_list k j v Ekj) as Hin.
    assert (Hspk : special k = false).
    { specialize (Hsp _ Hin). cbn in Hsp. now apply Bool.negb_true_iff in Hsp. }
    destruct (str_in k (ti_tags ti)) eqn:Et.
    - (* a field of the type: deleted from the extensions, written by the marshaller *)
      assert (Hd : str_in k (ti_deleted ti) = true).
      { rewrite <- (norm_in k _ Hspk). eapply subset_in; [exact Htd1|]. now rewrite norm_in. }
      assert (Hm : str_in k (ti_marshal ti) = true).
      { rewrite <- (norm_in k _ Hspk). eapply subset_in; [exact Htm1|]. now rewrite norm_in. }
      rewrite assoc_app_r by (apply assoc_filter_out; intros v0; cbn; now rewrite Hd).
      rewrite (assoc_emit_list r _ k Hnd2 Hm). unfold Codec.emit. rewrite Hrf.
      rewrite assoc_filter_in by (intros v0; cbn; exact Et). rewrite Ekj.
      specialize (Hz _ Hin). cbn in Hz. apply Bool.negb_true_iff in Hz. rewrite Hz. cbn. now rewrite String.eqb_refl.
    - (* an extension or unknown field: kept in the extension map, not touched by the marshaller *)
      assert (Hd : str_in k (ti_deleted ti) = false).
      { destruct (str_in k (ti_deleted ti)) eqn:E; [|reflexivity].
        assert (str_in k (norm (ti_tags ti)) = true) by (eapply subset_in; [exact Htd2|now rewrite norm_in]).
        rewrite norm_in in H by exact Hspk. congruence. }
      apply assoc_app_l. rewrite assoc_filter_in by (intros v0; cbn; now rewrite Hd). exact Ekj.
  Qed.
End RT.
