(* C13: the recursive default injection (all depths).  A second pass is the identity for every
   schema without allOf; with allOf it is not (the members are visited before the schema's own
   defaults are filled in, so they see them on the next pass only) - the witness is in Props/C13.v. *)
From KV Require Import Model.Base Model.Json Model.Schema Model.Request Model.ParamCodec Model.Defaults
     Proofs.SchemaProofs Proofs.C13Proofs.
Local Open Scope list_scope.

Fixpoint noall (s : schema) : bool :=
  match s with
  | Sch c n one any all it props ap =>
      is_nil all &&
      match it with Some i => noall i | None => true end &&
      forallb (fun kp => noall (snd kp)) props &&
      match ap with Some a => noall a | None => true end
  end.

(* injection never turns a value into null, nor null into a value *)
Lemma inject_null roOff : forall s v, (inject roOff s v = JNull) <-> (v = JNull).
Proof.
  induction s as [c n one any all it props ap _ _ _ Hall _ _ _] using schema_ind'. intros v.
  cbn [inject].
  set (go := fix go (l : list schema) (acc : json) : json := match l with [] => acc | x :: r => go r (inject roOff x acc) end).
  assert (G : forall l, Forall (fun x => forall v, inject roOff x v = JNull <-> v = JNull) l -> forall acc, go l acc = JNull <-> acc = JNull).
  { induction l as [|x r IH]; intros HF acc; [reflexivity|]. inversion HF as [|? ? Hx Hr]; subst.
    cbn [go]. rewrite (IH Hr). apply Hx. }
  specialize (G all Hall v).
  destruct (go all v) as [| | | |l|l] eqn:E; try (rewrite <- G; split; intros; congruence).
  - (* array *) split; intros H.
    + destruct (permits c "array"); [destruct it|]; discriminate.
    + apply G in H. discriminate.
  - split; intros H.
    + destruct (permits c "object"); discriminate.
    + apply G in H. discriminate.
Qed.

Lemma assoc_map_val {A B} (f : string -> A -> B) k l :
  assoc k (map (fun kx => (fst kx, f (fst kx) (snd kx))) l) = option_map (f k) (assoc k l).
Proof.
  induction l as [|[k0 x] l IH]; cbn [map assoc fst snd option_map]; [reflexivity|].
  destruct (String.eqb_spec k k0) as [->|N]; [reflexivity|exact IH].
Qed.

Section IDEM.
  Variable roOff : bool.

  (* the member map of one object level *)
  Definition hmap (props : list (string * schema)) (ap : option schema) (k : string) (x : json) : json :=
    match assoc k (map (fun kp => (fst kp, inject roOff (snd kp))) props) with
    | Some f => f x
    | None => match ap with Some a => inject roOff a x | None => x end
    end.

  Lemma inject_obj_shape c n one any it props ap l :
    inject roOff (Sch c n one any [] it props ap) (JObj l) =
    if permits c "object" then
      JObj (map (fun kx => (fst kx, hmap props ap (fst kx) (snd kx)))
                (add_defaults roOff (map (fun kp => (fst kp, core_of (snd kp))) props) l))
    else JObj l.
  Proof.
    cbn [inject]. destruct (permits c "object"); [|reflexivity]. f_equal.
    apply map_ext. intros [k x]. unfold hmap. cbn [fst snd].
    destruct (assoc k (map (fun kp => (fst kp, inject roOff (snd kp))) props)); [reflexivity|].
    destruct ap; reflexivity.
  Qed.

  Lemma hmap_null props ap k x : hmap props ap k x = JNull <-> x = JNull.
  Proof.
    unfold hmap.
    destruct (assoc k (map (fun kp => (fst kp, inject roOff (snd kp))) props)) as [f|] eqn:E.
    - (* f is some inject roOff P *)
      assert (exists P, f = inject roOff P) as (P & ->).
      { clear - E. induction props as [|[k0 P0] r IH]; cbn [map assoc fst snd] in E; [discriminate|].
        destruct (String.eqb k k0); [injection E as <-; eauto|auto]. }
      apply inject_null.
    - destruct ap; [apply inject_null|reflexivity].
  Qed.

  Lemma lacks_map props ap l k :
    lacks (map (fun kx => (fst kx, hmap props ap (fst kx) (snd kx))) l) k = lacks l k.
  Proof.
    unfold lacks. rewrite (assoc_map_val (hmap props ap)).
    destruct (assoc k l) as [x|]; cbn [option_map]; [|reflexivity].
    destruct (hmap props ap k x) eqn:E; destruct x; try reflexivity;
      try (apply hmap_null in E; discriminate);
      try (assert (H : hmap props ap k JNull = JNull) by (apply hmap_null; reflexivity); congruence).
  Qed.

  Theorem inject_idempotent : forall s, noall s = true -> forall v,
    inject roOff s (inject roOff s v) = inject roOff s v.
  Proof.
    induction s as [c n one any all it props ap _ _ _ _ Hit Hprops Hap] using schema_ind'.
    intros Hn v. cbn [noall] in Hn.
    apply andb_prop in Hn as [Hn Hna]. apply andb_prop in Hn as [Hn Hnp]. apply andb_prop in Hn as [Hnl Hni].
    destruct all; [|discriminate].
    destruct v as [| | | |l|l]; try reflexivity.
    - (* arrays *)
      cbn [inject]. destruct (permits c "array") eqn:Ep; [|cbn [inject]; first [reflexivity|now rewrite Ep]].
      destruct it as [i|]; [|cbn [inject]; first [reflexivity|now rewrite Ep]].
      cbn [inject]. rewrite ?Ep. f_equal. rewrite map_map. apply map_ext. intros x. now apply Hit.
    - (* objects *)
      rewrite !inject_obj_shape. destruct (permits c "object") eqn:Ep; [|rewrite inject_obj_shape; now rewrite Ep].
      rewrite inject_obj_shape, Ep. f_equal.
      set (pc := map (fun kp => (fst kp, core_of (snd kp))) props).
      set (l1 := add_defaults roOff pc l).
      (* nothing is lacking after the first pass, and the member map does not change that *)
      rewrite add_defaults_noop.
      2:{ intros k pcr d Hin Hg. rewrite lacks_map. unfold l1. eapply add_defaults_fills; eauto. }
      rewrite map_map. apply map_ext. intros [k x]. cbn [fst snd]. f_equal.
      (* the member map is idempotent: induction hypotheses *)
      unfold hmap.
      destruct (assoc k (map (fun kp => (fst kp, inject roOff (snd kp))) props)) as [f|] eqn:E.
      + assert (exists P, f = inject roOff P /\ In (k, P) props) as (P & -> & HP).
        { clear - E. induction props as [|[k0 P0] r IH]; cbn [map assoc fst snd] in E; [discriminate|].
          destruct (String.eqb_spec k k0) as [->|N]; [injection E as <-; exists P0; split; [reflexivity|now left]|].
          destruct (IH E) as (P & ? & ?). exists P. split; [assumption|now right]. }
        rewrite Forall_forall in Hprops. specialize (Hprops _ HP). cbn [snd] in Hprops.
        apply Hprops. rewrite forallb_forall in Hnp. exact (Hnp _ HP).
      + destruct ap as [a|]; [now apply Hap|reflexivity].
  Qed.
End IDEM.
