From KV Require Import Model.Base Model.Request Spec.RequestSpec.
Local Open Scope list_scope.

Section P.
  Variable declared : string -> bool.
  Variable auth : string -> bool.
  Notation acc := (scheme_accepted declared auth).

  Lemma schemes_ok_fst names : fst (schemes_ok declared auth names) = forallb acc names.
  Proof.
    induction names as [|n r IH]; [reflexivity|]. cbn [schemes_ok forallb]. unfold scheme_accepted at 1.
    destruct (declared n); cbn [negb andb]; [|reflexivity].
    destruct (auth n); [|reflexivity]. destruct (schemes_ok declared auth r) as [b c]. exact IH.
  Qed.

  Lemma schemes_ok_calls_declared names :
    forall n, In n (snd (schemes_ok declared auth names)) -> declared n = true.
  Proof.
    induction names as [|m r IH]; intros n Hn; [destruct Hn|]. cbn [schemes_ok] in Hn.
    destruct (declared m) eqn:Hd; cbn [negb] in Hn; [|destruct Hn].
    destruct (auth m).
    - destruct (schemes_ok declared auth r) as [b c]. cbn in Hn, IH. destruct Hn as [<-|Hn]; auto.
    - cbn in Hn. destruct Hn as [<-|[]]. exact Hd.
  Qed.

  (* when a requirement is satisfied the callback was asked exactly its schemes, in order *)
  Lemma schemes_ok_calls_all names :
    fst (schemes_ok declared auth names) = true -> snd (schemes_ok declared auth names) = names.
  Proof.
    induction names as [|m r IH]; [reflexivity|]. cbn [schemes_ok].
    destruct (declared m); cbn [negb]; [|discriminate]. destruct (auth m); [|discriminate].
    destruct (schemes_ok declared auth r) as [b c]. cbn in *. intros H. now rewrite (IH H).
  Qed.

  Lemma requirement_ok_fst o r : callback_meaning auth o ->
    fst (requirement_ok declared auth o r) = forallb acc r.
  Proof.
    intros Hc. destruct r as [|n r]; [reflexivity|]. unfold requirement_ok.
    destruct (o_has_auth o) eqn:Ha; cbn [negb].
    - apply schemes_ok_fst.
    - cbn [fst forallb]. unfold scheme_accepted at 1. rewrite (Hc Ha n). now rewrite Bool.andb_false_r.
  Qed.

  Lemma scan_fst o rs : callback_meaning auth o ->
    fst (requirements_scan declared auth o rs) = existsb (fun r => forallb acc r) rs.
  Proof.
    intros Hc. induction rs as [|r rest IH]; [reflexivity|]. cbn [requirements_scan existsb].
    rewrite <- (requirement_ok_fst o r Hc).
    destruct (requirement_ok declared auth o r) as [b c]. cbn [fst]. destruct b; [reflexivity|].
    destruct (requirements_scan declared auth o rest) as [b' c']. exact IH.
  Qed.

  Lemma security_ok_spec o rs : callback_meaning auth o ->
    fst (security_ok declared auth o rs) = sec_spec declared auth rs.
  Proof.
    intros Hc. destruct rs as [|r rest]; [reflexivity|].
    unfold security_ok, sec_spec. now apply scan_fst.
  Qed.

  Lemma forallb_filter_id {A} (p q : A -> bool) l :
    forallb q l = true -> filter q l = l.
  Proof.
    induction l as [|x l IH]; [reflexivity|]. cbn. intros H. apply andb_prop in H as [Hx Hl].
    now rewrite Hx, (IH Hl).
  Qed.

  Lemma forallb_sub {A} (p q : A -> bool) l : forallb q l = true -> forallb q (filter p l) = true.
  Proof.
    induction l as [|x l IH]; [reflexivity|]. cbn. intros H. apply andb_prop in H as [Hx Hl].
    destruct (p x); cbn; [rewrite Hx|]; auto.
  Qed.

  Lemma none_iff_all o op :
    validate_request declared auth o op = None <->
    forallb (fun pb => snd pb) (checked_parts declared auth o op) = true.
  Proof.
    unfold validate_request. set (cp := checked_parts declared auth o op). clearbody cp.
    induction cp as [|[p b] cp IH]; cbn; [tauto|].
    destruct b; cbn.
    - exact IH.
    - split; discriminate.
  Qed.

  Lemma fm {A B} (f : A -> B) p l : forallb p (map f l) = forallb (fun x => p (f x)) l.
  Proof. induction l as [|x l IH]; cbn; [reflexivity|now rewrite IH]. Qed.

  Lemma filter_comm {A} (p q : A -> bool) l : filter p (filter q l) = filter q (filter p l).
  Proof.
    induction l as [|x l IH]; [reflexivity|]. cbn. destruct (q x) eqn:Eq, (p x) eqn:Ep; cbn; rewrite ?Eq, ?Ep, IH; reflexivity.
  Qed.

  Theorem request_iff o op : callback_meaning auth o ->
    (validate_request declared auth o op = None <-> request_spec declared auth o op = true).
  Proof.
    intros Hc. rewrite none_iff_all. unfold checked_parts, request_spec, effective.
    set (sec := match op_security op with Some l => l | None => doc_security op end) in *.
    rewrite !forallb_app. cbn [forallb snd]. rewrite Bool.andb_true_r.
    rewrite (security_ok_spec o sec Hc).
    rewrite !fm. cbn [snd].
    rewrite filter_app, forallb_app.
    rewrite (filter_comm (fun p => negb (o_excl_query o && loc_eqb (p_in p) LQuery))
                         (fun p => negb (overridden (op_params op) p)) (path_params op)).
    assert (Hb : forallb (fun pb : part * bool => snd pb)
                   (if op_has_body op && negb (o_excl_body o) then [(PBody, op_body_ok op)] else [])
                 = (negb (op_has_body op) || o_excl_body o || op_body_ok op)).
    { destruct (op_has_body op), (o_excl_body o), (op_body_ok op); reflexivity. }
    rewrite Hb.
    set (A := sec_spec declared auth sec). set (B := forallb p_ok (filter _ (filter _ (path_params op)))).
    set (C := forallb p_ok (filter _ (op_params op))). set (D := negb _ || _ || _).
    destruct A, B, C, D; cbn; tauto.
  Qed.

  (* multi-error mode returns exactly the failing parts, in checking order; otherwise the first *)
  Theorem multi_exact o op :
    o_multi o = true ->
    validate_request declared auth o op =
    match map fst (filter (fun pb => negb (snd pb)) (checked_parts declared auth o op)) with
    | [] => None | l => Some l end.
  Proof. intros H. unfold validate_request. rewrite H. destruct (map fst _); reflexivity. Qed.

  Theorem first_only o op :
    o_multi o = false ->
    validate_request declared auth o op =
    match map fst (filter (fun pb => negb (snd pb)) (checked_parts declared auth o op)) with
    | [] => None | f :: _ => Some [f] end.
  Proof. intros H. unfold validate_request. rewrite H. destruct (map fst _); reflexivity. Qed.

  (* the callback is only ever asked about declared schemes *)
  Theorem calls_declared o op : forall n, In n (auth_calls declared auth o op) -> declared n = true.
  Proof.
    unfold auth_calls. set (sec := match op_security op with Some l => l | None => doc_security op end).
    clearbody sec. intros n. unfold security_ok. destruct sec as [|r0 rest0]; [intros []|].
    generalize (r0 :: rest0) as rs. clear. induction rs as [|r rest IH]; [intros []|].
    cbn [requirements_scan].
    assert (Hc : forall m, In m (snd (requirement_ok declared auth o r)) -> declared m = true).
    { intros m. unfold requirement_ok. destruct r as [|x r']; [intros []|].
      destruct (o_has_auth o); cbn [negb]; [apply schemes_ok_calls_declared|intros []]. }
    destruct (requirement_ok declared auth o r) as [b c]. cbn [snd] in Hc.
    destruct b; cbn; [apply Hc|].
    destruct (requirements_scan declared auth o rest) as [b' c']. cbn in *.
    intros H. apply in_app_or in H as [H|H]; auto.
  Qed.
End P.
