From KV Require Import Model.Base Model.Json Model.Schema Model.Lookup Model.Response
     Spec.SchemaSpec Spec.SchemaGuards Spec.SchemaGuardsRW Spec.ResponseSpec Proofs.SchemaProofs Proofs.SchemaMain.
Local Open Scope list_scope.
From Coq Require Import ZifyN ZifyBool.
Ltac Zify.zify_post_hook ::= Z.div_mod_to_equations.

Lemma class_range n : (N.ltb 99 n && N.ltb n 600) = (N.leb 100 n && N.leb n 599).
Proof.
  destruct (N.ltb_spec 99 n), (N.ltb_spec n 600), (N.leb_spec 100 n), (N.leb_spec n 599); cbn; try reflexivity; lia.
Qed.

Lemma select_eq {A} (responses : list (string * A)) n :
  select_response responses n = select_spec responses n.
Proof.
  unfold select_response, status_lookup, select_spec. cbn [first_some]. rewrite class_range.
  destruct (assoc (status_text n) responses); [reflexivity|].
  destruct (N.leb 100 n && N.leb n 599); [|destruct (assoc "default" responses); reflexivity].
  destruct (assoc (class_key n) responses); [reflexivity|].
  destruct (assoc "default" responses); reflexivity.
Qed.

Lemma content_eq {A} (content : list (string * A)) mime :
  content_get content mime = content_spec content mime.
Proof.
  unfold content_get, content_spec. destruct (String.eqb mime ""); [reflexivity|]. cbn [first_some].
  destruct (assoc mime content); [reflexivity|].
  destruct (assoc (before semicolon mime) content); [reflexivity|].
  destruct (has_char slash (before semicolon mime)); cbn [negb]; [|reflexivity].
  destruct (assoc _ content); [reflexivity|].
  destruct (assoc "*/*" content); reflexivity.
Qed.

(* the class key of a status in 100..599 is one of the five patterned fields *)
Lemma class_key_range n :
  (100 <= n)%N -> (n <= 599)%N ->
  In (class_key n) ["1XX"; "2XX"; "3XX"; "4XX"; "5XX"].
Proof.
  intros H1 H2. unfold class_key.
  assert (Hc : (N.div n 100 = 1 \/ N.div n 100 = 2 \/ N.div n 100 = 3 \/ N.div n 100 = 4 \/ N.div n 100 = 5)%N) by lia.
  destruct Hc as [-> | [-> | [-> | [-> | ->]]]]; cbn; tauto.
Qed.

Section P.
  Variable rc : string -> bool.
  Variable rm : string -> string -> bool.
  Variable fo : string -> string -> json -> option bool.

  Notation sv_guard := (sv_guard rc rm fo).
  Notation g_hdr := (g_hdr rc rm fo).
  Notation g_media := (g_media rc rm fo).
  Notation g_resp := (g_resp rc rm fo).

  Lemma visit_spec st s v :
    sv_guard (md_of st) (st_usenum st) s v = true ->
    visit rc rm fo st s v <> Panic "" /\
    (forall w, visit rc rm fo st s v <> Panic w) /\
    accepts (visit rc rm fo st s v) = satb rc rm fo (md_of st) s v.
  Proof.
    unfold sv_guard. intros H. apply andb_prop in H as [Hg Hv].
    destruct (main_visit rc rm fo st s v Hg Hv) as [Hp Ha].
    repeat split; try exact Ha; try (intros w E || intros E); rewrite E in Hp; discriminate.
  Qed.

  Definition is_rok (r : rres) : bool := match r with ROk => true | _ => false end.
  Definition is_rpanic (r : rres) : bool := match r with RPanic _ => true | _ => false end.

  Lemma header_ok o h :
    g_hdr o h = true ->
    is_rpanic (header_check rc rm fo o h) = false /\
    is_rok (header_check rc rm fo o h) = header_spec rc rm fo o h.
  Proof.
    unfold g_hdr, header_check, header_spec. intros G.
    destruct (h_schema h) as [s|].
    2:{ destruct (h_required h), (h_found h); split; reflexivity. }
    destruct (h_found h); cbn [negb orb] in *.
    - destruct (h_decoded h) as [v|]; [|split; reflexivity].
      change (md_hdr o) with (md_of (resp_settings o false)).
      destruct (visit_spec (resp_settings o false) s v G) as (_ & Hp & Ha).
      destruct (visit rc rm fo (resp_settings o false) s v) eqn:E; try rewrite E in Ha; try rewrite E in Hav; cbn in *.
      + split; [reflexivity|exact Ha].
      + split; [reflexivity|exact Ha].
      + exfalso. now apply (Hp w).
    - destruct (h_required h); split; reflexivity.
  Qed.

  Lemma headers_ok o hs :
    forallb (g_hdr o) hs = true ->
    is_rpanic (headers_check rc rm fo o hs) = false /\
    is_rok (headers_check rc rm fo o hs) = forallb (header_spec rc rm fo o) hs.
  Proof.
    induction hs as [|h hs IH]; intros G; [split; reflexivity|].
    cbn [forallb] in G. apply andb_prop in G as [Gh Gr].
    destruct (header_ok o h Gh) as [Hp Ha]. destruct (IH Gr) as [Hp' Ha'].
    cbn [headers_check forallb]. rewrite <- Ha.
    destruct (header_check rc rm fo o h) eqn:E; cbn in *; try discriminate.
    - split; [exact Hp'|exact Ha'].
    - split; reflexivity.
  Qed.

  Theorem response_iff o is_head status responses ct body :
    g_resp o status responses ct body = true ->
    is_rpanic (fst (validate_response rc rm fo o is_head status responses ct body)) = false /\
    is_rok (fst (validate_response rc rm fo o is_head status responses ct body))
    = response_spec rc rm fo o is_head status responses ct body.
  Proof.
    unfold g_resp, validate_response, response_spec. intros G.
    apply andb_prop in G as [G0 G].
    destruct is_head; [split; reflexivity|]. cbn [orb].
    destruct (N.eqb status 304) eqn:E304; cbn [orb].
    { split; [reflexivity|]. cbn. now rewrite !Bool.orb_true_r. }
    destruct (N.eqb status 308) eqn:E308; cbn [orb].
    { split; [reflexivity|]. cbn. now rewrite !Bool.orb_true_r. }
    destruct (N.eqb status 307) eqn:E307; cbn [orb].
    { split; [reflexivity|]. cbn. now rewrite !Bool.orb_true_r. }
    destruct (N.eqb status 301) eqn:E301; cbn [orb].
    { split; [reflexivity|]. reflexivity. }
    destruct responses as [|r0 rs].
    { cbn [is_nil negb orb] in G0. unfold select_spec. cbn [assoc first_some].
      destruct (N.leb 100 status && N.leb status 599); cbn [first_some]; rewrite G0; split; reflexivity. }
    rewrite select_eq.
    destruct (select_spec (r0 :: rs) status) as [d|].
    2:{ destruct (v_include_status o); split; reflexivity. }
    apply andb_prop in G as [Gh Gm].
    destruct (headers_ok o (r_headers d) Gh) as [Hp Ha]. rewrite <- Ha.
    destruct (headers_check rc rm fo o (r_headers d)) eqn:Eh; cbn in Hp; try discriminate; cbn [fst is_rok andb].
    2:{ split; reflexivity. }
    destruct (v_excl_body o); [split; reflexivity|]. cbn [orb].
    destruct (r_content d) as [|c0 cs] eqn:Ec; [split; reflexivity|]. cbn [is_nil orb].
    rewrite content_eq.
    destruct (content_spec (c0 :: cs) ct) as [m|]; [|split; reflexivity].
    unfold g_media in Gm.
    destruct (m_schema m) as [s|]; [|split; reflexivity].
    destruct body as [v|]; [|split; reflexivity].
    change (md_resp o) with (md_of (resp_settings o true)).
    destruct (visit_spec (resp_settings o true) s v Gm) as (_ & Hpv & Hav).
    destruct (visit rc rm fo (resp_settings o true) s v) eqn:E; try rewrite E in Ha; try rewrite E in Hav; cbn in *.
    - split; [reflexivity|exact Hav].
    - split; [reflexivity|exact Hav].
    - exfalso. now apply (Hpv w).
  Qed.

  (* the response body is never lost: every path either leaves it untouched or restores it *)
  Theorem body_readable o is_head status responses ct body :
    snd (validate_response rc rm fo o is_head status responses ct body) <> BLost.
  Proof.
    unfold validate_response.
    repeat match goal with
    | |- context [if ?b then _ else _] => destruct b
    | |- context [match ?x with _ => _ end] => destruct x
    end; cbn; discriminate.
  Qed.
End P.
