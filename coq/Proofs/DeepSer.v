From Coq Require Import DecimalString DecimalNat DecimalFacts.
From KV Require Import Model.Base Model.Json Model.Schema Model.Request Model.ParamCodec Model.Router Proofs.C09Proofs.
From KV Require Import Model.DeepObject Spec.DeepSpec Proofs.DeepBuild.
Local Open Scope list_scope.

(* the deepObject serialisation of a value below a path: one (path, text) pair per primitive *)
Fixpoint ser (p : list string) (v : dval) : list (list string * string) :=
  match v with
  | VPrim t => [(p, t)]
  | VArr l => (fix go (i : nat) (l : list dval) : list (list string * string) :=
                 match l with [] => [] | x :: r => ser (p ++ [itoa i]) x ++ go (S i) r end) 0 l
  | VObj ms => (fix go (ms : list (string * dval)) : list (list string * string) :=
                  match ms with [] => [] | (k, x) :: r => ser (p ++ [k]) x ++ go r end) ms
  end.
Definition ser_arr (p : list string) : nat -> list dval -> list (list string * string) :=
  fix go (i : nat) (l : list dval) : list (list string * string) :=
    match l with [] => [] | x :: r => ser (p ++ [itoa i]) x ++ go (S i) r end.
Definition ser_obj (p : list string) : list (string * dval) -> list (list string * string) :=
  fix go (ms : list (string * dval)) : list (list string * string) :=
    match ms with [] => [] | (k, x) :: r => ser (p ++ [k]) x ++ go r end.
Lemma ser_arr_cons p i x r : ser_arr p i (x :: r) = ser (p ++ [itoa i]) x ++ ser_arr p (S i) r.
Proof. reflexivity. Qed.
Lemma ser_obj_cons p k x r : ser_obj p ((k, x) :: r) = ser (p ++ [k]) x ++ ser_obj p r.
Proof. reflexivity. Qed.
Lemma ser_arr_eq p l : ser p (VArr l) = ser_arr p 0 l.
Proof. reflexivity. Qed.
Lemma ser_obj_eq p ms : ser p (VObj ms) = ser_obj p ms.
Proof. reflexivity. Qed.


(* setting a tree at a path: what a sequence of deepSet calls for the leaves of the tree amounts to *)
Definition fold_set (m : list (string * ptree)) (l : list (list string * string)) : list (string * ptree) :=
  fold_left (fun acc kv => deep_set acc (fst kv) (snd kv)) l m.

Lemma fold_set_app m a b : fold_set m (a ++ b) = fold_set (fold_set m a) b.
Proof. unfold fold_set. apply fold_left_app. Qed.

(* the node found under a key, [] when there is none (what deepSet continues with) *)
Definition sub (k : string) (m : list (string * ptree)) : list (string * ptree) :=
  match assoc k m with Some (PNode n) => n | _ => [] end.

Lemma deep_set_cons k k2 ks m v : deep_set m (k :: k2 :: ks) v = upd k (PNode (deep_set (sub k m) (k2 :: ks) v)) m.
Proof. reflexivity. Qed.

(* all the pairs lie below key k: the fold works inside the node under k *)
Lemma fold_set_under k : forall l m,
  l <> [] -> Forall (fun kv => snd (A:=list string) (B:=string) kv = snd kv /\ exists k2 rest, fst kv = k2 :: rest) l ->
  fold_set m (map (fun kv => (k :: fst kv, snd kv)) l) = upd k (PNode (fold_set (sub k m) l)) m.
Proof.
  induction l as [|[p t] l IH]; intros m Hne Hall; [congruence|].
  inversion Hall as [|? ? [_ (k2 & rest & Hp)] Hall']; subst. simpl in Hp. subst p.
  cbn [map fold_set fold_left fst snd]. rewrite deep_set_cons.
  destruct l as [|kv l'].
  - reflexivity.
  - change (fold_left _ (map _ (kv :: l')) ?x) with (fold_set x (map (fun kv0 => (k :: fst kv0, snd kv0)) (kv :: l'))).
    rewrite IH by (auto; discriminate).
    unfold sub at 1. rewrite assoc_upd_same.
    (* upd k _ (upd k _ m) = upd k _ m *)
    assert (Hupd : forall (a b : ptree) m0, upd k a (upd k b m0) = upd k a m0).
    { clear. intros a b m0. induction m0 as [|[k' v'] m0 IHm]; cbn.
      - now rewrite String.eqb_refl.
      - destruct (String.eqb_spec k k') as [->|Hn]; cbn.
        + now rewrite String.eqb_refl.
        + destruct (String.eqb_spec k k'); [contradiction|]. now rewrite IHm. }
    rewrite Hupd. reflexivity.
Qed.

(* ---- induction over values ---- *)
Section VIND.
  Variable P : dval -> Prop.
  Hypothesis Hprim : forall t, P (VPrim t).
  Hypothesis Harr : forall l, Forall P l -> P (VArr l).
  Hypothesis Hobj : forall ms, Forall (fun kx => P (snd kx)) ms -> P (VObj ms).
  Fixpoint dval_ind' (v : dval) : P v :=
    match v with
    | VPrim t => Hprim t
    | VArr l => Harr l ((fix go (l : list dval) : Forall P l :=
                           match l with [] => Forall_nil _ | x :: r => Forall_cons x (dval_ind' x) (go r) end) l)
    | VObj ms => Hobj ms ((fix go (ms : list (string * dval)) : Forall (fun kx => P (snd kx)) ms :=
                             match ms with [] => Forall_nil _ | kx :: r => Forall_cons kx (dval_ind' (snd kx)) (go r) end) ms)
    end.
End VIND.

Definition under (k : string) (l : list (list string * string)) := map (fun kv => (k :: fst kv, snd kv)) l.
Lemma under_app k a b : under k (a ++ b) = under k a ++ under k b.
Proof. unfold under. apply map_app. Qed.

(* serialising below k :: p is serialising below p, with k in front of every path *)
Lemma ser_cons_path : forall v k p, ser (k :: p) v = under k (ser p v).
Proof.
  induction v as [t|l IH|ms IH] using dval_ind'; intros k p.
  - reflexivity.
  - rewrite !ser_arr_eq. generalize 0 as i. induction l as [|x l IHl]; intros i; [reflexivity|].
    inversion IH as [|? ? Hx Hl]; subst. rewrite !ser_arr_cons, under_app.
    change ((k :: p) ++ [itoa i]) with (k :: (p ++ [itoa i])). rewrite Hx. f_equal. now apply IHl.
  - rewrite !ser_obj_eq. induction ms as [|[k0 x] ms IHm]; [reflexivity|].
    inversion IH as [|? ? Hx Hl]; subst. rewrite !ser_obj_cons, under_app.
    change ((k :: p) ++ [k0]) with (k :: (p ++ [k0])). simpl in Hx. rewrite Hx. f_equal. now apply IHm.
Qed.

(* a well-formed value has at least one leaf *)
Lemma ser_nonempty : forall v p, wfv v -> ser p v <> [].
Proof.
  induction v as [t|l IH|ms IH] using dval_ind'; intros p Hw.
  - discriminate.
  - rewrite wfv_arr in Hw. destruct Hw as [Hne Hall]. destruct l as [|x l]; [congruence|].
    rewrite ser_arr_eq, ser_arr_cons. inversion IH as [|? ? Hx _]; subst. destruct Hall as [Hwx _].
    specialize (Hx (p ++ [itoa 0]) Hwx). destruct (ser (p ++ [itoa 0]) x); [congruence|discriminate].
  - rewrite wfv_obj in Hw. destruct Hw as (Hne & _ & Hall). destruct ms as [|[k x] ms]; [congruence|].
    rewrite ser_obj_eq, ser_obj_cons. inversion IH as [|? ? Hx _]; subst. destruct Hall as [Hwx _].
    simpl in Hx. specialize (Hx (p ++ [k]) Hwx). destruct (ser (p ++ [k]) x); [congruence|discriminate].
Qed.

(* every path of the serialisation below [k] starts with k and goes on for arrays and objects *)
Lemma ser_paths_deeper : forall v (k : string), (match v with VPrim _ => False | _ => True end) ->
  Forall (fun kv : list string * string => snd kv = snd kv /\ exists k2 rest, fst kv = k2 :: rest) (ser [] v).
Proof.
  intros v k Hv. destruct v as [t|l|ms]; [contradiction| |].
  - rewrite ser_arr_eq. generalize 0 as i. induction l as [|x l IHl]; intros i; [constructor|].
    rewrite ser_arr_cons. apply Forall_app. split; [|apply IHl].
    change ([] ++ [itoa i]) with [itoa i]. rewrite ser_cons_path. unfold under. apply Forall_forall.
    intros kv Hin. apply in_map_iff in Hin. destruct Hin as (kv0 & <- & _). split; [reflexivity|]. simpl. eauto.
  - rewrite ser_obj_eq. induction ms as [|[k0 x] ms IHm]; [constructor|].
    rewrite ser_obj_cons. apply Forall_app. split; [|apply IHm].
    change ([] ++ [k0]) with [k0]. rewrite ser_cons_path. unfold under. apply Forall_forall.
    intros kv Hin. apply in_map_iff in Hin. destruct Hin as (kv0 & <- & _). split; [reflexivity|]. simpl. eauto.
Qed.

Lemma upd_fresh {A} k (v : A) m : assoc k m = None -> upd k v m = m ++ [(k, v)].
Proof.
  induction m as [|[k' v'] m IH]; cbn; intros H; [reflexivity|].
  destruct (String.eqb k k'); [discriminate|]. now rewrite IH.
Qed.

Definition kids_of (t : ptree) : list (string * ptree) := match t with PNode n => n | PLeaf _ => [] end.

(* inserting the serialisation of one member under a fresh key appends the member's tree *)
Lemma fold_set_member (x : dval) (k : string) (m : list (string * ptree)) :
  assoc k m = None -> wfv x ->
  (match x with VPrim _ => True | _ => fold_set [] (ser [] x) = kids_of (tree_of x) end) ->
  fold_set m (ser [k] x) = m ++ [(k, tree_of x)].
Proof.
  intros Hfresh Hw IH. destruct x as [t|l|ms].
  - cbn [ser fold_set fold_left fst snd deep_set]. rewrite Hfresh. now apply upd_fresh.
  - rewrite ser_cons_path. unfold under.
    rewrite fold_set_under; [|intros E; apply (ser_nonempty (VArr l) [] Hw E)|apply (ser_paths_deeper (VArr l) k I)].
    unfold sub. rewrite Hfresh, IH. rewrite upd_fresh by exact Hfresh. reflexivity.
  - rewrite ser_cons_path. unfold under.
    rewrite fold_set_under; [|intros E; apply (ser_nonempty (VObj ms) [] Hw E)|apply (ser_paths_deeper (VObj ms) k I)].
    unfold sub. rewrite Hfresh, IH. rewrite upd_fresh by exact Hfresh. reflexivity.
Qed.

Lemma assoc_app_fresh {A} k k' (v : A) m : assoc k m = None -> k <> k' -> assoc k (m ++ [(k', v)]) = None.
Proof.
  induction m as [|[k0 v0] m IH]; cbn; intros H Hne.
  - destruct (String.eqb_spec k k'); [contradiction|reflexivity].
  - destruct (String.eqb k k0); [discriminate|]. now apply IH.
Qed.

(* deepSet over the serialisation of a value, in serialisation order, builds the tree of the value *)
Theorem fold_set_ser : forall v, wfv v ->
  match v with VPrim _ => True | _ => fold_set [] (ser [] v) = kids_of (tree_of v) end.
Proof.
  induction v as [t|l IH|ms IH] using dval_ind'; intros Hw; [exact I| |].
  - rewrite wfv_arr in Hw. destruct Hw as [_ Hall]. rewrite ser_arr_eq, tree_of_arr. cbn [kids_of].
    assert (G : forall l i m, Forall (fun v => wfv v -> match v with VPrim _ => True | _ => fold_set [] (ser [] v) = kids_of (tree_of v) end) l ->
                wf_all l -> (forall j, i <= j -> assoc (itoa j) m = None) ->
                fold_set m (ser_arr [] i l) = m ++ arr_kids i l).
    { clear. induction l as [|x l IHl]; intros i m Hf Hw Hfresh.
      - simpl. now rewrite app_nil_r.
      - inversion Hf as [|? ? Hx Hf']; subst. destruct Hw as [Hwx Hwl].
        rewrite ser_arr_cons, fold_set_app. change ([] ++ [itoa i]) with [itoa i].
        rewrite (fold_set_member x (itoa i) m (Hfresh i (le_n i)) Hwx).
        + rewrite (IHl (S i) (m ++ [(itoa i, tree_of x)]) Hf' Hwl).
          * cbn [arr_kids]. now rewrite <- app_assoc.
          * intros j Hj. apply assoc_app_fresh; [apply Hfresh; lia|]. intros E. apply itoa_inj in E. lia.
        + specialize (Hx Hwx). destruct x; auto. }
    rewrite (G l 0 [] IH Hall); [reflexivity|]. intros j _. reflexivity.
  - rewrite wfv_obj in Hw. destruct Hw as (_ & Hnd & Hall). rewrite ser_obj_eq, tree_of_obj. cbn [kids_of].
    assert (G : forall ms m, Forall (fun kx : string * dval => wfv (snd kx) -> match snd kx with VPrim _ => True | _ => fold_set [] (ser [] (snd kx)) = kids_of (tree_of (snd kx)) end) ms ->
                wf_members ms -> NoDup (map fst ms) -> (forall k, In k (map fst ms) -> assoc k m = None) ->
                fold_set m (ser_obj [] ms) = m ++ obj_kids ms).
    { clear. induction ms as [|[k x] ms IHm]; intros m Hf Hw Hnd Hfresh.
      - simpl. now rewrite app_nil_r.
      - inversion Hf as [|? ? Hx Hf']; subst. destruct Hw as [Hwx Hwl]. simpl in Hnd. inversion Hnd as [|? ? Hnotin Hnd']; subst.
        rewrite ser_obj_cons, fold_set_app. change ([] ++ [k]) with [k].
        rewrite (fold_set_member x k m (Hfresh k (or_introl eq_refl)) Hwx).
        + rewrite (IHm (m ++ [(k, tree_of x)]) Hf' Hwl Hnd').
          * cbn [obj_kids]. now rewrite <- app_assoc.
          * intros k' Hin. apply assoc_app_fresh; [apply Hfresh; now right|]. intros ->. contradiction.
        + simpl in Hx. specialize (Hx Hwx). destruct x; auto. }
    rewrite (G ms [] IH Hall Hnd); [reflexivity|]. intros k _. reflexivity.
Qed.

(* ---- makeObject on a serialisation: no text holds the delimiter ---- *)
Fixpoint texts_ok (l : list (list string * string)) : bool :=
  match l with [] => true | (_, t) :: r => negb (contains delim t) && texts_ok r end.

Lemma mk_tree_fold : forall l m, texts_ok l = true ->
  fold_left (fun acc kv => match acc with
                           | None => None
                           | Some m => if contains delim (snd kv) then None else Some (deep_set m (fst kv) (snd kv))
                           end) l (Some m) = Some (fold_set m l).
Proof.
  induction l as [|[p t] l IH]; intros m H; [reflexivity|].
  simpl in H. apply andb_true_iff in H. destruct H as [Ht Hl]. apply negb_true_iff in Ht.
  cbn [fold_left fst snd]. rewrite Ht. unfold fold_set. cbn [fold_left fst snd]. apply (IH _ Hl).
Qed.

Section ROUNDTRIP.
  Variable parse_int64 parse_int32 : string -> option Z.
  Variable parse_float : string -> option float.
  Variable atoi : string -> option Z.
  Hypothesis atoi_itoa : forall n, atoi (itoa n) = Some (Z.of_nat n).

  (* makeObject + buildResObj invert the serialisation: for every schema tree with non-empty declared
     names, every well-formed object value of any depth and its reading p, the properties of the
     serialised value (in serialisation order) are decoded to p *)
  Theorem make_object_roundtrip : forall s ms p,
    names_ok s = true -> wfv (VObj ms) -> nek (VObj ms) -> texts_ok (ser [] (VObj ms)) = true ->
    reading parse_int64 parse_int32 parse_float s (VObj ms) = Some p ->
    exists tree, mk_tree (ser [] (VObj ms)) = Some tree /\
                 build parse_int64 parse_int32 parse_float atoi tree s [] "" = BOk p.
  Proof.
    intros s ms p Hn Hw Hne Ht Hr.
    exists (obj_kids ms). split.
    - unfold mk_tree. rewrite (mk_tree_fold _ [] Ht). f_equal. apply (fold_set_ser (VObj ms) Hw).
    - apply (build_reading parse_int64 parse_int32 parse_float atoi atoi_itoa s Hn (VObj ms) p (obj_kids ms) [] "" Hw Hne).
      + reflexivity.
      + exact Hr.
  Qed.
End ROUNDTRIP.
