(* deepObject: the found flag of DecodeObject is set for the serialisation of a value whose members
   are all declared. *)
From Coq Require Import Permutation.
From KV Require Import Model.Base Model.Json Model.Schema Model.Request Model.ParamCodec Model.Router Proofs.C09Proofs.
From KV Require Import Model.DeepObject Spec.DeepSpec Proofs.DeepBuild Proofs.DeepSer.
Local Open Scope list_scope.

(* every member of every object of the value is a declared property (names declared once) *)
Fixpoint declared_all (s : dsch) (v : dval) {struct s} : Prop :=
  match s, v with
  | DSPrim _, VPrim _ => True
  | DSArr it, VArr l => (fix go (l : list dval) : Prop := match l with [] => True | x :: r => declared_all it x /\ go r end) l
  | DSObj decl None, VObj ms =>
      NoDup (map fst decl) /\
      (fix go (d : list (string * dsch)) : Prop :=
         match d with
         | [] => True
         | (k, ps) :: r => (match assoc k ms with Some x => declared_all ps x | None => True end) /\ go r
         end) decl /\
      forall k, In k (map fst ms) -> In k (map fst decl)
  | _, _ => False
  end.

Section FOUND.
  Variable parse_int64 parse_int32 : string -> option Z.
  Variable parse_float : string -> option float.
  Notation reading := (reading parse_int64 parse_int32 parse_float).

  (* the loop of the object case: what ends up under a declared name *)
  Lemma obj_loop_assoc (ms : list (string * dval)) : forall (decl : list (string * dsch)) acc m k ps x p,
    NoDup (map fst decl) ->
    obj_loop (fun k ps => match assoc k ms with
                          | None => BOk PNil
                          | Some x => match reading ps x with Some p => BOk p | None => BErr end
                          end) decl acc = Some m ->
    In (k, ps) decl -> assoc k ms = Some x -> reading ps x = Some p -> assoc k m = Some p.
  Proof.
    induction decl as [|[k0 ps0] decl IH]; intros acc m k ps x p Hnd Hl Hin Hx Hp; [destruct Hin|].
    simpl in Hnd. inversion Hnd as [|? ? Hnotin Hnd']; subst.
    cbn [obj_loop] in Hl. destruct Hin as [E|Hin].
    - inversion E; subst k0 ps0. rewrite Hx, Hp in Hl.
      assert (Hkeep : forall d a m', ~ In k (map fst d) ->
                obj_loop (fun k ps => match assoc k ms with
                                      | None => BOk PNil
                                      | Some x => match reading ps x with Some p => BOk p | None => BErr end
                                      end) d a = Some m' -> assoc k a = Some p -> assoc k m' = Some p).
      { clear. induction d as [|[k1 ps1] d IHd]; intros a m' Hni Hl Ha; [inversion Hl; subst; exact Ha|].
        cbn [obj_loop] in Hl. simpl in Hni.
        assert (Hne : k <> k1) by (intros ->; apply Hni; now left).
        assert (Hni' : ~ In k (map fst d)) by (intros H; apply Hni; now right).
        destruct (assoc k1 ms) as [x1|].
        - destruct (reading ps1 x1) as [p1|]; [|discriminate].
          destruct p1; try (apply (IHd _ _ Hni' Hl); rewrite assoc_upd_other by exact Hne; exact Ha).
          apply (IHd _ _ Hni' Hl Ha).
        - apply (IHd _ _ Hni' Hl Ha). }
      pose proof (reading_not_nil parse_int64 parse_int32 parse_float _ _ _ Hp) as Hnn.
      destruct p; try congruence; apply (Hkeep decl _ m Hnotin Hl); apply assoc_upd_same.
    - destruct (assoc k0 ms) as [x0|].
      + destruct (reading ps0 x0) as [p0|]; [|discriminate].
        destruct p0; eapply IH; eauto.
      + eapply IH; eauto.
  Qed.

  (* parsePrimitive never yields an object *)
  Lemma parse_case_not_po raw fmt typ l : parse_case parse_int64 parse_int32 parse_float raw fmt typ <> PROk (PO l).
  Proof.
    unfold parse_case. repeat match goal with |- context [if ?c then _ else _] => destruct c end;
      repeat match goal with |- context [match ?o with Some _ => _ | None => _ end] => destruct o end; discriminate.
  Qed.
  Lemma parse_types_not_po raw fmt : forall types last l, last <> PROk (PO l) ->
    parse_types parse_int64 parse_int32 parse_float raw fmt types last <> PROk (PO l).
  Proof.
    induction types as [|t r IH]; intros last l Hl; [exact Hl|]. cbn [parse_types].
    destruct (parse_case parse_int64 parse_int32 parse_float raw fmt t) as [v|e] eqn:E.
    - intros H. inversion H; subst. apply (parse_case_not_po raw fmt t l E).
    - apply IH. discriminate.
  Qed.
  Lemma parse_primitive_not_po raw c l : parse_primitive parse_int64 parse_int32 parse_float raw c <> PROk (PO l).
  Proof.
    unfold parse_primitive. destruct (String.eqb raw ""); [discriminate|]. apply parse_types_not_po. discriminate.
  Qed.

  Lemma obj_loop_ok (ms : list (string * dval)) : forall (decl : list (string * dsch)) acc m k ps x,
    obj_loop (fun k ps => match assoc k ms with
                          | None => BOk PNil
                          | Some x => match reading ps x with Some p => BOk p | None => BErr end
                          end) decl acc = Some m ->
    In (k, ps) decl -> assoc k ms = Some x -> exists p, reading ps x = Some p.
  Proof.
    induction decl as [|[k0 ps0] decl IH]; intros acc m k ps x Hl Hin Hx; [destruct Hin|].
    cbn [obj_loop] in Hl. destruct Hin as [E|Hin].
    - inversion E; subst. rewrite Hx in Hl. destruct (reading ps x) as [p|]; [eauto|discriminate].
    - destruct (assoc k0 ms) as [x0|].
      + destruct (reading ps0 x0) as [p0|]; [|discriminate]. destruct p0; eapply IH; eauto.
      + eapply IH; eauto.
  Qed.

  Lemma ser_obj_in : forall ms p pt, In pt (ser_obj p ms) -> exists k x, In (k, x) ms /\ In pt (ser (p ++ [k]) x).
  Proof.
    induction ms as [|[k x] ms IH]; intros p pt Hin; [destruct Hin|].
    rewrite ser_obj_cons in Hin. apply in_app_or in Hin. destruct Hin as [Hin|Hin].
    - exists k, x. split; [now left|exact Hin].
    - destruct (IH p pt Hin) as (k' & x' & H1 & H2). exists k', x'. split; [now right|exact H2].
  Qed.

  Lemma assoc_in_nodup {A} (l : list (string * A)) k x : NoDup (map fst l) -> In (k, x) l -> assoc k l = Some x.
  Proof.
    induction l as [|[k' x'] l IH]; intros Hnd Hin; [destruct Hin|].
    simpl in Hnd. inversion Hnd as [|? ? Hni Hnd']; subst. simpl. destruct Hin as [E|Hin].
    - inversion E; subst. now rewrite String.eqb_refl.
    - destruct (String.eqb_spec k k') as [->|_]; [|now apply IH].
      exfalso. apply Hni. change k' with (fst (k', x)). now apply in_map.
  Qed.

  (* every path of the serialisation leads into the decoded object *)
  Theorem paths_found : forall s v p, reading s v = Some p -> declared_all s v -> wfv v ->
    match v, p with
    | VObj ms, PO m => forall pt, In pt (ser [] v) -> deep_get_v m (fst pt) = true
    | _, _ => True
    end.
  Proof.
    induction s as [c|it IH|decl IHd|decl a IHd IHa] using dsch_ind'; intros v p Hr Hd Hw.
    - destruct v; try exact I. cbn [DeepSpec.reading] in Hr. discriminate.
    - destruct v; try exact I. cbn [DeepSpec.reading] in Hr. discriminate.
    - destruct v as [| |ms]; try exact I. cbn [DeepSpec.reading] in Hr.
      destruct (obj_loop _ decl []) as [m|] eqn:El; cbn in Hr; [|discriminate]. inversion Hr; subst p.
      intros pt Hin. rewrite ser_obj_eq in Hin. destruct (ser_obj_in ms [] pt Hin) as (k & x & Hkx & Hin').
      change ([] ++ [k]) with [k] in Hin'. rewrite ser_cons_path in Hin'. unfold under in Hin'.
      apply in_map_iff in Hin'. destruct Hin' as (pt0 & <- & Hin0). cbn [fst deep_get_v].
      rewrite wfv_obj in Hw. destruct Hw as (_ & Hndm & Hwm).
      cbn [declared_all] in Hd. destruct Hd as (Hndd & Hgo & Hsub).
      assert (Hax : assoc k ms = Some x) by now apply assoc_in_nodup.
      assert (Hkd : In k (map fst decl)) by (apply Hsub; change k with (fst (k, x)); now apply in_map).
      apply in_map_iff in Hkd. destruct Hkd as ([k' ps] & Ek & Hps). simpl in Ek. subst k'.
      destruct (obj_loop_ok ms decl [] m k ps x El Hps Hax) as [pk Hpk].
      rewrite (obj_loop_assoc ms decl [] m k ps x pk Hndd El Hps Hax Hpk).
      destruct pk; try reflexivity.
      (* the member is an object itself: go on below it *)
      rewrite Forall_forall in IHd. specialize (IHd (k, ps) Hps x (PO l) Hpk).
      assert (Hdx : declared_all ps x).
      { clear - Hgo Hps Hax. induction decl as [|[k1 ps1] decl IHl]; [destruct Hps|].
        destruct Hgo as [H1 H2]. destruct Hps as [E|Hps]; [inversion E; subst; now rewrite Hax in H1|auto]. }
      assert (Hwx : wfv x).
      { clear - Hwm Hkx. induction ms as [|[k1 x1] ms IHm]; [destruct Hkx|].
        destruct Hwm as [H1 H2]. destruct Hkx as [E|Hkx]; [inversion E; subst; exact H1|auto]. }
      simpl in IHd. specialize (IHd Hdx Hwx).
      destruct x as [t0|items|ms'].
      + exfalso. destruct ps as [c'|it'|d' [a'|]]; cbn [DeepSpec.reading] in Hpk; try discriminate Hpk.
        destruct (parse_primitive parse_int64 parse_int32 parse_float t0 c') as [v|e] eqn:Epp; [|discriminate Hpk].
        destruct v; try discriminate Hpk. inversion Hpk; subst. apply (parse_primitive_not_po t0 c' l Epp).
      + exfalso. destruct ps as [c'|it'|d' [a'|]]; cbn [DeepSpec.reading] in Hpk; try discriminate Hpk.
        destruct items as [|x0 l0]; [discriminate Hpk|]. destruct (all_some (map (reading it') (x0 :: l0))); cbn in Hpk; discriminate Hpk.
      + apply IHd. exact Hin0.
    - destruct v as [| |ms]; try exact I. cbn [declared_all] in Hd. destruct Hd.
  Qed.
End FOUND.
