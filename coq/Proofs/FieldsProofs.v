(* The property the generator keeps for a JSON name is the field encoding/json writes under that
   name, whenever encoding/json writes one - for every embedding tree and whichever correct sorting
   algorithm orders the fields. *)
From Coq Require Import List NArith Bool Arith Lia Sorting.Permutation Sorting.Sorted.
From KV Require Import Model.Fields.
Import ListNotations.
Local Open Scope list_scope.

Definition key_le (a b : entry) : Prop := key_leb a b = true.

Lemma key_leb_total a b : key_leb a b = false -> key_leb b a = true.
Proof.
  unfold key_leb. intros H.
  apply orb_false_iff in H. destruct H as [H1 H2].
  apply N.ltb_ge in H1.
  destruct (N.eqb (e_name a) (e_name b)) eqn:E.
  - apply N.eqb_eq in E. cbn [andb] in H2. apply Nat.leb_gt in H2.
    apply orb_true_iff. right. apply andb_true_iff. split.
    + apply N.eqb_eq. symmetry. exact E.
    + apply Nat.leb_le. lia.
  - apply N.eqb_neq in E. apply orb_true_iff. left. apply N.ltb_lt. lia.
Qed.

Lemma insert_perm x l : Permutation (insert x l) (x :: l).
Proof.
  induction l as [|y r IH]; cbn [insert]; [apply Permutation_refl|].
  destruct (key_leb x y); [apply Permutation_refl|].
  eapply Permutation_trans; [apply perm_skip; exact IH | apply perm_swap].
Qed.

Lemma isort_perm l : Permutation (isort l) l.
Proof.
  induction l as [|x r IH]; cbn [isort]; [apply perm_nil|].
  eapply Permutation_trans; [apply insert_perm | apply perm_skip; exact IH].
Qed.

Lemma key_le_trans a b c : key_le a b -> key_le b c -> key_le a c.
Proof.
  unfold key_le, key_leb. intros H1 H2.
  apply orb_true_iff in H1. apply orb_true_iff in H2. apply orb_true_iff.
  destruct H1 as [H1|H1]; destruct H2 as [H2|H2].
  - left. apply N.ltb_lt in H1. apply N.ltb_lt in H2. apply N.ltb_lt. lia.
  - left. apply N.ltb_lt in H1. apply andb_true_iff in H2. destruct H2 as [H2 _]. apply N.eqb_eq in H2.
    apply N.ltb_lt. lia.
  - left. apply N.ltb_lt in H2. apply andb_true_iff in H1. destruct H1 as [H1 _]. apply N.eqb_eq in H1.
    apply N.ltb_lt. lia.
  - right. apply andb_true_iff in H1. apply andb_true_iff in H2.
    destruct H1 as [H1 H1']. destruct H2 as [H2 H2'].
    apply N.eqb_eq in H1. apply N.eqb_eq in H2. apply Nat.leb_le in H1'. apply Nat.leb_le in H2'.
    apply andb_true_iff. split; [apply N.eqb_eq; congruence | apply Nat.leb_le; lia].
Qed.

Lemma insert_sorted x l : StronglySorted key_le l -> StronglySorted key_le (insert x l).
Proof.
  induction l as [|y r IH]; cbn [insert]; intros Hs.
  - constructor; [constructor | constructor].
  - inversion Hs as [|? ? Hr Hall]; subst.
    destruct (key_leb x y) eqn:E.
    + constructor; [exact Hs|].
      constructor; [exact E|].
      eapply Forall_impl; [|exact Hall]. intros z Hz. eapply key_le_trans; [exact E | exact Hz].
    + constructor; [apply IH; exact Hr|].
      eapply Permutation_Forall; [apply Permutation_sym; apply insert_perm|].
      constructor; [apply key_leb_total; exact E | exact Hall].
Qed.

Lemma isort_sorted l : StronglySorted key_le (isort l).
Proof. induction l as [|x r IH]; cbn [isort]; [constructor | apply insert_sorted; exact IH]. Qed.

Lemma perm_filter_length (f : entry -> bool) l l' :
  Permutation l l' -> length (filter f l) = length (filter f l').
Proof.
  induction 1 as [|x l l' _ IH|x y l|l l' l'' _ IH1 _ IH2]; cbn [filter].
  - reflexivity.
  - destruct (f x); cbn [length]; congruence.
  - destruct (f x); destruct (f y); reflexivity.
  - congruence.
Qed.

(* e is the one field of name n at or above its own depth: the dominant field of encoding/json *)
Definition passes (n : N) (e x : entry) : bool := N.eqb (e_name x) n && Nat.leb (e_depth x) (e_depth e).
Definition dominates (n : N) (e : entry) (l : list entry) : Prop :=
  e_name e = n /\ In e l /\ length (filter (passes n e) l) = 1.

Lemma passes_self n e : e_name e = n -> passes n e e = true.
Proof. intros H. unfold passes. rewrite H, N.eqb_refl, Nat.leb_refl. reflexivity. Qed.

Lemma dominates_perm n e l l' : Permutation l l' -> dominates n e l -> dominates n e l'.
Proof.
  intros Hp [Hn [Hi Hc]]. split; [exact Hn|]. split.
  - eapply Permutation_in; [exact Hp | exact Hi].
  - rewrite <- (perm_filter_length _ _ _ Hp). exact Hc.
Qed.

Definition pick_step (n : N) (acc : option N) (e : entry) : option N :=
  if N.eqb (e_name e) n then Some (e_ty e) else acc.

Lemma pick_none_named n l acc :
  (forall y, In y l -> N.eqb (e_name y) n = false) -> fold_left (pick_step n) l acc = acc.
Proof.
  revert acc. induction l as [|y r IH]; intros acc H; cbn [fold_left]; [reflexivity|].
  unfold pick_step at 2. rewrite (H y (or_introl eq_refl)). apply IH. intros z Hz. apply H. right. exact Hz.
Qed.

Lemma filter_length_zero (f : entry -> bool) l : length (filter f l) = 0 -> forall y, In y l -> f y = false.
Proof.
  intros H y Hy. destruct (f y) eqn:E; [|reflexivity].
  assert (Hin : In y (filter f l)) by (apply filter_In; split; assumption).
  apply length_zero_iff_nil in H. rewrite H in Hin. destruct Hin.
Qed.

Lemma pick_sorted n e l :
  StronglySorted key_le l -> dominates n e l -> forall acc, fold_left (pick_step n) l acc = Some (e_ty e).
Proof.
  induction l as [|x r IH]; intros Hs [Hn [Hi Hc]] acc.
  - destruct Hi.
  - inversion Hs as [|? ? Hr Hall]; subst. cbn [fold_left]. cbn [filter] in Hc.
    destruct (passes (e_name e) e x) eqn:Ex.
    + (* x passes: it is e, and nothing after it carries the name *)
      cbn [length] in Hc. assert (Hz : length (filter (passes (e_name e) e) r) = 0) by lia.
      assert (Hxe : x = e).
      { destruct Hi as [Hi|Hi]; [exact Hi|].
        pose proof (filter_length_zero _ _ Hz e Hi) as Hf. rewrite passes_self in Hf by reflexivity. discriminate Hf. }
      subst x. unfold pick_step at 2. rewrite N.eqb_refl.
      apply pick_none_named. intros y Hy.
      destruct (N.eqb (e_name y) (e_name e)) eqn:En; [|reflexivity].
      pose proof (filter_length_zero _ _ Hz y Hy) as Hf. unfold passes in Hf. rewrite En in Hf. cbn [andb] in Hf.
      rewrite Forall_forall in Hall. pose proof (Hall y Hy) as Hk. unfold key_le, key_leb in Hk.
      apply N.eqb_eq in En. rewrite En in Hk. rewrite N.ltb_irrefl, N.eqb_refl in Hk. cbn [orb andb] in Hk.
      rewrite Hk in Hf. discriminate Hf.
    + (* x does not pass: e is further on *)
      assert (Hir : In e r).
      { destruct Hi as [Hi|Hi]; [|exact Hi]. subst x. rewrite passes_self in Ex by reflexivity. discriminate Ex. }
      apply IH; [exact Hr|]. split; [reflexivity|]. split; [exact Hir | exact Hc].
Qed.

(* whichever algorithm sorts the fields: a sorted permutation of the collected fields keeps the dominant one *)
Theorem sorted_fields_keep_dominant fs n e l :
  Permutation l (flatten fs) -> StronglySorted key_le l -> dominates n e (flatten fs) -> pick n l = Some (e_ty e).
Proof.
  intros Hp Hs Hd. unfold pick.
  change (fun acc e0 => if N.eqb (e_name e0) n then Some (e_ty e0) else acc) with (pick_step n).
  apply pick_sorted; [exact Hs|]. eapply dominates_perm; [apply Permutation_sym; exact Hp | exact Hd].
Qed.

Theorem gen_property_dominant fs n e : dominates n e (flatten fs) -> gen_property fs n = Some (e_ty e).
Proof. intros Hd. unfold gen_property. eapply sorted_fields_keep_dominant; [apply isort_perm | apply isort_sorted | exact Hd]. Qed.

(* ---- the executable rule of encoding/json implies dominance ---- *)
Lemma fold_min_le_init (r : list entry) init : fold_right (fun x m => Nat.min (e_depth x) m) init r <= init.
Proof. induction r as [|y r IH]; cbn [fold_right]; lia. Qed.
Lemma fold_min_le_in (r : list entry) init x : In x r -> fold_right (fun x m => Nat.min (e_depth x) m) init r <= e_depth x.
Proof.
  induction r as [|y r IH]; intros H; [destruct H|]. cbn [fold_right].
  destruct H as [H|H]; [subst y; lia | specialize (IH H); lia].
Qed.
Lemma least_depth_le l x : In x l -> least_depth l <= e_depth x.
Proof.
  destruct l as [|y r]; intros H; [destruct H|]. unfold least_depth.
  destruct H as [H|H].
  - subst y. cbn [fold_right]. pose proof (fold_min_le_init r (e_depth x)). lia.
  - apply fold_min_le_in. right. exact H.
Qed.

Lemma filter_filter (f g : entry -> bool) l : filter g (filter f l) = filter (fun x => f x && g x) l.
Proof.
  induction l as [|x r IH]; cbn [filter]; [reflexivity|].
  destruct (f x); cbn [andb filter]; [destruct (g x); congruence | exact IH].
Qed.

Theorem json_field_dominates fs n t :
  json_field fs n = Some (Some t) -> exists e, e_ty e = t /\ dominates n e (flatten fs).
Proof.
  unfold json_field. set (c := named n (flatten fs)).
  destruct (filter (fun e => Nat.eqb (e_depth e) (least_depth c)) c) as [|e [|e' rest]] eqn:F; intros H; try discriminate H.
  injection H as Ht. exists e. split; [exact Ht|].
  assert (He : In e (filter (fun e => Nat.eqb (e_depth e) (least_depth c)) c)) by (rewrite F; left; reflexivity).
  apply filter_In in He. destruct He as [Hec Hed]. apply Nat.eqb_eq in Hed.
  unfold c, named in Hec. apply filter_In in Hec. destruct Hec as [Hef Hen]. apply N.eqb_eq in Hen.
  split; [exact Hen|]. split; [exact Hef|].
  assert (Heq : filter (passes n e) (flatten fs) = filter (fun x => N.eqb (e_name x) n && Nat.eqb (e_depth x) (least_depth c)) (flatten fs)).
  { apply filter_ext_in. intros x Hx. unfold passes.
    destruct (N.eqb (e_name x) n) eqn:En; cbn [andb]; [|reflexivity].
    assert (Hxc : In x c) by (unfold c, named; apply filter_In; split; assumption).
    pose proof (least_depth_le c x Hxc) as Hl.
    destruct (Nat.eqb (e_depth x) (least_depth c)) eqn:E2.
    - apply Nat.eqb_eq in E2. apply Nat.leb_le. lia.
    - apply Nat.eqb_neq in E2. apply Nat.leb_gt. lia. }
  rewrite Heq. rewrite <- (filter_filter (fun x => N.eqb (e_name x) n) (fun x => Nat.eqb (e_depth x) (least_depth c)) (flatten fs)).
  fold (named n (flatten fs)). fold c. rewrite F. reflexivity.
Qed.

(* the statement of the property for struct fields: what encoding/json writes under a name is what the schema describes *)
Theorem gen_property_follows_json fs n t : json_field fs n = Some (Some t) -> gen_property fs n = Some t.
Proof.
  intros H. destruct (json_field_dominates fs n t H) as [e [Ht Hd]]. rewrite <- Ht. apply gen_property_dominant. exact Hd.
Qed.

(* a name no field carries gets no property *)
Theorem gen_property_absent fs n : named n (flatten fs) = [] -> gen_property fs n = None.
Proof.
  intros H. unfold gen_property, pick.
  change (fun acc e0 => if N.eqb (e_name e0) n then Some (e_ty e0) else acc) with (pick_step n).
  apply pick_none_named. intros y Hy.
  destruct (N.eqb (e_name y) n) eqn:E; [|reflexivity].
  assert (Hin : In y (named n (flatten fs))).
  { unfold named. apply filter_In. split; [|exact E]. eapply Permutation_in; [apply isort_perm | exact Hy]. }
  rewrite H in Hin. destruct Hin.
Qed.
