(* C10: the stages composed - one operation (its parameters in effect and its request body
   declaration) against one request: no outcome of the composition is a panic. *)
From KV Require Import Model.Base Model.Json Model.Schema Model.Request Model.Lookup Model.ParamCodec Model.Body Model.Response
     Proofs.SchemaProofs Proofs.SchemaMain Proofs.C10Proofs.
Local Open Scope list_scope.

Record opdef := mkOp {
  op_params : list pdef;                                   (* path-item and operation parameters in effect *)
  op_body : option (bool * list (string * media))          (* required, content map *)
}.
Record reqd := mkReq { rq_frag : fragment; rq_ct : string; rq_raw : string; rq_parsed : option json }.
Inductive tout := TAccepted | TRejected | TPanicked.

Section COMPOSE.
  Variable pi64 pi32 : string -> option Z.
  Variable pf : string -> option float.
  Variable rc : string -> bool.
  Variable rm : string -> string -> bool.
  Variable fo : string -> string -> json -> option bool.

  Definition stage_params (multi : bool) (op : opdef) (r : reqd) : list vres :=
    map (fun p => validate_param pi64 pi32 pf rc rm fo multi p (rq_frag r)) (op_params op).
  Definition stage_body (o : bopts) (op : opdef) (r : reqd) : bres :=
    match op_body op with
    | None => BOk
    | Some (required, content) => validate_body rc rm fo o required content (rq_ct r) (rq_raw r) (rq_parsed r)
    end.
  Definition validate_request_stages (multi : bool) (o : bopts) (op : opdef) (r : reqd) : tout :=
    let ps := stage_params multi op r in
    let b := stage_body o op r in
    if existsb (is_vpanic) ps || is_bpanic b then TPanicked
    else if forallb (fun v => match v with VOk => true | _ => false end) ps && match b with BOk => true | _ => false end
         then TAccepted else TRejected.

  Theorem request_stages_never_panic multi o op r :
    Forall (fun p => items_declared (pd_schema p) = true) (op_params op) ->
    validate_request_stages multi o op r <> TPanicked.
  Proof.
    intros Hit. unfold validate_request_stages.
    assert (Hp : existsb is_vpanic (stage_params multi op r) = false).
    { unfold stage_params. induction (op_params op) as [|p ps IH]; [reflexivity|].
      inversion Hit as [|? ? Hp Hps]; subst. cbn [map existsb].
      rewrite (validate_param_no_panic pi64 pi32 pf rc rm fo multi p (rq_frag r) Hp). cbn [orb]. now apply IH. }
    assert (Hb : is_bpanic (stage_body o op r) = false).
    { unfold stage_body. destruct (op_body op) as [[req content]|]; [apply validate_body_no_panic|reflexivity]. }
    rewrite Hp, Hb. cbn [orb].
    destruct (forallb _ _ && _); discriminate.
  Qed.
End COMPOSE.
