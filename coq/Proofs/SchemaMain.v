(* Main theorem about Model/Schema.visit: under the named guards, in every mode,
   visit never panics and accepts exactly the values satisfying Spec/SchemaSpec.satb. *)
From KV Require Import Model.Base Model.Json Model.Schema Spec.SchemaSpec Spec.SchemaGuards Spec.SchemaGuardsRW Proofs.SchemaProofs.
From Coq Require Import Btauto.
Local Open Scope list_scope.

Lemma incl_app_l3 {A} (a b c : list A) : incl b (a ++ b ++ c).
Proof. intros x Hx. apply in_or_app. right. apply in_or_app. now left. Qed.

Section MULTS.
  Variables (c : score) (n : option schema) (one any all : list schema) (it : option schema)
            (props : list (string * schema)) (ap : option schema).
  Let S := Sch c n one any all it props ap.
  Lemma mults_not x : n = Some x -> incl (mults_of x) (mults_of S).
  Proof. intros -> y Hy. cbn [mults_of S]. apply in_or_app; right. apply in_or_app; now left. Qed.
  Lemma mults_one x : In x one -> incl (mults_of x) (mults_of S).
  Proof. intros Hin y Hy. cbn [mults_of S]. do 2 (apply in_or_app; right). apply in_or_app; left.
         apply in_flat_map; eauto. Qed.
  Lemma mults_any x : In x any -> incl (mults_of x) (mults_of S).
  Proof. intros Hin y Hy. cbn [mults_of S]. do 3 (apply in_or_app; right). apply in_or_app; left.
         apply in_flat_map; eauto. Qed.
  Lemma mults_all x : In x all -> incl (mults_of x) (mults_of S).
  Proof. intros Hin y Hy. cbn [mults_of S]. do 4 (apply in_or_app; right). apply in_or_app; left.
         apply in_flat_map; eauto. Qed.
  Lemma mults_items x : it = Some x -> incl (mults_of x) (mults_of S).
  Proof. intros -> y Hy. cbn [mults_of S]. do 5 (apply in_or_app; right). apply in_or_app; now left. Qed.
  Lemma mults_props k x : In (k, x) props -> incl (mults_of x) (mults_of S).
  Proof. intros Hin y Hy. cbn [mults_of S]. do 6 (apply in_or_app; right). apply in_or_app; left.
         apply in_flat_map. exists (k, x); auto. Qed.
  Lemma mults_ap x : ap = Some x -> incl (mults_of x) (mults_of S).
  Proof. intros -> y Hy. cbn [mults_of S]. do 7 (apply in_or_app; right). exact Hy. Qed.
  Lemma mults_here m : c_mult c = Some m -> In m (mults_of S).
  Proof. intros H. cbn [mults_of S]. rewrite H. now left. Qed.
End MULTS.

Lemma nums_arr l x : In x l -> incl (nums_of x) (nums_of (JArr l)).
Proof. intros Hin. cbn [nums_of]. now apply incl_flat_map. Qed.
Lemma nums_obj l k x : In (k, x) l -> incl (nums_of x) (nums_of (JObj l)).
Proof. intros Hin y Hy. cbn [nums_of]. apply in_flat_map. exists (k, x); auto. Qed.

Lemma core_empty_fields c : core_empty c = true ->
  c_types c = None /\ c_enum c = [] /\ c_unique c = false /\ c_exMin c = false /\ c_exMax c = false /\
  c_min c = None /\ c_max c = None /\ c_mult c = None /\ c_minLen c = 0%N /\ c_maxLen c = None /\
  c_pattern c = "" /\ c_minItems c = 0%N /\ c_maxItems c = None /\ c_required c = [] /\
  c_minProps c = 0%N /\ c_maxProps c = None /\ c_nullable c = false /\ c_format c = "".
Proof.
  unfold core_empty. intros H. repeat (apply andb_prop in H as [H ?]).
  repeat match goal with
  | H : is_none ?o = true |- _ => destruct o; [discriminate H|clear H]
  | H : is_nil ?o = true |- _ => destruct o; [clear H|discriminate H]
  | H : negb ?b = true |- _ => apply Bool.negb_true_iff in H
  | H : N.eqb _ _ = true |- _ => apply N.eqb_eq in H
  | H : String.eqb _ _ = true |- _ => apply String.eqb_eq in H
  end.
  repeat split; assumption.
Qed.

Section MAIN.
  Variable rc : string -> bool.
  Variable rm : string -> string -> bool.
  Variable fo : string -> string -> json -> option bool.
  Variable st : settings.

  Notation V := (visit rc rm fo st).
  Notation md := (md_of st).
  Notation Sat := (satb rc rm fo md).
  Notation g_rw_here := (g_rw_here rc rm fo md).
  Notation here_ok2 := (here_ok2 rc rm fo md (st_usenum st)).
  Notation g_all2 := (g_all2 rc rm fo md (st_usenum st)).

  Definition good (s : schema) : Prop :=
    forall v, g_all2 s = true -> vg v = true ->
              is_panic (V s v) = false /\ accepts (V s v) = Sat s v.

  Lemma goods_list (l : list schema) v :
    Forall good l -> forallb g_all2 l = true -> vg v = true ->
    forallb np (map (fun x => V x v) l) = true /\
    (forall x, In x l -> accepts (V x v) = Sat x v).
  Proof.
    induction l as [|x l IH]; intros HF Hg Hv; [split; [reflexivity|intros ? []]|].
    inversion HF as [|? ? Hx Hl]; subst. cbn [forallb] in Hg. apply andb_prop in Hg as [Hgx Hgl].
    destruct (Hx v Hgx Hv) as [Hp Ha].
    destruct (IH Hl Hgl Hv) as [Hp' Ha'].
    cbn [map forallb]. split.
    - unfold np at 1. now rewrite Hp, Hp'.
    - intros y [<-|Hy]; auto.
  Qed.

  Lemma satb_plain_empty c v :
    core_empty c = true -> match c_apHas c with Some false => false | _ => true end = true ->
    is_null v = false -> Sat (Sch c None [] [] [] None [] None) v = true.
  Proof.
    intros Hc Hap Hn. destruct (core_empty_fields c Hc) as
      (Ht & He & Hu & Hx1 & Hx2 & Hmi & Hma & Hmu & Hml & HMl & Hp & Hmit & HMit & Hr & Hmp & HMp & Hnu & Hfm).
    destruct v; try discriminate Hn; cbn [satb is_nil orb andb negb forallb map];
      unfold num_ok, str_ok, arr_ok, obj_ok, permits, fmt_pass; rewrite ?Hfm;
      rewrite ?Ht, ?He, ?Hu, ?Hx1, ?Hx2, ?Hmi, ?Hma, ?Hmu, ?Hml, ?HMl, ?Hp, ?Hmit, ?HMit, ?Hr, ?Hmp, ?HMp;
      assert (H0 : forall n, N.leb 0 n = true) by (intros; apply N.leb_le, N.le_0_l);
      cbn; rewrite ?H0; cbn; try reflexivity.
    apply forallb_forall. intros kv _.
    destruct (c_apHas c) as [[|]|]; try discriminate Hap; reflexivity.
  Qed.


  Lemma comps_part c v (rn : option outcome) (r1 r2 r3 : list outcome) T :
    opt_all np rn = true -> forallb np r1 = true -> forallb np r2 = true -> forallb np r3 = true ->
    is_panic T = false ->
    let X := seq (not_step st c v rn) (seq (one_step st c v r1) (seq (any_step st c v r2)
             (seq (all_step st c v r3) T))) in
    is_panic X = false /\
    accepts X = (match rn with Some o => negb (accepts o) | None => true end) &&
                (is_nil r1 || Nat.eqb (count_true (map accepts r1)) 1) &&
                (is_nil r2 || existsb accepts r2) && forallb accepts r3 && accepts T.
  Proof.
    intros Hn H1 H2 H3 HT X. subst X. split.
    - repeat apply seq_nopanic; auto using not_step_nopanic, one_step_nopanic, any_step_nopanic, all_step_nopanic.
    - rewrite !seq_accepts, not_step_accepts, one_step_accepts, any_step_accepts, all_step_accepts by assumption.
      now rewrite !Bool.andb_assoc.
  Qed.

  Lemma assoc_r_props l (props : list (string * schema)) k :
    assoc k (flat_map (fun kp : string * schema =>
                         match assoc (fst kp) l with
                         | Some x => [(fst kp, V (snd kp) x)]
                         | None => []
                         end) props)
    = match assoc k props with
      | Some p => match assoc k l with Some x => Some (V p x) | None => None end
      | None => None
      end.
  Proof.
    induction props as [|[k' p'] props IH]; [reflexivity|].
    cbn [flat_map fst snd assoc].
    destruct (String.eqb_spec k k') as [->|Hne].
    - destruct (assoc k' l) as [x|]; cbn [app assoc].
      + now rewrite String.eqb_refl.
      + rewrite IH. destruct (assoc k' props); reflexivity.
    - destruct (assoc k' l) as [x|]; cbn [app assoc]; [|exact IH].
      destruct (String.eqb_spec k k'); [contradiction|exact IH].
  Qed.

  Lemma assoc_r_ap a (l : list (string * json)) k :
    assoc k (map (fun kv : string * json => (fst kv, V a (snd kv))) l) = option_map (V a) (assoc k l).
  Proof.
    induction l as [|[k' x] l IH]; [reflexivity|]. cbn [map fst snd assoc].
    destruct (String.eqb k k'); [reflexivity|exact IH].
  Qed.

  Lemma obj_link c l (props : list (string * schema)) ap :
    nodup_str (map fst props) = true -> nodup_str (map fst l) = true ->
    (forall k p x, In (k, p) props -> In (k, x) l -> accepts (V p x) = Sat p x) ->
    (forall a k x, ap = Some a -> In (k, x) l -> accepts (V a x) = Sat a x) ->
    (forall k p, In (k, p) props -> forbidden md (core_of p) = true -> Sat p JNull = false) ->
    forallb (fun kp => negb (pnn l (fst kp) && forbidden md (snd kp)))
            (map (fun kp : string * schema => (fst kp, core_of (snd kp))) props) &&
    forallb (key_ok c (negb (is_none ap))
               (flat_map (fun kp : string * schema =>
                            match assoc (fst kp) l with
                            | Some x => [(fst kp, V (snd kp) x)]
                            | None => []
                            end) props)
               match ap with
               | Some a => map (fun kv : string * json => (fst kv, V a (snd kv))) l
               | None => []
               end) l
    = forallb (fun kp => match assoc (fst kp) l with
                         | Some x => negb (forbidden md (core_of (snd kp))) && Sat (snd kp) x
                         | None => true
                         end) props &&
      forallb (fun kv => str_in (fst kv) (map fst props) ||
                         (match c_apHas c with Some false => false | _ => true end &&
                          match ap with Some a => Sat a (snd kv) | None => true end)) l.
  Proof.
    intros Hnp Hnl Hp Ha Hg.
    rewrite forallb_map'. cbn [fst snd].
    apply Bool.eq_iff_eq_true. rewrite !Bool.andb_true_iff, !forallb_forall. split.
    - intros [R H]. split.
      + intros [k p] Hin. cbn [fst snd]. destruct (assoc k l) as [x|] eqn:Hkl; [|reflexivity].
        pose proof (assoc_in _ _ _ Hkl) as Hinl. specialize (H _ Hinl).
        unfold key_ok in H. cbn [fst] in H. rewrite assoc_r_props in H.
        rewrite (nodup_assoc _ _ _ Hnp Hin), Hkl in H. rewrite (Hp _ _ _ Hin Hinl) in H.
        rewrite H, Bool.andb_true_r.
        destruct (forbidden md (core_of p)) eqn:Hf; [|reflexivity]. exfalso.
        specialize (R _ Hin). cbn [fst snd] in R. unfold pnn in R. rewrite Hkl, Hf in R.
        rewrite Bool.andb_true_r in R. apply Bool.negb_true_iff, Bool.negb_false_iff in R.
        destruct x; try discriminate R. rewrite (Hg _ _ Hin Hf) in H. discriminate.
      + intros [k x] Hin. cbn [fst snd]. specialize (H _ Hin).
        unfold key_ok in H. cbn [fst] in H. rewrite assoc_r_props in H.
        rewrite assoc_none_str_in.
        destruct (assoc k props) as [p|]; [reflexivity|]. cbn [orb].
        destruct (c_apHas c) as [[|]|]; try discriminate H; cbn [andb];
          (destruct ap as [a|]; cbn [is_none negb] in H; [|reflexivity]);
          rewrite assoc_r_ap, (nodup_assoc _ _ _ Hnl Hin) in H; cbn [option_map] in H;
          now rewrite <- (Ha a k x eq_refl Hin).
    - intros [H1 H2]. split.
      + intros [k p] Hin. cbn [fst snd]. specialize (H1 _ Hin). cbn [fst snd] in H1. unfold pnn.
        destruct (assoc k l) as [x|]; [|reflexivity].
        apply andb_prop in H1 as [Hf _]. apply Bool.negb_true_iff in Hf. rewrite Hf.
        now rewrite Bool.andb_false_r.
      + intros [k x] Hin. unfold key_ok. cbn [fst]. rewrite assoc_r_props.
        destruct (assoc k props) as [p|] eqn:Hkp.
        * rewrite (nodup_assoc _ _ _ Hnl Hin).
          pose proof (assoc_in _ _ _ Hkp) as Hinp. specialize (H1 _ Hinp). cbn [fst snd] in H1.
          rewrite (nodup_assoc _ _ _ Hnl Hin) in H1. apply andb_prop in H1 as [_ H1].
          now rewrite (Hp _ _ _ Hinp Hin).
        * specialize (H2 _ Hin). cbn [fst snd] in H2. rewrite assoc_none_str_in, Hkp in H2. cbn [orb] in H2.
          destruct (c_apHas c) as [[|]|]; try discriminate H2; cbn [andb] in H2;
            (destruct ap as [a|]; cbn [is_none negb]; [|reflexivity]);
            rewrite assoc_r_ap, (nodup_assoc _ _ _ Hnl Hin); cbn [option_map];
            now rewrite (Ha a k x eq_refl Hin).
  Qed.

  Lemma obj_checks_nopanic c l props has_ap r_props r_ap :
    (forall k o, assoc k r_props = Some o -> is_panic o = false) ->
    (forall k o, assoc k r_ap = Some o -> is_panic o = false) ->
    forallb chk_nopanic (obj_checks st c l props has_ap r_props r_ap) = true.
  Proof.
    intros H1 H2. unfold obj_checks.
    assert (Hrw : forallb chk_nopanic (rw_chks st l props) = true).
    { unfold rw_chks. destruct (st_asreq st || st_asrep st); [|reflexivity].
      induction props as [|kp ps IH]; [reflexivity|]. cbn [flat_map]. rewrite forallb_app, IH, Bool.andb_true_r.
      repeat match goal with |- context [if ?b then _ else _] => destruct b end; reflexivity. }
    rewrite !forallb_app. rewrite Hrw. cbn [forallb app].
    repeat (apply andb_true_intro; split); try reflexivity.
    all: try (match goal with |- chk_nopanic (if ?b then _ else _) = true => destruct b; reflexivity end).
    all: try (match goal with |- chk_nopanic (match ?o with Some _ => _ | None => _ end) = true =>
                destruct o; [match goal with |- context [if ?b then _ else _] => destruct b end|]; reflexivity end).
    - rewrite forallb_map'. apply forallb_forall. intros [k x] _. unfold key_chk. cbn [fst].
      destruct (assoc k r_props) as [o|] eqn:E1.
      + specialize (H1 _ _ E1). destruct o; cbn in *; congruence.
      + destruct (c_apHas c) as [[|]|]; try reflexivity; (destruct has_ap; [|reflexivity]);
          (destruct (assoc k r_ap) as [o|] eqn:E2; [|reflexivity]);
          specialize (H2 _ _ E2); destruct o; cbn in *; congruence.
    - rewrite forallb_map'. apply forallb_forall. intros k _. unfold req_chk.
      destruct (assoc k l); [reflexivity|]. destruct (assoc k props); [|reflexivity].
      match goal with |- context [if ?b then _ else _] => destruct b end; reflexivity.
  Qed.

  Lemma g_all_unfold c n one any all it props ap :
    g_all2 (Sch c n one any all it props ap) =
    here_ok2 (Sch c n one any all it props ap) &&
    (opt_all g_all2 n && forallb g_all2 one && forallb g_all2 any && forallb g_all2 all &&
     opt_all g_all2 it && forallb (fun kp => g_all2 (snd kp)) props && opt_all g_all2 ap).
  Proof. reflexivity. Qed.

  Lemma count_true_ext (l : list schema) v :
    (forall x, In x l -> accepts (V x v) = Sat x v) ->
    count_true (map accepts (map (fun x => V x v) l)) = count_true (map (fun x => Sat x v) l).
  Proof. intros H. rewrite map_map. f_equal. apply map_ext_in. exact H. Qed.
  Lemma existsb_ext_V (l : list schema) v :
    (forall x, In x l -> accepts (V x v) = Sat x v) ->
    existsb accepts (map (fun x => V x v) l) = existsb (fun x => Sat x v) l.
  Proof.
    intros H. induction l as [|x l IH]; [reflexivity|]. cbn [map existsb].
    rewrite (H x (or_introl eq_refl)), IH; [reflexivity|]. intros y Hy. apply H. now right.
  Qed.
  Lemma forallb_ext_V (l : list schema) v :
    (forall x, In x l -> accepts (V x v) = Sat x v) ->
    forallb accepts (map (fun x => V x v) l) = forallb (fun x => Sat x v) l.
  Proof. intros H. rewrite forallb_map'. now apply forallb_ext_in. Qed.
  Lemma is_nil_map {A B} (f : A -> B) l : is_nil (map f l) = is_nil l.
  Proof. destruct l; reflexivity. Qed.

  Lemma main_visit : forall s, good s.
  Proof.
    apply schema_ind'. intros c n one any all it props ap Hn Hone Hany Hall Hit Hprops Hap.
    intros v Hg Hv.
    rewrite g_all_unfold in Hg. apply andb_prop in Hg as [Hhere Hsub].
    apply andb_prop in Hsub as [Hsub Hgap]. apply andb_prop in Hsub as [Hsub Hgprops].
    apply andb_prop in Hsub as [Hsub Hgit]. apply andb_prop in Hsub as [Hsub Hgall].
    apply andb_prop in Hsub as [Hsub Hgany]. apply andb_prop in Hsub as [Hgn Hgone].
    unfold here_ok2 in Hhere. apply andb_prop in Hhere as [Hhere Henum]. cbn [core_of] in Henum.
    apply andb_prop in Hhere as [Hhere Hrw].
    unfold here_ok in Hhere. cbn [core_of] in Hhere.
    apply andb_prop in Hhere as [Hhere Hnodup].
    apply andb_prop in Hhere as [Hhere Hsmall].
    rename Hhere into Hempty.
    set (S := Sch c n one any all it props ap) in *.
    (* sub-results of the compositions *)
    assert (An : opt_all np (option_map (fun x => V x v) n) = true /\
                 match n with Some x => accepts (V x v) = Sat x v | None => True end).
    { destruct n as [x|]; [|split; exact I || reflexivity]. cbn [optP opt_all option_map] in *.
      destruct (Hn v Hgn Hv) as [Hp Ha].
      split; [unfold np; now rewrite Hp|exact Ha]. }
    destruct An as [Anp Ana].
    destruct (goods_list one v Hone Hgone Hv) as [Onp Oa].
    destruct (goods_list any v Hany Hgany Hv) as [Ynp Ya].
    destruct (goods_list all v Hall Hgall Hv) as [Lnp La].
    unfold S. cbn [visit]. fold S.
    (* pre-check *)
    assert (Hfin : all_finite v = true).
    { unfold vg in Hv. apply andb_prop in Hv as [Hv _]. now apply andb_prop in Hv as [Hv _]. }
    destruct (pre_check c v) as [o|] eqn:Hpre.
    { destruct v; cbn [pre_check] in Hpre; try discriminate.
      - destruct (permits_null c) eqn:Hpn; [|discriminate]. injection Hpre as <-.
        split; [reflexivity|]. subst S. cbn [satb accepts]. now rewrite Hpn.
      - cbn [all_finite] in Hfin. apply andb_prop in Hfin as [F1 F2].
        apply Bool.negb_true_iff in F1, F2. now rewrite F1, F2 in Hpre. }
    assert (Hnull : is_null v = true -> permits_null c = false).
    { destruct v; cbn; try discriminate. cbn in Hpre. now destruct (permits_null c). }
    (* IsEmpty shortcut *)
    destruct (is_empty S) eqn:He.
    { unfold g_empty_here in Hempty. rewrite He in Hempty. cbn [negb orb] in Hempty.
      subst S. destruct n; try discriminate. destruct one; try discriminate. destruct any; try discriminate.
      destruct all; try discriminate. destruct it; try discriminate. destruct props; try discriminate.
      destruct ap; try discriminate.
      cbn [is_empty opt_all forallb] in He. rewrite !Bool.andb_true_r in He.
      apply andb_prop in He as [Hce Hah]. apply Bool.negb_true_iff in Hah.
      destruct (is_null v) eqn:Hnv.
      - unfold null_step. rewrite (Hnull eq_refl). split; [reflexivity|].
        destruct v; try discriminate. cbn [satb]. now rewrite (Hnull eq_refl).
      - split; [reflexivity|]. cbn [accepts]. symmetry. apply satb_plain_empty; auto.
        destruct (c_apHas c) as [[|]|]; try reflexivity; discriminate. }
    (* the type-specific tail *)
    set (T := if (negb (is_nil one) || negb (is_nil any) || negb (is_nil all)) && is_null v then Ok else _).
    set (tail_spec :=
      if is_null v then (negb (is_nil one) || negb (is_nil any) || negb (is_nil all))
      else (is_nil (c_enum c) || json_in json_eqb v (c_enum c)) &&
           match v with
           | JNull => false
           | JBool _ => permits c "boolean"
           | JNum x => num_ok fo c x
           | JStr x => str_ok rc rm fo c x
           | JArr l => arr_ok c l && match it with Some its => forallb (fun x => Sat its x) l | None => true end
           | JObj l => obj_ok md c l (map (fun kp => (fst kp, core_of (snd kp))) props) &&
                forallb (fun kp => match assoc (fst kp) l with
                                   | Some x => negb (forbidden md (core_of (snd kp))) && Sat (snd kp) x
                                   | None => true end) props &&
                forallb (fun kv => str_in (fst kv) (map fst props) ||
                           (match c_apHas c with Some false => false | _ => true end &&
                            match ap with Some a => Sat a (snd kv) | None => true end)) l
           end).
    assert (HT : is_panic T = false /\ accepts T = tail_spec).
    { subst T tail_spec. destruct v as [|b|x|x|l|l]; cbn [is_null andb].
      - (* null *)
        rewrite Bool.andb_true_r.
        destruct (negb (is_nil one) || negb (is_nil any) || negb (is_nil all)); [split; reflexivity|].
        unfold null_step. rewrite (Hnull eq_refl). split.
        + apply seq_nopanic; [apply enum_step_nopanic|reflexivity].
        + rewrite seq_accepts. apply Bool.andb_false_r.
      - rewrite Bool.andb_false_r. split.
        + apply seq_nopanic; [apply enum_step_nopanic|]. destruct (permits c "boolean"); reflexivity.
        + rewrite seq_accepts, (enum_step_accepts _ _ _ Henum). f_equal. destruct (permits c "boolean"); reflexivity.
      - rewrite Bool.andb_false_r. split.
        + apply seq_nopanic; [apply enum_step_nopanic|]. apply run_checks_nopanic, num_checks_nopanic.
        + rewrite seq_accepts, (enum_step_accepts _ _ _ Henum), run_checks_accepts. cbn [is_nil andb].
          now rewrite num_checks_ok.
      - rewrite Bool.andb_false_r. split.
        + apply seq_nopanic; [apply enum_step_nopanic|]. now apply run_checks_nopanic, str_checks_nopanic.
        + rewrite seq_accepts, (enum_step_accepts _ _ _ Henum), run_checks_accepts. cbn [is_nil andb].
          now rewrite str_checks_ok.
      - (* array *)
        rewrite Bool.andb_false_r.
        assert (Hitems : forallb np (match it with Some its => map (fun x => V its x) l | None => [] end) = true /\
                         (if negb (is_none it) then forallb accepts (match it with Some its => map (fun x => V its x) l | None => [] end) else true)
                         = match it with Some its => forallb (fun x => Sat its x) l | None => true end).
        { destruct it as [its|]; [|split; reflexivity]. cbn [optP opt_all is_none negb] in *.
          assert (Hx : forall x, In x l -> is_panic (V its x) = false /\ accepts (V its x) = Sat its x).
          { intros x Hx. apply Hit; [exact Hgit|eapply vg_arr; eauto]. }
          split.
          - rewrite forallb_map'. apply forallb_forall. intros x Hin. unfold np. now rewrite (proj1 (Hx x Hin)).
          - rewrite forallb_map'. apply forallb_ext_in. intros x Hin. apply (Hx x Hin). }
        destruct Hitems as [Inp Ia]. split.
        + apply seq_nopanic; [apply enum_step_nopanic|]. now apply run_checks_nopanic, arr_checks_nopanic.
        + rewrite seq_accepts, (enum_step_accepts _ _ _ Henum), run_checks_accepts. cbn [is_nil andb].
          rewrite arr_checks_ok; [now rewrite Ia|exact Hsmall|].
          unfold vg in Hv. apply andb_prop in Hv as [Hv _]. apply andb_prop in Hv as [_ Hu].
          cbn [g_uniq] in Hu. now apply andb_prop in Hu as [Hu _].
      - (* object *)
        rewrite Bool.andb_false_r.
        assert (Hnl : nodup_str (map fst l) = true).
        { unfold vg in Hv. apply andb_prop in Hv as [_ Hw]. cbn [g_wf] in Hw. now apply andb_prop in Hw as [Hw _]. }
        assert (Hp : forall k p x, In (k, p) props -> In (k, x) l ->
                     is_panic (V p x) = false /\ accepts (V p x) = Sat p x).
        { intros k p x Hin Hinl. rewrite Forall_forall in Hprops. apply (Hprops _ Hin).
          - rewrite forallb_forall in Hgprops. apply (Hgprops _ Hin).
          - eapply vg_obj; eauto. }
        assert (Hq : forall a k x, ap = Some a -> In (k, x) l ->
                     is_panic (V a x) = false /\ accepts (V a x) = Sat a x).
        { intros a k x -> Hinl. cbn [optP opt_all] in *. apply Hap; [exact Hgap|eapply vg_obj; eauto]. }
        split.
        + apply seq_nopanic; [apply enum_step_nopanic|]. apply run_checks_nopanic, obj_checks_nopanic.
          * intros k o Ho. rewrite assoc_r_props in Ho.
            destruct (assoc k props) as [p|] eqn:Hkp; [|discriminate].
            destruct (assoc k l) as [x|] eqn:Hkl; [|discriminate]. injection Ho as <-.
            apply (Hp k p x); eauto using assoc_in.
          * intros k o Ho. destruct ap as [a|]; [|discriminate]. rewrite assoc_r_ap in Ho.
            destruct (assoc k l) as [x|] eqn:Hkl; [|discriminate]. injection Ho as <-.
            apply (Hq a k x eq_refl); eauto using assoc_in.
        + rewrite seq_accepts, (enum_step_accepts _ _ _ Henum), run_checks_accepts. cbn [is_nil andb].
          rewrite obj_checks_ok by assumption.
          assert (Hg : forall k p, In (k, p) props -> forbidden md (core_of p) = true -> Sat p JNull = false).
          { intros k p Hin Hf. unfold S, g_rw_here in Hrw. rewrite forallb_forall in Hrw.
            specialize (Hrw _ Hin). cbn [snd] in Hrw. rewrite Hf in Hrw. cbn [negb orb] in Hrw.
            now apply Bool.negb_true_iff in Hrw. }
          pose proof (obj_link c l props ap Hnodup Hnl
                        (fun k p x H1 H2 => proj2 (Hp k p x H1 H2))
                        (fun a k x H1 H2 => proj2 (Hq a k x H1 H2)) Hg) as Hlink.
          unfold obj_ok. f_equal.
          set (A := permits c "object") in *.
          set (R := forallb _ (map _ props)) in *. set (K := forallb (key_ok _ _ _ _) l) in *.
          set (P := forallb _ props) in *. set (U := forallb _ l) in Hlink |- *.
          set (B := N.leb _ _). set (C := match c_maxProps c with Some m => _ | None => true end).
          set (F := forallb _ (c_required c)).
          destruct A, B, C, F; cbn [andb]; try reflexivity; try (now rewrite !Bool.andb_false_r);
            rewrite ?Bool.andb_true_r; exact Hlink || (rewrite <- Hlink; btauto) || idtac. }
    destruct HT as [HTp HTa].
    destruct (comps_part c v _ _ _ _ T Anp Onp Ynp Lnp HTp) as [Xp Xa].
    split; [exact Xp|]. rewrite Xa, HTa.
    rewrite !is_nil_map, (count_true_ext _ _ Oa), (existsb_ext_V _ _ Ya), (forallb_ext_V _ _ La).
    assert (Hnot : match option_map (fun x => V x v) n with Some o => negb (accepts o) | None => true end
                   = match n with Some x => negb (Sat x v) | None => true end).
    { destruct n; cbn [option_map]; [now rewrite Ana|reflexivity]. }
    rewrite Hnot. subst tail_spec S. cbn [satb].
    destruct v; cbn [is_null].
    1: { rewrite (Hnull eq_refl). cbn [orb]. apply Bool.andb_comm. }
    all: rewrite !Bool.andb_assoc; reflexivity.
  Qed.

  (* ---- unconditionally: validation of a tree schema never panics (the three panic sites of the
     pinned tree were repaired in /repo: exclusive bound without bound, multipleOf 0, uncompilable
     pattern in multi-error mode) ---- *)
  Definition npgood (s : schema) : Prop := forall v, is_panic (V s v) = false.

  Lemma npgoods_list (l : list schema) v : Forall npgood l -> forallb np (map (fun x => V x v) l) = true.
  Proof.
    induction l as [|x l IH]; intros HF; [reflexivity|]. inversion HF as [|? ? Hx Hl]; subst.
    cbn [map forallb]. unfold np at 1. now rewrite (Hx v), (IH Hl).
  Qed.

  Lemma assoc_flat_in (l : list (string * json)) (props : list (string * schema)) k o :
    assoc k (flat_map (fun kp : string * schema =>
                         match assoc (fst kp) l with Some x => [(fst kp, V (snd kp) x)] | None => [] end) props) = Some o ->
    exists p x, In (k, p) props /\ o = V p x.
  Proof.
    induction props as [|[k' p] ps IH]; cbn [flat_map]; [discriminate|]. cbn [fst snd].
    destruct (assoc k' l) as [x|]; cbn [app assoc].
    - destruct (String.eqb_spec k k') as [->|Hne].
      + intros [= <-]. exists p, x. split; [now left|reflexivity].
      + intros H. destruct (IH H) as (p' & x' & Hin & E). exists p', x'. split; [now right|exact E].
    - intros H. destruct (IH H) as (p' & x' & Hin & E). exists p', x'. split; [now right|exact E].
  Qed.
  Lemma assoc_map_in (l : list (string * json)) (a : schema) k o :
    assoc k (map (fun kv : string * json => (fst kv, V a (snd kv))) l) = Some o -> exists x, o = V a x.
  Proof.
    induction l as [|[k' x] l IH]; cbn [map assoc]; [discriminate|]. cbn [fst snd].
    destruct (String.eqb k k'); [intros [= <-]; now exists x|exact IH].
  Qed.

  Theorem visit_np : forall s, npgood s.
  Proof.
    apply schema_ind'. intros c n one any all it props ap Hn Hone Hany Hall Hit Hprops Hap v.
    cbn [visit].
    destruct (pre_check c v) as [o|] eqn:Hpre.
    { destruct v; cbn [pre_check] in Hpre; try discriminate.
      - destruct (permits_null c); [|discriminate]. now inversion Hpre.
      - destruct (f_is_nan x); [now inversion Hpre|]. destruct (f_is_inf x); [now inversion Hpre|discriminate]. }
    destruct (is_empty (Sch c n one any all it props ap)).
    { destruct (is_null v); [|reflexivity]. unfold null_step. destruct (permits_null c); reflexivity. }
    assert (Anp : opt_all np (option_map (fun x => V x v) n) = true).
    { destruct n as [x|]; [|reflexivity]. cbn [optP opt_all option_map] in *. unfold np. now rewrite (Hn v). }
    pose proof (npgoods_list one v Hone) as Onp.
    pose proof (npgoods_list any v Hany) as Ynp.
    pose proof (npgoods_list all v Hall) as Lnp.
    refine (proj1 (comps_part c v _ _ _ _ _ Anp Onp Ynp Lnp _)).
    destruct ((negb (is_nil one) || negb (is_nil any) || negb (is_nil all)) && is_null v); [reflexivity|].
    apply seq_nopanic; [apply enum_step_nopanic|].
    destruct v as [|b|x|x|l|l].
    - unfold null_step. destruct (permits_null c); reflexivity.
    - destruct (permits c "boolean"); reflexivity.
    - apply run_checks_nopanic, num_checks_nopanic.
    - apply run_checks_nopanic, str_checks_nopanic.
    - apply run_checks_nopanic, arr_checks_nopanic.
      destruct it as [its|]; [|reflexivity]. cbn [optP opt_all] in Hit.
      rewrite forallb_map'. apply forallb_forall. intros x _. now rewrite (Hit x).
    - apply run_checks_nopanic, obj_checks_nopanic.
      + intros k o Ho. destruct (assoc_flat_in l props k o Ho) as (p & x & Hin & ->).
        rewrite Forall_forall in Hprops. exact (Hprops _ Hin x).
      + intros k o Ho. destruct ap as [a|]; [|discriminate]. cbn [optP opt_all] in Hap.
        destruct (assoc_map_in l a k o Ho) as (x & ->). apply Hap.
  Qed.
End MAIN.
