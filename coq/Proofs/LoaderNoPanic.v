(* C20 (the reference walk): the loader's one panic site - a backtrack callback asserting its own
   routine's type on a value another routine resolved under the same reference text - is
   unreachable when every reference text is used at one kind only (and no reference goes into an
   extension area, where objects have no kind).  Invariant over the whole interpreter. *)
From KV Require Import Model.Base Model.Loader.
Local Open Scope list_scope.

Section NOPANIC.
  Variable allow : bool.
  Variable files : string -> option file.
  Variable rpath : option string -> string -> string.
  (* the kind at which every occurrence of a reference text is resolved *)
  Variable K : string -> kind.

  Inductive wk : kind -> node -> Prop :=
  | wk_ref k r : K r = k -> has_hash r = true -> before_hash r = ""%string -> wk k (NRef r)
  | wk_obj k id kids : (forall c key k' ch, In (c, key, k', ch) kids -> wk k' ch) -> wk k (NObj id kids).

  Definition okids (n : node) : Prop :=
    match n with NObj _ kids => forall c key k' ch, In (c, key, k', ch) kids -> wk k' ch | NRef _ => True end.
  Lemma wk_okids k n : wk k n -> okids n.
  Proof. destruct 1; cbn; auto. Qed.

  Definition file_ok (f : file) : Prop :=
    f_exts f = [] /\
    (forall p k t n, In (p, k, t, n) (f_cells f) -> wk k n) /\
    True /\ True.
  Hypothesis Hfiles : forall u f, files u = Some f -> file_ok f.

  Definition back_wk (s : lstate) : Prop := forall r c k, In (r, c, k) (back s) -> k = K r.
  Definition vals_ok (s : lstate) : Prop := forall c v, In (c, v) (vals s) -> okids (tv_node v).
  Definition Inv (s : lstate) : Prop := back_wk s /\ vals_ok s.

  Definition good {A} (proj : A -> lstate) (r : res A) : Prop :=
    r <> RPanic /\ forall a, r = ROk a -> Inv (proj a).

  Lemma good_ok {A} (proj : A -> lstate) a : Inv (proj a) -> good proj (ROk a).
  Proof. intros H. split; [discriminate|]. now intros a' [= <-]. Qed.
  Lemma good_err {A} (proj : A -> lstate) rd : good proj (RErr rd).
  Proof. split; discriminate. Qed.

  Lemma bind_good {A B} (pa : A -> lstate) (pb : B -> lstate) (r : res A) (f : A -> res B) :
    good pa r -> (forall a, r = ROk a -> Inv (pa a) -> good pb (f a)) -> good pb (bind r f).
  Proof.
    intros [Hn Hi] Hf. destruct r as [a|rd| |]; cbn [bind].
    - apply Hf; [reflexivity|now apply Hi].
    - apply good_err.
    - now contradiction Hn.
    - split; discriminate.
  Qed.

  Lemma do_read_good u s : Inv s -> good fst (do_read files u s) /\
                                    forall s' f, do_read files u s = ROk (s', f) -> file_ok f.
  Proof.
    intros Hs. unfold do_read. destruct (files u) as [f|] eqn:E.
    - split; [apply good_ok; exact Hs|]. intros s' f' [= _ <-]. now apply (Hfiles u).
    - split; [apply good_err|discriminate].
  Qed.

  Lemma val_of_in c l v : val_of c l = Some v -> exists c', In (c', v) l.
  Proof.
    induction l as [|[c' v'] l IH]; cbn; [discriminate|]. destruct (key_eqb c c').
    - intros [= <-]. exists c'. now left.
    - intros H. destruct (IH H) as [c'' Hin]. exists c''. now right.
  Qed.

  Lemma set_val_inv c v s : Inv s -> okids (tv_node v) -> Inv (set_val c v s).
  Proof.
    intros [Hb Hv] Ho. destruct c as [c|]; [|now split]. split; [exact Hb|].
    intros c' v' [E|Hin]; [inversion E; now subst|now apply (Hv c')].
  Qed.

  Lemma run_back_good ref v : okids (tv_node v) -> tv_kind v = K ref ->
    forall l s, (forall r c k, In (r, c, k) l -> k = K r) -> Inv s -> good (fun x => x) (run_back ref v l s).
  Proof.
    intros Ho Hk. induction l as [|[[r c] k] l IH]; intros s Hl Hs; cbn [run_back]; [now apply good_ok|].
    destruct (String.eqb_spec r ref) as [->|Hne].
    - assert (Ek : k = K ref) by (apply (Hl ref c k); now left).
      rewrite Hk, Ek. unfold kind_eqb. rewrite N.eqb_refl.
      apply IH; [intros r' c' k' H; apply (Hl r' c' k'); now right|now apply set_val_inv].
    - apply IH; [intros r' c' k' H; apply (Hl r' c' k'); now right|exact Hs].
  Qed.

  Lemma unvisit_good ref v s :
    Inv s -> (forall x, v = Some x -> okids (tv_node x) /\ tv_kind x = K ref) -> good (fun x => x) (unvisit ref v s).
  Proof.
    intros Hs Hv. unfold unvisit. apply (bind_good (fun x => x) (fun x => x)).
    - destruct v as [x|]; [|now apply good_ok]. destruct (Hv x eq_refl) as [Ho Hk].
      apply run_back_good; auto. exact (proj1 Hs).
    - intros s1 _ [Hb1 Hv1]. apply good_ok. split; [|exact Hv1].
      intros r c k Hin. cbn [back] in Hin. apply filter_In in Hin as [Hin _]. now apply (Hb1 r c k).
  Qed.

  Definition docfile_ok (df : option file) : Prop := match df with Some f => file_ok f | None => True end.
  (* the typed document handed along is the file at the document path *)
  Definition coh (df : option file) (dp : option string) : Prop := match dp with Some u => files u = df | None => True end.

  Definition rec_ok (rec : resolver) : Prop :=
    forall k dest nd inst path doc docfile dp s,
      wk k nd -> docfile_ok docfile -> coh docfile dp -> Inv s ->
      good fst (rec k dest nd inst path doc docfile dp s) /\
      forall s' v, rec k dest nd inst path doc docfile dp s = ROk (s', Some v) -> okids (tv_node v).

  Section STEP.
    Variable rec : resolver.
    Hypothesis Hrec : rec_ok rec.

    Lemma walk_class_good cls vinst vpath doc docfile dp : docfile_ok docfile -> coh docfile dp -> forall l s,
      (forall c key k' ch, In (c, key, k', ch) l -> wk k' ch) -> Inv s ->
      good (fun x => x) (walk_class rec cls l vinst vpath doc docfile dp s).
    Proof.
      intros Hdf Hco. induction l as [|[[[c key] k'] child] l IH]; intros s Hl Hs; cbn [walk_class]; [now apply good_ok|].
      assert (Hl' : forall c0 key0 k0 ch, In (c0, key0, k0, ch) l -> wk k0 ch) by (intros; eapply Hl; right; eauto).
      destruct (String.eqb c cls); [|now apply IH].
      apply (bind_good fst (fun x => x)).
      - apply Hrec; auto. eapply Hl. now left.
      - intros a _ Ha. now apply IH.
    Qed.
    Lemma walk_good kids vinst vpath doc docfile dp : docfile_ok docfile -> coh docfile dp ->
      (forall c key k' ch, In (c, key, k', ch) kids -> wk k' ch) -> forall classes s, Inv s ->
      good (fun x => x) (walk rec classes kids vinst vpath doc docfile dp s).
    Proof.
      intros Hdf Hco Hk. induction classes as [|cls rest IH]; intros s Hs; cbn [walk]; [now apply good_ok|].
      apply (bind_good (fun x => x) (fun x => x)); [now apply walk_class_good|]. intros a _ Ha. now apply IH.
    Qed.
    Lemma walk_value_good k v doc docfile dp s : docfile_ok docfile -> coh docfile dp ->
      (forall x, v = Some x -> okids (tv_node x)) -> Inv s ->
      good (fun x => x) (walk_value rec k v doc docfile dp s).
    Proof.
      intros Hdf Hco Hv Hs. unfold walk_value. destruct v as [x|]; [|now apply good_ok].
      specialize (Hv x eq_refl). destruct (tv_node x) as [r|id kids]; [now apply good_ok|]. now apply walk_good.
    Qed.
    Lemma resolve_cells_good i f dp : file_ok f -> coh (Some f) dp -> forall l s,
      (forall p k t n, In (p, k, t, n) l -> wk k n) -> Inv s ->
      good (fun x => x) (resolve_cells rec i f dp l s).
    Proof.
      intros Hf Hco. induction l as [|[[[p k] trav] n] l IH]; intros s Hl Hs; cbn [resolve_cells]; [now apply good_ok|].
      assert (Hl' : forall p0 k0 t n0, In (p0, k0, t, n0) l -> wk k0 n0) by (intros; eapply Hl; right; eauto).
      destruct trav; [|now apply IH].
      apply (bind_good fst (fun x => x)).
      - apply Hrec; auto. eapply Hl. now left.
      - intros a _ Ha. now apply IH.
    Qed.

    Lemma load_doc_good uri s : Inv s ->
      good (fun r : lstate * N * file => fst (fst r)) (load_doc files rec uri s) /\
      forall s' i f, load_doc files rec uri s = ROk (s', i, f) -> file_ok f /\ files uri = Some f.
    Proof.
      intros Hs. unfold load_doc. destruct (do_read_good uri s Hs) as [Hg Hf].
      destruct (do_read files uri s) as [[s1 f]| | |] eqn:E; cbn [bind].
      2:{ split; [apply good_err|discriminate]. }
      2:{ destruct Hg as [Hn _]. now contradiction Hn. }
      2:{ split; [split; discriminate|discriminate]. }
      pose proof (Hf s1 f eq_refl) as Hfo. destruct Hg as [_ Hi]. pose proof (Hi _ eq_refl) as Hs1. cbn [fst] in Hs1.
      destruct (assoc uri (docs s1)) as [i|].
      - split; [now apply good_ok|]. intros s' i' f' [= _ _ <-]. split; [exact Hfo|]. unfold do_read in E. destruct (files uri); [now inversion E|discriminate].
      - cbn.
        set (s3 := mkLS (vals s1) (inprog s1) (back s1) ((uri, next s1) :: docs s1) (N.succ (next s1)) (reads s1) ((next s1, uri) :: origin s1)).
        assert (Hs3 : Inv s3) by exact Hs1.
        assert (Hcoh : coh (Some f) (Some uri)).
        { cbn. unfold do_read in E. destruct (files uri); [now inversion E|discriminate]. }
        pose proof (resolve_cells_good (next s1) f (Some uri) Hfo Hcoh (f_cells f) s3 (proj1 (proj2 Hfo)) Hs3) as Hc.
        destruct (resolve_cells rec (next s1) f (Some uri) (f_cells f) s3) as [s4|rd| |] eqn:E4; cbn [bind].
        + split; [apply good_ok; exact (proj2 Hc s4 eq_refl)|]. intros s' i' f' [= _ _ <-]. split; [exact Hfo|exact Hcoh].
        + split; [apply good_err|discriminate].
        + destruct Hc as [Hn _]. now contradiction Hn.
        + split; [split; discriminate|discriminate].
    Qed.

    (* the drill-down only finds typed components: there are no extension areas, and the raw
       re-read of the same document finds nothing its typed form does not have *)
    Lemma drill_good segs cdoc cfile cpath dp s : docfile_ok cfile -> coh cfile dp -> Inv s ->
      good fst (drill files segs cdoc cfile cpath dp s) /\
      forall s' fd, drill files segs cdoc cfile cpath dp s = ROk (s', fd) ->
        exists ci p kc n, fd = FTyped ci p kc n /\ wk kc n.
    Proof.
      intros Hdf Hco Hs. unfold drill.
      assert (Hfind : forall f, file_ok f -> forall kc n, find_cell segs (f_cells f) = Some (kc, n) -> wk kc n).
      { intros f (_ & Hcells & _) kc n. induction (f_cells f) as [|[[[p k] t] n0] l IH]; [discriminate|]. cbn.
        destruct (path_eqb segs p); [intros [= <- <-]; eapply Hcells; now left|].
        intros E. apply IH; [|exact E]. intros; eapply Hcells; right; eauto. }
      destruct cfile as [f|].
      - pose proof Hdf as (Hex & _). rewrite Hex. cbn [find_ext].
        destruct (find_cell segs (f_cells f)) as [[kc n]|] eqn:Efc.
        + split; [now apply good_ok|]. intros s' fd [= _ <-]. exists cdoc, segs, kc, n. split; [reflexivity|]. eapply Hfind; eauto.
        + destruct dp as [u|]; [|split; [apply good_err|discriminate]].
          cbn in Hco. unfold do_read. rewrite Hco. cbn [bind]. rewrite Efc, Hex. cbn [find_ext].
          split; [apply good_err|discriminate].
      - destruct dp as [u|]; [|split; [apply good_err|discriminate]].
        cbn in Hco. unfold do_read. rewrite Hco. split; [apply good_err|discriminate].
    Qed.

    Lemma resolve_body_good : rec_ok (resolve_body allow files rpath rec).
    Proof.
      intros k dest nd inst path doc docfile dp s Hwk Hdf Hco Hs. unfold resolve_body.
      destruct nd as [ref|id kids].
      2:{ assert (Hw : good (fun x => x) (walk_value rec k (Some (mkTV inst path (NObj id kids) k)) doc docfile dp s)).
          { apply walk_value_good; auto. intros x [= <-]. cbn [tv_node]. now apply (wk_okids k). }
          split.
          - apply (bind_good (fun x => x) fst); [exact Hw|]. intros a _ Ha. now apply good_ok.
          - intros s' v H. destruct (walk_value rec k _ doc docfile dp s); cbn [bind] in H; try discriminate.
            inversion H; subst. cbn [tv_node]. now apply (wk_okids k). }
      inversion Hwk as [k0 r0 HK Hhash Hint|]; subst.
      destruct (match dest with Some c => val_of c (vals s) | None => None end) as [v|] eqn:Ev.
      { split; [now apply good_ok|]. intros s' v' [= <- <-].
        destruct dest as [c|]; [|discriminate]. destruct (val_of_in _ _ _ Ev) as [c' Hin]. exact (proj2 Hs c' v Hin). }
      destruct (str_in ref (inprog s)).
      { split; [|discriminate]. apply good_ok. cbn [fst]. destruct Hs as [Hb Hv]. split; [|exact Hv].
        intros r c k' Hin. cbn [back] in Hin. apply in_app_or in Hin as [Hin|[E|[]]]; [now apply (Hb r c k')|]. now inversion E. }
      rewrite Hhash, Hint. cbn [negb String.eqb bind].
      set (s0 := mkLS (vals s) (ref :: inprog s) (back s) (docs s) (next s) (reads s) (origin s)).
      assert (Hs0 : Inv s0) by exact Hs.
      destruct (frag_segments (after_hash ref)) as [segs|]; [|split; [apply good_err|discriminate]].
      destruct (drill_good segs doc docfile dp dp s0 Hdf Hco Hs0) as [Hdg Hdf'].
      destruct (drill files segs doc docfile dp dp s0) as [[s2 fd]|rd| |] eqn:Ed; cbn [bind].
      2:{ split; [apply good_err|discriminate]. }
      2:{ destruct Hdg as [Hn _]. now contradiction Hn. }
      2:{ split; [split; discriminate|discriminate]. }
      destruct (Hdf' s2 fd eq_refl) as (ci & p & kc & n & -> & Hwn).
      pose proof (proj2 Hdg _ eq_refl) as Hs2. cbn [fst] in Hs2.
      destruct (kind_eqb kc (K ref)) eqn:Ek; cbn [negb]; [|split; [apply good_err|discriminate]].
      assert (kc = K ref).
      { unfold kind_eqb in Ek. apply N.eqb_eq in Ek. destruct kc, (K ref); cbn in Ek; congruence || reflexivity. }
      subst kc.
      (* the value of the copy *)
      set (RV := match n with
                 | NObj _ _ => rec (K ref) None n ci p doc docfile dp s2
                 | NRef _ => match val_of (ci, p) (vals s2) with
                             | Some v => ROk (s2, Some v)
                             | None => rec (K ref) None n ci p doc docfile dp s2
                             end
                 end).
      assert (HRV : good fst RV /\ forall s' v, RV = ROk (s', Some v) -> okids (tv_node v)).
      { subst RV. destruct n as [r2|id2 kids2].
        - destruct (val_of (ci, p) (vals s2)) as [v|] eqn:Ev2.
          + split; [now apply good_ok|]. intros s' v' [= <- <-]. destruct (val_of_in _ _ _ Ev2) as [c' Hin]. exact (proj2 Hs2 c' v Hin).
          + now apply Hrec.
        - now apply Hrec. }
      destruct HRV as [HRVg HRVo].
      destruct RV as [[s3 v]|rd| |] eqn:ERV; cbn [bind].
      2:{ split; [apply good_err|discriminate]. }
      2:{ destruct HRVg as [Hn _]. now contradiction Hn. }
      2:{ split; [split; discriminate|discriminate]. }
      pose proof (proj2 HRVg _ eq_refl) as Hs3. cbn [fst] in Hs3.
      remember (option_map (fun v0 => mkTV (tv_inst v0) (tv_path v0) (tv_node v0) (K ref)) v) as v' eqn:Ev'.
      assert (Hv' : forall x, v' = Some x -> okids (tv_node x) /\ tv_kind x = K ref).
      { subst v'. destruct v as [v0|]; [|discriminate]. intros x [= <-]. cbn. split; [|reflexivity]. now apply (HRVo s3 v0). }
      clear Ev'.
      remember (match v' with Some v0 => set_val dest v0 s3 | None => s3 end) as s4 eqn:Es4.
      assert (Hs4 : Inv s4).
      { subst s4. destruct v' as [x|]; [|exact Hs3]. apply set_val_inv; [exact Hs3|]. exact (proj1 (Hv' x eq_refl)). }
      clear Es4.
      assert (Hw : good (fun x => x) (walk_value rec (K ref) v' doc docfile dp s4)).
      { apply walk_value_good; auto. intros x Hx. exact (proj1 (Hv' x Hx)). }
      destruct (walk_value rec (K ref) v' doc docfile dp s4) as [s5|rd| |] eqn:Ew; cbn [bind].
      2:{ split; [apply good_err|discriminate]. }
      2:{ destruct Hw as [Hn _]. now contradiction Hn. }
      2:{ split; [split; discriminate|discriminate]. }
      pose proof (proj2 Hw _ eq_refl) as Hs5. cbn in Hs5.
      pose proof (unvisit_good ref v' s5 Hs5 Hv') as Hu.
      destruct (unvisit ref v' s5) as [s6|rd| |] eqn:Eu; cbn [bind].
      + split; [apply good_ok; exact (proj2 Hu _ eq_refl)|]. intros s' x [= _ E]. exact (proj1 (Hv' x E)).
      + split; [apply good_err|discriminate].
      + destruct Hu as [Hn _]. now contradiction Hn.
      + split; [split; discriminate|discriminate].
    Qed.
  End STEP.

  Theorem resolve_good : forall fuel, rec_ok (resolve allow files rpath fuel).
  Proof.
    induction fuel as [|fuel IH].
    - intros k dest nd inst path doc docfile dp s _ _ _ _. cbn. split; [split; discriminate|discriminate].
    - cbn [resolve]. now apply resolve_body_good.
  Qed.

  (* loading a document whose references are internal and used at one kind each never panics *)
  Theorem load_no_panic fuel entry root rootfile :
    file_ok rootfile -> files root = Some rootfile ->
    load allow files rpath fuel entry root rootfile <> RPanic.
  Proof.
    intros Hf Hr. unfold load.
    assert (Hcells : forall p k t n, In (p, k, t, n) (f_cells rootfile) -> wk k n) by exact (proj1 (proj2 Hf)).
    destruct (N.eqb entry 0).
    - unfold do_read. rewrite Hr. cbn [bind].
      refine (proj1 (resolve_cells_good (resolve allow files rpath fuel) (resolve_good fuel) 0 rootfile (Some root) Hf Hr _ _ Hcells _)).
      split; [intros r c k []|intros c v []].
    - destruct (N.eqb entry 1).
      + refine (proj1 (resolve_cells_good (resolve allow files rpath fuel) (resolve_good fuel) 0 rootfile None Hf I _ _ Hcells _)).
        split; [intros r c k []|intros c v []].
      + refine (proj1 (resolve_cells_good (resolve allow files rpath fuel) (resolve_good fuel) 0 rootfile (Some root) Hf Hr _ _ Hcells _)).
        split; [intros r c k []|intros c v []].
  Qed.
End NOPANIC.
