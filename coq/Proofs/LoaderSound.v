(* C02 (positive direction, one document): for a document whose references are internal, outside
   extension areas, each used at one kind, with distinct component pointers and distinct child
   labels - every value the loader stores at a reference position is the object that the reference
   text at that position designates, through chains of references and whatever cycles the graph
   has.  Invariant over the whole interpreter. *)
From KV Require Import Model.Base Model.Loader.
Local Open Scope list_scope.

Section SOUND.
  Variable allow : bool.
  Variable files : string -> option file.
  Variable rpath : option string -> string -> string.
  Variable K : string -> kind.
  Variable f : file.                      (* the document *)

  (* ---- positions ---- *)
  Fixpoint find_kid (l : string) (kids : list (string * string * kind * node)) : option (kind * node) :=
    match kids with
    | [] => None
    | (c, key, k, ch) :: r => if String.eqb (label c key) l then Some (k, ch) else find_kid l r
    end.
  Fixpoint descend (n : node) (labels : list string) : option node :=
    match labels with
    | [] => Some n
    | l :: rest => match n with
                   | NObj _ kids => match find_kid l kids with Some (_, ch) => descend ch rest | None => None end
                   | NRef _ => None
                   end
    end.
  (* component pointers have three segments, path items two *)
  Definition node_at (path : list string) : option node :=
    match path with
    | a :: b :: c :: rest =>
        match find_cell [a; b; c] (f_cells f) with
        | Some (_, n) => descend n rest
        | None => match find_cell [a; b] (f_cells f) with Some (_, n) => descend n (c :: rest) | None => None end
        end
    | [a; b] => match find_cell [a; b] (f_cells f) with Some (_, n) => Some n | None => None end
    | _ => None
    end.

  (* ---- what a reference text designates ---- *)
  Inductive designates : string -> list string -> node -> Prop :=
  | d_obj r segs id kids :
      before_hash r = ""%string -> frag_segments (after_hash r) = Some segs ->
      find_cell segs (f_cells f) = Some (K r, NObj id kids) -> designates r segs (NObj id kids)
  | d_chain r segs r' p n :
      before_hash r = ""%string -> frag_segments (after_hash r) = Some segs ->
      find_cell segs (f_cells f) = Some (K r, NRef r') -> designates r' p n -> designates r p n.

  (* ---- well-formed documents ---- *)
  Inductive wk : kind -> node -> Prop :=
  | wk_ref k r : K r = k -> has_hash r = true -> before_hash r = ""%string -> wk k (NRef r)
  | wk_obj k id kids :
      (forall c key k' ch, In (c, key, k', ch) kids -> wk k' ch) ->
      (forall c key k' ch, In (c, key, k', ch) kids -> find_kid (label c key) kids = Some (k', ch)) ->
      wk k (NObj id kids).
  Definition okids (n : node) : Prop :=
    match n with
    | NObj _ kids => (forall c key k' ch, In (c, key, k', ch) kids -> wk k' ch) /\
                     (forall c key k' ch, In (c, key, k', ch) kids -> find_kid (label c key) kids = Some (k', ch))
    | NRef _ => True
    end.
  Lemma wk_okids k n : wk k n -> okids n.
  Proof. destruct 1; cbn; auto. Qed.

  Hypothesis Hexts : f_exts f = [].
  Hypothesis Hcells : forall p k t n, In (p, k, t, n) (f_cells f) -> wk k n /\ find_cell p (f_cells f) = Some (k, n) /\
                                                                    (List.length p = 3 \/ List.length p = 2)%nat.
  (* a three-segment pointer never extends a two-segment one (components/... vs paths/...) *)
  Hypothesis Hdisj : forall a b c, find_cell [a; b; c] (f_cells f) <> None -> find_cell [a; b] (f_cells f) = None.

  (* ---- the invariant ---- *)
  Definition is_obj (n : node) : Prop := match n with NObj _ _ => True | NRef _ => False end.
  Definition val_ok (v : tval) : Prop :=
    tv_inst v = 0%N /\ node_at (tv_path v) = Some (tv_node v) /\ is_obj (tv_node v) /\ okids (tv_node v).
  Definition back_ok (s : lstate) : Prop :=
    forall r c k, In (r, c, k) (back s) -> k = K r /\ match c with Some (i, p) => i = 0%N /\ node_at p = Some (NRef r) | None => True end.
  Definition vals_sound (s : lstate) : Prop :=
    forall i p v, In ((i, p), v) (vals s) ->
      i = 0%N /\ val_ok v /\ exists r, node_at p = Some (NRef r) /\ designates r (tv_path v) (tv_node v).
  Definition Inv (s : lstate) : Prop := back_ok s /\ vals_sound s.

  Definition good {A} (proj : A -> lstate) (r : res A) : Prop :=
    r <> RPanic /\ forall a, r = ROk a -> Inv (proj a).
  Lemma good_ok {A} (proj : A -> lstate) a : Inv (proj a) -> good proj (ROk a).
  Proof. intros H. split; [discriminate|]. now intros a' [= <-]. Qed.
  Lemma good_err {A} (proj : A -> lstate) rd : good proj (RErr rd).
  Proof. split; discriminate. Qed.
  Lemma bind_good {A B} (pa : A -> lstate) (pb : B -> lstate) (r : res A) (g : A -> res B) :
    good pa r -> (forall a, r = ROk a -> Inv (pa a) -> good pb (g a)) -> good pb (bind r g).
  Proof.
    intros [Hn Hi] Hf. destruct r as [a|rd| |]; cbn [bind].
    - apply Hf; [reflexivity|now apply Hi].
    - apply good_err.
    - now contradiction Hn.
    - split; discriminate.
  Qed.

  Lemma path_eqb_eq : forall a b, path_eqb a b = true -> a = b.
  Proof.
    induction a as [|x a IH]; intros [|y b]; cbn; try discriminate; [reflexivity|].
    intros H. apply andb_prop in H as [H1 H2]. apply String.eqb_eq in H1. subst y. f_equal. now apply IH.
  Qed.
  Lemma val_of_in c l v : val_of c l = Some v -> In (c, v) l.
  Proof.
    induction l as [|[c' v'] l IH]; cbn; [discriminate|]. destruct (key_eqb c c') eqn:E.
    - intros [= <-]. left. f_equal. unfold key_eqb in E. apply andb_prop in E as [E1 E2].
      apply N.eqb_eq in E1. apply path_eqb_eq in E2. destruct c as [i p], c' as [i' p']. cbn in *. now subst.
    - intros H. right. now apply IH.
  Qed.

  (* the position of a cell, the text there, and the value stored: the three agree *)
  Definition stores (c : option cellkey) (r : string) : Prop :=
    match c with Some (i, p) => i = 0%N /\ node_at p = Some (NRef r) | None => True end.

  Lemma set_val_inv c r v s : Inv s -> stores c r -> val_ok v -> designates r (tv_path v) (tv_node v) -> Inv (set_val c v s).
  Proof.
    intros [Hb Hv] Hc Hok Hd. destruct c as [[i p]|]; [|now split]. split; [exact Hb|].
    intros i' p' v' [E|Hin]; [|now apply (Hv i' p')]. inversion E; subst. destruct Hc as [-> Hn].
    split; [reflexivity|]. split; [exact Hok|]. now exists r.
  Qed.

  Lemma run_back_good ref v : val_ok v -> designates ref (tv_path v) (tv_node v) -> tv_kind v = K ref ->
    forall l s, (forall r c k, In (r, c, k) l -> k = K r /\ stores c r) -> Inv s -> good (fun x => x) (run_back ref v l s).
  Proof.
    intros Hok Hd Hk. induction l as [|[[r c] k] l IH]; intros s Hl Hs; cbn [run_back]; [now apply good_ok|].
    destruct (String.eqb_spec r ref) as [->|Hne].
    - destruct (Hl ref c k (or_introl eq_refl)) as [Ek Hst].
      rewrite Hk, Ek. unfold kind_eqb. rewrite N.eqb_refl.
      apply IH; [intros r' c' k' H; apply (Hl r' c' k'); now right|]. now apply (set_val_inv c ref).
    - apply IH; [intros r' c' k' H; apply (Hl r' c' k'); now right|exact Hs].
  Qed.

  Lemma unvisit_good ref v s :
    Inv s -> (forall x, v = Some x -> val_ok x /\ designates ref (tv_path x) (tv_node x) /\ tv_kind x = K ref) ->
    good (fun x => x) (unvisit ref v s).
  Proof.
    intros Hs Hv. unfold unvisit. apply (bind_good (fun x => x) (fun x => x)).
    - destruct v as [x|]; [|now apply good_ok]. destruct (Hv x eq_refl) as (Ho & Hd & Hk).
      apply run_back_good; auto. intros r c k Hin. destruct (proj1 Hs r c k Hin) as [E Hc]. split; [exact E|].
      destruct c as [[i p]|]; [exact Hc|exact I].
    - intros s1 _ [Hb1 Hv1]. apply good_ok. split; [|exact Hv1].
      intros r c k Hin. cbn [back] in Hin. apply filter_In in Hin as [Hin _]. now apply (Hb1 r c k).
  Qed.

  (* the precondition of every call: [nd] is the node at [path], [dest] (if any) is that cell *)
  Definition call_ok (k : kind) (dest : option cellkey) (nd : node) (inst : N) (path : list string) : Prop :=
    wk k nd /\ inst = 0%N /\ node_at path = Some nd /\ (dest = None \/ dest = Some (inst, path)).

  (* the document path, when there is one, names this document *)
  Definition dp_ok (dp : option string) : Prop := match dp with Some u => files u = Some f | None => True end.

  Definition rec_ok (rec : resolver) : Prop :=
    forall k dest nd inst path dp s,
      call_ok k dest nd inst path -> dp_ok dp -> Inv s ->
      good fst (rec k dest nd inst path 0%N (Some f) dp s) /\
      forall s' v, rec k dest nd inst path 0%N (Some f) dp s = ROk (s', Some v) ->
        val_ok v /\ match nd with NRef r => designates r (tv_path v) (tv_node v) | NObj _ _ => tv_path v = path /\ tv_node v = nd end.

  Lemma node_at_kid vpath id kids c key k' ch :
    node_at vpath = Some (NObj id kids) -> find_kid (label c key) kids = Some (k', ch) ->
    node_at (vpath ++ [label c key]) = Some ch.
  Proof.
    intros Hn Hk.
    assert (Hd : forall n labels, descend n labels = Some (NObj id kids) -> descend n (labels ++ [label c key]) = Some ch).
    { intros n labels. revert n. induction labels as [|l rest IH]; intros n H; cbn in *.
      - inversion H; subst. now rewrite Hk.
      - destruct n as [r|id0 kids0]; [discriminate|]. destruct (find_kid l kids0) as [[k0 ch0]|]; [|discriminate]. now apply IH. }
    unfold node_at in *. destruct vpath as [|a [|b [|c0 rest]]]; try discriminate.
    - (* [a; b] *) cbn [app].
      destruct (find_cell [a; b] (f_cells f)) as [[k0 n]|] eqn:E2; [|discriminate]. inversion Hn; subst.
      destruct (find_cell [a; b; label c key] (f_cells f)) as [[k1 n1]|] eqn:E3.
      + exfalso. assert (H3 : find_cell [a; b; label c key] (f_cells f) <> None) by (rewrite E3; discriminate).
        rewrite (Hdisj _ _ _ H3) in E2. discriminate.
      + cbn. now rewrite Hk.
    - cbn [app]. destruct (find_cell [a; b; c0] (f_cells f)) as [[k0 n]|]; [now apply Hd|].
      destruct (find_cell [a; b] (f_cells f)) as [[k0 n]|]; [|discriminate].
      change (c0 :: rest ++ [label c key]) with ((c0 :: rest) ++ [label c key]). now apply Hd.
  Qed.

  Section STEP.
    Variable rec : resolver.
    Hypothesis Hrec : rec_ok rec.

    Lemma walk_class_good cls vpath id kids0 dp : dp_ok dp -> node_at vpath = Some (NObj id kids0) -> forall l s,
      (forall c key k' ch, In (c, key, k', ch) l -> wk k' ch /\ find_kid (label c key) kids0 = Some (k', ch)) -> Inv s ->
      good (fun x => x) (walk_class rec cls l 0 vpath 0%N (Some f) dp s).
    Proof.
      intros Hdp Hpos. induction l as [|[[[c key] k'] child] l IH]; intros s Hl Hs; cbn [walk_class]; [now apply good_ok|].
      assert (Hl' : forall c0 key0 k0 ch, In (c0, key0, k0, ch) l -> wk k0 ch /\ find_kid (label c0 key0) kids0 = Some (k0, ch))
        by (intros; eapply Hl; right; eauto).
      destruct (String.eqb c cls); [|now apply IH].
      destruct (Hl c key k' child (or_introl eq_refl)) as [Hw Hk].
      apply (bind_good fst (fun x => x)).
      - apply Hrec; auto. split; [exact Hw|]. split; [reflexivity|]. split; [eapply node_at_kid; eauto|now right].
      - intros a _ Ha. now apply IH.
    Qed.
    Lemma walk_good vpath id kids dp : dp_ok dp -> node_at vpath = Some (NObj id kids) -> okids (NObj id kids) ->
      forall classes s, Inv s -> good (fun x => x) (walk rec classes kids 0 vpath 0%N (Some f) dp s).
    Proof.
      intros Hdp Hpos [Hw Hk]. induction classes as [|cls rest IH]; intros s Hs; cbn [walk]; [now apply good_ok|].
      apply (bind_good (fun x => x) (fun x => x)).
      - eapply walk_class_good; [exact Hdp|exact Hpos| |exact Hs]. intros c key k' ch Hin. split; [eapply Hw|eapply Hk]; eauto.
      - intros a _ Ha. now apply IH.
    Qed.
    Lemma walk_value_good k v dp s : dp_ok dp -> (forall x, v = Some x -> val_ok x) -> Inv s ->
      good (fun x => x) (walk_value rec k v 0%N (Some f) dp s).
    Proof.
      intros Hdp Hv Hs. unfold walk_value. destruct v as [x|]; [|now apply good_ok].
      destruct (Hv x eq_refl) as (Hi & Hn & _ & Ho). destruct (tv_node x) as [r|id kids] eqn:E; [now apply good_ok|].
      rewrite Hi. now apply (walk_good (tv_path x) id kids).
    Qed.
    Lemma resolve_cells_good dp : dp_ok dp -> forall l s,
      (forall p k t n, In (p, k, t, n) l -> In (p, k, t, n) (f_cells f)) -> Inv s ->
      good (fun x => x) (resolve_cells rec 0 f dp l s).
    Proof.
      intros Hdp. induction l as [|[[[p k] trav] n] l IH]; intros s Hl Hs; cbn [resolve_cells]; [now apply good_ok|].
      assert (Hl' : forall p0 k0 t n0, In (p0, k0, t, n0) l -> In (p0, k0, t, n0) (f_cells f)) by (intros; apply Hl; now right).
      destruct trav; [|now apply IH].
      destruct (Hcells p k true n (Hl _ _ _ _ (or_introl eq_refl))) as (Hw & Hfc & Hlen).
      apply (bind_good fst (fun x => x)).
      - apply Hrec; auto. split; [exact Hw|]. split; [reflexivity|]. split; [|now right].
        unfold node_at. destruct Hlen as [H3|H2].
        + destruct p as [|a [|b [|c [|d r]]]]; try discriminate H3. now rewrite Hfc.
        + destruct p as [|a [|b [|c r]]]; try discriminate H2. now rewrite Hfc.
      - intros a _ Ha. now apply IH.
    Qed.

    Lemma find_cell_pos segs k n : find_cell segs (f_cells f) = Some (k, n) -> wk k n /\ node_at segs = Some n.
    Proof.
      intros E.
      assert (Hin : exists t, In (segs, k, t, n) (f_cells f)).
      { clear - E. induction (f_cells f) as [|[[[p k0] t] n0] l IH]; [discriminate|]. cbn in E.
        destruct (path_eqb segs p) eqn:Ep.
        - inversion E; subst. exists t. left. apply path_eqb_eq in Ep. now subst.
        - destruct (IH E) as [t' Hin]. exists t'. now right. }
      destruct Hin as [t Hin]. destruct (Hcells _ _ _ _ Hin) as (Hw & Hfc & Hlen). split; [exact Hw|].
      unfold node_at. destruct Hlen as [H3|H2].
      - destruct segs as [|a [|b [|c [|d r]]]]; try discriminate H3. now rewrite Hfc.
      - destruct segs as [|a [|b [|c r]]]; try discriminate H2. now rewrite Hfc.
    Qed.

    Lemma resolve_body_good : rec_ok (resolve_body allow files rpath rec).
    Proof.
      intros k dest nd inst path dp s (Hwk & Hinst & Hpos & Hdest) Hdp Hs. subst inst. unfold resolve_body.
      destruct nd as [ref|id kids].
      2:{ assert (Hvo : val_ok (mkTV 0 path (NObj id kids) k)).
          { split; [reflexivity|]. split; [exact Hpos|]. split; [exact I|now apply (wk_okids k)]. }
          assert (Hw : good (fun x => x) (walk_value rec k (Some (mkTV 0 path (NObj id kids) k)) 0%N (Some f) dp s)).
          { apply walk_value_good; auto. now intros x [= <-]. }
          split.
          - apply (bind_good (fun x => x) fst); [exact Hw|]. intros a _ Ha. now apply good_ok.
          - intros s' v H. destruct (walk_value rec k _ 0%N (Some f) dp s); cbn [bind] in H; try discriminate.
            inversion H; subst. split; [exact Hvo|now split]. }
      inversion Hwk as [k0 r0 HK Hhash Hint|]; subst.
      assert (Hst : stores dest ref).
      { destruct Hdest as [E|E]; rewrite E; [exact I|]. now split. }
      destruct (match dest with Some c => val_of c (vals s) | None => None end) as [v|] eqn:Ev.
      { split; [now apply good_ok|]. intros s' v' [= <- <-].
        destruct dest as [[i p]|]; [|discriminate]. apply val_of_in in Ev.
        destruct (proj2 Hs i p v Ev) as (Hi & Hok & r & Hn & Hd). split; [exact Hok|].
        destruct Hst as [_ Hn']. rewrite Hn' in Hn. inversion Hn; subst. exact Hd. }
      destruct (str_in ref (inprog s)).
      { split; [|discriminate]. apply good_ok. cbn [fst]. destruct Hs as [Hb Hv]. split; [|exact Hv].
        intros r c k' Hin. cbn [back] in Hin. apply in_app_or in Hin as [Hin|[E|[]]]; [now apply (Hb r c k')|].
        inversion E; subst. split; [reflexivity|]. destruct c as [[i p]|]; [exact Hst|exact I]. }
      rewrite Hhash, Hint. cbn [negb String.eqb bind].
      set (s0 := mkLS (vals s) (ref :: inprog s) (back s) (docs s) (next s) (reads s) (origin s)).
      assert (Hs0 : Inv s0) by exact Hs.
      destruct (frag_segments (after_hash ref)) as [segs|] eqn:Efrag; [|split; [apply good_err|discriminate]].
      unfold drill. rewrite Hexts. cbn [find_ext].
      destruct (find_cell segs (f_cells f)) as [[kc n]|] eqn:Efc.
      2:{ (* the raw re-read of this very document finds nothing more *)
          destruct dp as [u|]; [|split; [apply good_err|discriminate]].
          cbn in Hdp. unfold do_read. rewrite Hdp. cbn [bind]. rewrite Efc, Hexts. cbn [find_ext].
          split; [apply good_err|discriminate]. }
      cbn [bind].
      destruct (find_cell_pos segs kc n Efc) as [Hwn Hposn].
      destruct (kind_eqb kc (K ref)) eqn:Ek; cbn [negb]; [|split; [apply good_err|discriminate]].
      assert (kc = K ref).
      { unfold kind_eqb in Ek. apply N.eqb_eq in Ek. destruct kc, (K ref); cbn in Ek; congruence || reflexivity. }
      subst kc.
      set (RV := match n with
                 | NObj _ _ => rec (K ref) None n 0%N segs 0%N (Some f) dp s0
                 | NRef _ => match val_of (0%N, segs) (vals s0) with
                             | Some v => ROk (s0, Some v)
                             | None => rec (K ref) None n 0%N segs 0%N (Some f) dp s0
                             end
                 end).
      assert (Hcall : call_ok (K ref) None n 0 segs).
      { split; [exact Hwn|]. split; [reflexivity|]. split; [exact Hposn|now left]. }
      assert (HRV : good fst RV /\ forall s' v, RV = ROk (s', Some v) -> val_ok v /\ designates ref (tv_path v) (tv_node v)).
      { subst RV. destruct n as [r2|id2 kids2].
        - destruct (val_of (0%N, segs) (vals s0)) as [v|] eqn:Ev2.
          + split; [now apply good_ok|]. intros s' v' [= <- <-]. apply val_of_in in Ev2.
            destruct (proj2 Hs0 _ _ _ Ev2) as (_ & Hok & r & Hn & Hd). split; [exact Hok|].
            rewrite Hposn in Hn. inversion Hn; subst. eapply d_chain; eauto.
          + destruct (Hrec (K ref) None (NRef r2) 0%N segs dp s0 Hcall Hdp Hs0) as [Hg Hv]. split; [exact Hg|].
            intros s' v E. destruct (Hv s' v E) as [Hok Hd]. split; [exact Hok|]. eapply d_chain; eauto.
        - destruct (Hrec (K ref) None (NObj id2 kids2) 0%N segs dp s0 Hcall Hdp Hs0) as [Hg Hv]. split; [exact Hg|].
          intros s' v E. destruct (Hv s' v E) as [Hok [Hp Hn]]. split; [exact Hok|].
          rewrite Hp, Hn. now apply d_obj. }
      destruct HRV as [HRVg HRVo].
      destruct RV as [[s3 v]|rd| |] eqn:ERV; cbn [bind].
      2:{ split; [apply good_err|discriminate]. }
      2:{ destruct HRVg as [Hn _]. now contradiction Hn. }
      2:{ split; [split; discriminate|discriminate]. }
      pose proof (proj2 HRVg _ eq_refl) as Hs3. cbn [fst] in Hs3.
      remember (option_map (fun v0 => mkTV (tv_inst v0) (tv_path v0) (tv_node v0) (K ref)) v) as v' eqn:Ev'.
      assert (Hv' : forall x, v' = Some x -> val_ok x /\ designates ref (tv_path x) (tv_node x) /\ tv_kind x = K ref).
      { subst v'. destruct v as [v0|]; [|discriminate]. intros x [= <-]. cbn.
        destruct (HRVo s3 v0 eq_refl) as [Hok Hd]. split; [exact Hok|]. split; [exact Hd|reflexivity]. }
      clear Ev'.
      remember (match v' with Some v0 => set_val dest v0 s3 | None => s3 end) as s4 eqn:Es4.
      assert (Hs4 : Inv s4).
      { subst s4. destruct v' as [x|]; [|exact Hs3]. destruct (Hv' x eq_refl) as (Hok & Hd & _).
        now apply (set_val_inv dest ref). }
      clear Es4.
      assert (Hw : good (fun x => x) (walk_value rec (K ref) v' 0%N (Some f) dp s4)).
      { apply walk_value_good; auto. intros x Hx. exact (proj1 (Hv' x Hx)). }
      destruct (walk_value rec (K ref) v' 0%N (Some f) dp s4) as [s5|rd| |] eqn:Ew; cbn [bind].
      2:{ split; [apply good_err|discriminate]. }
      2:{ destruct Hw as [Hn _]. now contradiction Hn. }
      2:{ split; [split; discriminate|discriminate]. }
      pose proof (proj2 Hw _ eq_refl) as Hs5. cbn in Hs5.
      pose proof (unvisit_good ref v' s5 Hs5 Hv') as Hu.
      destruct (unvisit ref v' s5) as [s6|rd| |] eqn:Eu; cbn [bind].
      + split; [apply good_ok; exact (proj2 Hu _ eq_refl)|]. intros s' x [= _ E]. destruct (Hv' x E) as (Hok & Hd & _). now split.
      + split; [apply good_err|discriminate].
      + destruct Hu as [Hn _]. now contradiction Hn.
      + split; [split; discriminate|discriminate].
    Qed.
  End STEP.

  Theorem resolve_good : forall fuel, rec_ok (resolve allow files rpath fuel).
  Proof.
    induction fuel as [|fuel IH].
    - intros k dest nd inst path dp s _ _ _. cbn. split; [split; discriminate|discriminate].
    - cbn [resolve]. now apply resolve_body_good.
  Qed.

  (* after a load of the document: every stored value is the designated object *)
  Theorem load_sound fuel entry root s :
    files root = Some f ->
    load allow files rpath fuel entry root f = ROk s -> vals_sound s.
  Proof.
    intros Hr. unfold load.
    assert (Hinit : forall s0, back s0 = [] -> vals s0 = [] -> Inv s0).
    { intros s0 Hb Hv. split; [intros r c k H; rewrite Hb in H; destruct H|intros i p v H; rewrite Hv in H; destruct H]. }
    assert (Hall : forall p k t n, In (p, k, t, n) (f_cells f) -> In (p, k, t, n) (f_cells f)) by auto.
    assert (Hgo : forall dp s0, dp_ok dp -> back s0 = [] -> vals s0 = [] ->
                  resolve_cells (resolve allow files rpath fuel) 0 f dp (f_cells f) s0 = ROk s -> vals_sound s).
    { intros dp s0 Hdp Hb Hv E.
      destruct (resolve_cells_good (resolve allow files rpath fuel) (resolve_good fuel) dp Hdp (f_cells f) s0 Hall (Hinit s0 Hb Hv)) as [_ Hi].
      exact (proj2 (Hi s E)). }
    destruct (N.eqb entry 0).
    - unfold do_read. rewrite Hr. cbn [bind]. apply (Hgo (Some root)); [exact Hr|reflexivity|reflexivity].
    - destruct (N.eqb entry 1).
      + apply (Hgo None); [exact I|reflexivity|reflexivity].
      + apply (Hgo (Some root)); [exact Hr|reflexivity|reflexivity].
  Qed.
End SOUND.
