From Coq Require Import DecimalString DecimalNat DecimalFacts.
From KV Require Import Model.Base Model.Json Model.Schema Model.Request Model.ParamCodec Model.Router Proofs.C09Proofs.
From KV Require Import Model.DeepObject Spec.DeepSpec.
Local Open Scope list_scope.

(* ---- strconv.Itoa is injective and never empty ---- *)
Lemma to_uint_nonnil n : Nat.to_uint n <> Decimal.Nil.
Proof.
  pose proof (DecimalNat.Unsigned.to_of (Nat.to_uint n)) as H. rewrite DecimalNat.Unsigned.of_to in H.
  rewrite H. apply DecimalFacts.unorm_nonnil.
Qed.
Lemma itoa_inj a b : itoa a = itoa b -> a = b.
Proof.
  unfold itoa. intros H. apply DecimalNat.Unsigned.to_uint_inj.
  pose proof (NilZero.usu _ (to_uint_nonnil a)) as Ha. pose proof (NilZero.usu _ (to_uint_nonnil b)) as Hb.
  rewrite H in Ha. congruence.
Qed.
Lemma itoa_nonempty n : itoa n <> ""%string.
Proof.
  unfold itoa. intros H. pose proof (NilZero.usu _ (to_uint_nonnil n)) as Hu. rewrite H in Hu. simpl in Hu.
  first [discriminate Hu | (inversion Hu as [Hn]; symmetry in Hn; now apply to_uint_nonnil in Hn)].
Qed.

(* ---- induction over schema trees ---- *)
Section DIND.
  Variable P : dsch -> Prop.
  Hypothesis Hprim : forall c, P (DSPrim c).
  Hypothesis Harr : forall it, P it -> P (DSArr it).
  Hypothesis Hobj_none : forall props, Forall (fun kp => P (snd kp)) props -> P (DSObj props None).
  Hypothesis Hobj_some : forall props a, Forall (fun kp => P (snd kp)) props -> P a -> P (DSObj props (Some a)).
  Fixpoint dsch_ind' (s : dsch) : P s :=
    match s with
    | DSPrim c => Hprim c
    | DSArr it => Harr it (dsch_ind' it)
    | DSObj props ap =>
        let fa := (fix go (l : list (string * dsch)) : Forall (fun kp => P (snd kp)) l :=
                     match l with [] => Forall_nil _ | kp :: r => Forall_cons kp (dsch_ind' (snd kp)) (go r) end) props in
        match ap as o return P (DSObj props o) with
        | None => Hobj_none props fa
        | Some a => Hobj_some props a fa (dsch_ind' a)
        end
    end.
End DIND.

(* declared property names are non-empty (buildResObj does not extend the path by an empty key) *)
Fixpoint names_ok (s : dsch) : bool :=
  match s with
  | DSPrim _ => true
  | DSArr it => names_ok it
  | DSObj props ap =>
      (fix go (l : list (string * dsch)) : bool :=
         match l with [] => true | (k, ps) :: r => negb (String.eqb k "") && names_ok ps && go r end) props
      && match ap with Some a => names_ok a | None => true end
  end.

(* ---- deepGet along a path ---- *)
Lemma deep_get_snoc : forall p root kids k, deep_get root p = Some (PNode kids) ->
  deep_get root (p ++ [k]) = assoc k kids.
Proof.
  induction p as [|k0 p IH]; intros root kids k H.
  - simpl in H. inversion H; subst. simpl. destruct (assoc k kids) as [[s|n]|]; reflexivity.
  - simpl in H. simpl. destruct (assoc k0 root) as [[s|n]|]; try discriminate. now apply IH.
Qed.

Lemma child_path_nonempty mk k : k <> ""%string -> child_path mk k = mk ++ [k].
Proof. intros H. unfold child_path. destruct (String.eqb_spec k ""); [contradiction|reflexivity]. Qed.

Lemma assoc_obj_kids k ms : assoc k (obj_kids ms) = option_map tree_of (assoc k ms).
Proof. induction ms as [|[k' x] ms IH]; simpl; [reflexivity|]. destruct (String.eqb k k'); [reflexivity|exact IH]. Qed.

Lemma assoc_arr_kids : forall l i j, assoc (itoa (i + j)) (arr_kids i l) = option_map tree_of (nth_error l j).
Proof.
  induction l as [|x l IH]; intros i j; simpl.
  - destruct j; reflexivity.
  - destruct j as [|j].
    + rewrite Nat.add_0_r, String.eqb_refl. reflexivity.
    + destruct (String.eqb_spec (itoa (i + S j)) (itoa i)) as [E|_].
      * apply itoa_inj in E. lia.
      * replace (i + S j) with (S i + j) by lia. apply IH.
Qed.

Section BUILD.
  Variable parse_int64 parse_int32 : string -> option Z.
  Variable parse_float : string -> option float.
  Variable atoi : string -> option Z.
  Hypothesis atoi_itoa : forall n, atoi (itoa n) = Some (Z.of_nat n).   (* strconv.Atoi inverts strconv.Itoa *)

  Notation build := (build parse_int64 parse_int32 parse_float atoi).
  Notation reading := (reading parse_int64 parse_int32 parse_float).

  Lemma reading_not_nil : forall s v p, reading s v = Some p -> p <> PNil.
  Proof.
    intros s v p H. destruct s as [c|it|decl [a|]]; cbn [DeepSpec.reading] in H.
    - destruct v as [t| |]; try discriminate H.
      destruct (parse_primitive parse_int64 parse_int32 parse_float t c) as [[]|]; cbn in H; try discriminate H; inversion H; subst; intros E; discriminate E.
    - destruct v as [|[|x l]|]; try discriminate H.
      destruct (all_some (map (reading it) (x :: l))); cbn in H; [|discriminate H]. inversion H; subst. discriminate.
    - destruct v as [| |ms]; try discriminate H.
      destruct (obj_loop _ decl []); [|discriminate H].
      destruct (obj_loop _ ms _); cbn in H; [|discriminate H]. inversion H; subst. discriminate.
    - destruct v as [| |ms]; try discriminate H.
      destruct (obj_loop _ decl []); cbn in H; [|discriminate H]. inversion H; subst. discriminate.
  Qed.

  (* nothing under the path: nil, whatever the schema *)
  Lemma build_absent s root mk key : deep_get root (child_path mk key) = None -> build root s mk key = BOk PNil.
  Proof. intros H. destruct s as [c|it|decl ap]; cbn [DeepObject.build]; now rewrite H. Qed.

  (* sliceMapToSlice on the map of an array value: its length *)
  Lemma arr_keys_ok : forall l i,
    existsb (fun k : option Z => match k with None => true | Some _ => false end)
            (map (fun kv : string * ptree => atoi (fst kv)) (arr_kids i l)) = false.
  Proof. induction l as [|x l IH]; intros i; simpl; [reflexivity|]. rewrite atoi_itoa. apply IH. Qed.
  Lemma arr_keys_max : forall l i acc, (Z.of_nat i - 1 <= acc)%Z ->
    fold_left (fun a (k : option Z) => match k with Some z => Z.max a z | None => a end)
              (map (fun kv : string * ptree => atoi (fst kv)) (arr_kids i l)) acc
    = Z.max acc (Z.of_nat i + Z.of_nat (List.length l) - 1)%Z.
  Proof.
    induction l as [|x l IH]; intros i acc H; simpl.
    - lia.
    - rewrite atoi_itoa. rewrite IH by lia. lia.
  Qed.
  Lemma arr_kids_length : forall l i, List.length (arr_kids i l) = List.length l.
  Proof. induction l as [|x l IH]; intros i; simpl; [reflexivity|]. now rewrite IH. Qed.
  Lemma slice_len_arr l : slice_len atoi (arr_kids 0 l) = Some (List.length l).
  Proof.
    unfold slice_len. rewrite arr_keys_ok. rewrite arr_keys_max by (simpl; lia). rewrite arr_kids_length.
    destruct (Z.leb_spec (Z.of_nat (List.length l) + 4096) (Z.max (-1) (Z.of_nat 0 + Z.of_nat (List.length l) - 1))) as [H|H]; [lia|].
    f_equal. lia.
  Qed.

  Lemma collect_all_some (f : nat -> bres) (g : dval -> option pval) : forall l i ps,
    (forall j x p, nth_error l j = Some x -> g x = Some p -> f (i + j) = BOk p) ->
    all_some (map g l) = Some ps -> collect (map f (List.seq i (List.length l))) = Some ps.
  Proof.
    induction l as [|x l IH]; intros i ps Hf H; simpl in *.
    - inversion H. reflexivity.
    - destruct (g x) as [p|] eqn:Eg; [|discriminate].
      destruct (all_some (map g l)) as [ps'|] eqn:Ea; [|discriminate]. inversion H; subst ps.
      rewrite <- (Nat.add_0_r i) at 1. rewrite (Hf 0 x p eq_refl Eg). simpl.
      rewrite (IH (S i) ps'); [reflexivity| |reflexivity].
      intros j y q Hn Hg. replace (S i + j) with (i + S j) by lia. now apply (Hf (S j) y q).
  Qed.

  Lemma assoc_wf k ms x : assoc k ms = Some x -> wf_members ms -> wfv x.
  Proof.
    induction ms as [|[k' y] ms IH]; simpl; [discriminate|]. intros H [Hy Hr].
    destruct (String.eqb k k'); [now inversion H; subst|auto].
  Qed.
  Lemma assoc_nek k ms x : assoc k ms = Some x -> nek_members ms -> nek x.
  Proof.
    induction ms as [|[k' y] ms IH]; simpl; [discriminate|]. intros H (_ & Hy & Hr).
    destruct (String.eqb k k'); [now inversion H; subst|auto].
  Qed.
  Lemma nth_wf : forall l j x, nth_error l j = Some x -> wf_all l -> wfv x.
  Proof. induction l as [|y l IH]; intros [|j] x H Hw; simpl in H; try discriminate; destruct Hw as [Hy Hr]; [now inversion H; subst|eauto]. Qed.
  Lemma nth_nek : forall l j x, nth_error l j = Some x -> nek_all l -> nek x.
  Proof. induction l as [|y l IH]; intros [|j] x H Hw; simpl in H; try discriminate; destruct Hw as [Hy Hr]; [now inversion H; subst|eauto]. Qed.

  Definition build_ok (s : dsch) : Prop :=
    names_ok s = true -> forall v p root mk key, wfv v -> nek v ->
      deep_get root (child_path mk key) = Some (tree_of v) -> reading s v = Some p ->
      build root s mk key = BOk p.
  Definition decl_names : list (string * dsch) -> bool :=
    fix go (l : list (string * dsch)) : bool :=
      match l with [] => true | (k, ps) :: r => negb (String.eqb k "") && names_ok ps && go r end.

  (* the loop over the declared properties *)
  Lemma decl_loop ms root mk key : wf_members ms -> nek_members ms ->
    deep_get root (child_path mk key) = Some (PNode (obj_kids ms)) ->
    forall l acc m0, Forall (fun kp => build_ok (snd kp)) l -> decl_names l = true ->
      obj_loop (fun k ps => match assoc k ms with
                            | None => BOk PNil
                            | Some x => match reading ps x with Some p => BOk p | None => BErr end
                            end) l acc = Some m0 ->
      obj_loop (fun k ps => build root ps (child_path mk key) k) l acc = Some m0.
  Proof.
    intros Hwm Hnm Hg. induction l as [|[k ps] l IHl]; intros acc m0 Hall Hnames Hl; [exact Hl|].
    inversion Hall as [|? ? Hps Hall']; subst. cbn [obj_loop] in Hl |- *. cbn [decl_names] in Hnames.
    apply andb_true_iff in Hnames. destruct Hnames as [Hk Hrest]. apply andb_true_iff in Hk. destruct Hk as [Hk Hps'].
    apply negb_true_iff in Hk. apply String.eqb_neq in Hk.
    assert (Hpath : deep_get root (child_path (child_path mk key) k) = option_map tree_of (assoc k ms)).
    { rewrite child_path_nonempty by exact Hk. rewrite (deep_get_snoc _ _ _ _ Hg). apply assoc_obj_kids. }
    destruct (assoc k ms) as [x|] eqn:Ex.
    - destruct (reading ps x) as [q|] eqn:Eq; [|discriminate].
      simpl in Hps. rewrite (Hps Hps' x q root (child_path mk key) k (assoc_wf _ _ _ Ex Hwm) (assoc_nek _ _ _ Ex Hnm) Hpath Eq).
      pose proof (reading_not_nil _ _ _ Eq) as Hnn.
      destruct q; try congruence; now apply IHl.
    - rewrite build_absent by exact Hpath. now apply IHl.
  Qed.

  Lemma assoc_in_nodup {A} : forall (l : list (string * A)) k x, NoDup (map fst l) -> In (k, x) l -> assoc k l = Some x.
  Proof.
    induction l as [|[k' y] l IH]; intros k x Hnd Hin; [destruct Hin|]. simpl. inversion Hnd as [|? ? Hni Hnd']; subst.
    destruct Hin as [E|Hin].
    - inversion E; subst. now rewrite String.eqb_refl.
    - destruct (String.eqb_spec k k') as [->|_]; [|now apply IH].
      exfalso. apply Hni. apply (in_map fst) in Hin. exact Hin.
  Qed.

  (* the loop over the members of the parameter tree, for additionalProperties *)
  Lemma ap_loop (decl : list (string * dsch)) a ms root mk key : build_ok a -> names_ok a = true ->
    NoDup (map fst ms) -> wf_members ms -> nek_members ms ->
    deep_get root (child_path mk key) = Some (PNode (obj_kids ms)) ->
    forall l acc m0, (forall k x, In (k, x) l -> In (k, x) ms) ->
      obj_loop (fun k x => if has_key k decl then BOk PNil
                           else match reading a x with Some p => BOk p | None => BErr end) l acc = Some m0 ->
      obj_loop (fun k (_ : ptree) => if has_key k decl then BOk PNil else build root a (child_path mk key) k) (obj_kids l) acc = Some m0.
  Proof.
    intros Ha Hna Hnd Hwm Hnm Hg. induction l as [|[k x] l IHl]; intros acc m0 Hsub Hl; [exact Hl|].
    cbn [obj_loop obj_kids] in Hl |- *.
    assert (Hrest : forall k0 x0, In (k0, x0) l -> In (k0, x0) ms) by (intros; apply Hsub; now right).
    destruct (has_key k decl); [now apply IHl|].
    assert (Hin : In (k, x) ms) by (apply Hsub; now left).
    pose proof (assoc_in_nodup ms k x Hnd Hin) as Ex.
    assert (Hk : k <> ""%string).
    { clear - Hin Hnm. induction ms as [|[k' y] ms IH]; [destruct Hin|]. destruct Hnm as (Hk' & _ & Hr).
      destruct Hin as [E|Hin]; [now inversion E; subst|auto]. }
    assert (Hpath : deep_get root (child_path (child_path mk key) k) = Some (tree_of x)).
    { rewrite child_path_nonempty by exact Hk. rewrite (deep_get_snoc _ _ _ _ Hg). rewrite assoc_obj_kids, Ex. reflexivity. }
    destruct (reading a x) as [q|] eqn:Eq; [|discriminate].
    rewrite (Ha Hna x q root (child_path mk key) k (assoc_wf _ _ _ Ex Hwm) (assoc_nek _ _ _ Ex Hnm) Hpath Eq).
    pose proof (reading_not_nil _ _ _ Eq) as Hnn.
    destruct q; try congruence; now apply IHl.
  Qed.

  (* buildResObj on the parameter tree of a value: the value read at the declared types, for
     schema trees and values of any depth, additionalProperties included *)
  Theorem build_reading : forall s, build_ok s.
  Proof.
    induction s as [c|it IH|decl IHd|decl a IHd IHa] using dsch_ind'; intros Hn v p root mk key Hw Hk Hg Hr.
    - (* primitive *)
      simpl in Hr. destruct v as [t| |]; try discriminate. cbn [DeepObject.build]. rewrite Hg. simpl.
      destruct (parse_primitive parse_int64 parse_int32 parse_float t c) as [[]|]; try discriminate; now inversion Hr.
    - (* array *)
      cbn [DeepSpec.reading] in Hr. destruct v as [|[|x l]|]; try discriminate.
      destruct (all_some (map (reading it) (x :: l))) as [ps|] eqn:Ea; cbn in Hr; [|discriminate Hr]. inversion Hr; subst p.
      rewrite tree_of_arr in Hg. cbn [DeepObject.build]. rewrite Hg. rewrite slice_len_arr.
      rewrite wfv_arr in Hw. destruct Hw as [_ Hw]. rewrite nek_arr in Hk.
      rewrite (collect_all_some _ (reading it) (x :: l) 0 ps); [reflexivity| |exact Ea].
      intros j y q Hnth Hq. simpl (0 + j).
      apply (IH Hn y q); [exact (nth_wf _ _ _ Hnth Hw)|exact (nth_nek _ _ _ Hnth Hk)| |exact Hq].
      rewrite child_path_nonempty by apply itoa_nonempty.
      rewrite (deep_get_snoc _ _ _ _ Hg). change j with (0 + j). rewrite assoc_arr_kids. now rewrite Hnth.
    - (* object with declared properties only *)
      cbn [DeepSpec.reading] in Hr. destruct v as [| |ms]; try discriminate.
      destruct (obj_loop _ decl []) as [m|] eqn:El; cbn in Hr; [|discriminate Hr]. inversion Hr; subst p.
      rewrite tree_of_obj in Hg. cbn [DeepObject.build]. rewrite Hg.
      rewrite wfv_obj in Hw. destruct Hw as (_ & Hnd & Hw). rewrite nek_obj in Hk.
      simpl in Hn. rewrite andb_true_r in Hn.
      rewrite (decl_loop ms root mk key Hw Hk Hg decl [] m IHd Hn El). reflexivity.
    - (* object with additionalProperties *)
      cbn [DeepSpec.reading] in Hr. destruct v as [| |ms]; try discriminate.
      destruct (obj_loop _ decl []) as [m|] eqn:El; [|discriminate Hr].
      destruct (obj_loop _ ms m) as [m'|] eqn:El2; cbn in Hr; [|discriminate Hr]. inversion Hr; subst p.
      rewrite tree_of_obj in Hg. cbn [DeepObject.build]. rewrite Hg.
      rewrite wfv_obj in Hw. destruct Hw as (_ & Hnd & Hw). rewrite nek_obj in Hk.
      simpl in Hn. apply andb_true_iff in Hn. destruct Hn as [Hn Hna].
      rewrite (decl_loop ms root mk key Hw Hk Hg decl [] m IHd Hn El).
      rewrite (ap_loop decl a ms root mk key IHa Hna Hnd Hw Hk Hg ms m m' (fun _ _ H => H) El2). reflexivity.
  Qed.
End BUILD.
