From Coq Require Import Permutation.
From KV Require Import Model.Base Model.Json Model.Schema Model.Request Model.ParamCodec Model.Router Model.Server Proofs.C09Proofs Proofs.ServerProofs.
From KV Require Import Model.DeepObject Spec.DeepSpec Proofs.DeepBuild Proofs.DeepSer Proofs.DeepKeys.
From KV Require Import Proofs.DeepOrder Proofs.DeepFound.
Local Open Scope list_scope.

Section FINAL.
  Variable parse_int64 parse_int32 : string -> option Z.
  Variable parse_float : string -> option float.
  Variable atoi : string -> option Z.
  Hypothesis atoi_itoa : forall n, atoi (itoa n) = Some (Z.of_nat n).

  (* the deepObject decoder inverts the deepObject serialisation: for every schema tree of objects with
     declared properties, arrays and primitives, every well-formed object value of any depth whose
     members are all declared, and every order of the query keys, the decoder returns the value read
     at the declared types, reports the parameter as found, and no error *)
  Theorem deep_decode_roundtrip_full : forall name s ms p q',
    no_byte "["%char name = true -> names_ok s = true -> no_ap s = true ->
    wfv (VObj ms) -> nek (VObj ms) -> keys_ok (VObj ms) -> texts_ok (ser [] (VObj ms)) = true ->
    declared_all s (VObj ms) ->
    reading parse_int64 parse_int32 parse_float s (VObj ms) = Some p ->
    Permutation (query_of name (ser [] (VObj ms))) q' ->
    deep_decode parse_int64 parse_int32 parse_float atoi name s q' = DRes p true None.
  Proof.
    intros name s ms p q' Hname Hn Hap Hw Hnek Hk Ht Hda Hr Hp.
    assert (Hpaths : Forall (fun pt : list string * string => fst pt <> [] /\ Forall (fun k => no_byte "]"%char k = true) (fst pt)) (ser [] (VObj ms))).
    { pose proof (ser_paths_deeper (VObj ms) name I) as H1. pose proof (ser_paths_ok (VObj ms) [] Hk (Forall_nil _)) as H2.
      rewrite Forall_forall in *. intros pt Hin. split.
      - destruct (H1 pt Hin) as [_ (k2 & rest & E)]. rewrite E. discriminate.
      - apply (H2 pt Hin). }
    assert (Hprops : Permutation (ser [] (VObj ms)) (deep_props name q')).
    { rewrite <- (deep_props_query_of name _ Hname Hpaths) at 1. unfold deep_props. now apply Permutation_flat_map. }
    destruct (make_object_roundtrip_any_order parse_int64 parse_int32 parse_float atoi atoi_itoa s ms p _ Hn Hap Hw Hnek Ht Hr Hprops) as (tree & Hm & Hb).
    pose proof (paths_found parse_int64 parse_int32 parse_float s (VObj ms) p Hr Hda Hw) as Hfound.
    unfold deep_decode.
    destruct (deep_props name q') as [|pt rest] eqn:Ep.
    { exfalso. apply Permutation_sym, Permutation_nil in Hprops. apply (ser_nonempty (VObj ms) [] Hw Hprops). }
    rewrite Hm, Hb.
    destruct s as [c|it|decl [a|]]; cbn [no_ap] in Hap; rewrite ?andb_false_r in Hap; try discriminate Hap; cbn [reading] in Hr; try discriminate.
    destruct (obj_loop _ decl []) as [m|]; cbn in Hr; [|discriminate]. inversion Hr; subst p.
    (* some property is declared: the value has a member and all members are declared *)
    destruct decl as [|d0 decl'].
    { exfalso. cbn [declared_all] in Hda. destruct Hda as (_ & _ & Hsub). rewrite wfv_obj in Hw. destruct Hw as [Hne _].
      destruct ms as [|[k0 x0] ms0]; [congruence|]. apply (Hsub k0). now left. }
    f_equal. apply orb_true_iff. right. cbn [existsb].
    rewrite (Hfound pt); [reflexivity|]. eapply Permutation_in; [apply Permutation_sym; exact Hprops|now left].
  Qed.
End FINAL.
