(* C05: an exploded form object parameter is absent when the query carries keys of other parameters only. *)
From KV Require Import Model.Base Model.Json Model.Schema Model.Request Model.ParamCodec.
Local Open Scope list_scope.

Section A.
  Variable pi64 pi32 : string -> option Z.
  Variable pf : string -> option float.

  Lemma build_props_none_present : forall (ps : list (string * string)) (decl : list (string * score)) acc,
    (forall k, In k (map fst decl) -> assoc k ps = None) ->
    build_props pi64 pi32 pf ps decl acc = Some acc.
  Proof.
    intros ps. induction decl as [|[k c] decl IH]; intros acc H; [reflexivity|].
    cbn [build_props]. unfold build_prop. rewrite (H k) by (now left). apply IH. intros k' Hk'. apply H. now right.
  Qed.

  Lemma existsb_false {A} (f : A -> bool) l : (forall x, In x l -> f x = false) -> existsb f l = false.
  Proof. induction l as [|x l IH]; intros H; [reflexivity|]. cbn. rewrite (H x) by (now left). apply IH. intros y Hy. apply H. now right. Qed.

  (* for every object schema without an additionalProperties schema and every query none of whose
     keys is a declared property: the exploded form object parameter is decoded as absent (not found,
     no value, no error) - whatever the other keys are *)
  Theorem query_object_absent_among_others : forall name s decl q,
    shape_of s = ShObj decl None ->
    (forall k, In k (map fst decl) -> assoc k (map (fun kv : string * list string => (fst kv, first_of (snd kv))) q) = None) ->
    query_decode pi64 pi32 pf name "form" true s q = DRes PNil false None.
  Proof.
    intros name s decl q Hs Hk. destruct q as [|kv q]; [reflexivity|].
    unfold query_decode. rewrite Hs. cbn [String.eqb Ascii.eqb Bool.eqb].
    set (ps := map (fun kv0 : string * list string => (fst kv0, first_of (snd kv0))) (kv :: q)) in *.
    destruct ps as [|p0 ps'] eqn:Eps; [discriminate Eps|]. rewrite <- Eps in *. clear Eps p0 ps'.
    unfold make_object. rewrite (build_props_none_present ps decl [] Hk).
    assert (Hf : match decl with
                 | [] => false
                 | _ => existsb (fun kc : string * score => match assoc (fst kc) ps with Some _ => true | None => false end) decl
                        || existsb (fun kv0 : string * string => match assoc (fst kv0) (@nil (string * pval)) with Some _ => true | None => false end) ps
                 end = false).
    { destruct decl as [|d decl']; [reflexivity|]. apply Bool.orb_false_iff. split.
      - apply existsb_false. intros [k c] Hin. cbn [fst]. rewrite (Hk k); [reflexivity|]. now apply (in_map fst) in Hin.
      - apply existsb_false. intros x _. reflexivity. }
    rewrite Hf. reflexivity.
  Qed.
End A.
