From KV Require Import Model.Base Model.Json Model.Schema Model.Request Model.ParamCodec Model.DeepObject Model.Router Proofs.C09Proofs.
Local Open Scope list_scope.

(* after deepSet the path exists: it ends on the value just set, or on a nested object that was
   there before (the nested form wins) *)
Theorem deep_set_get : forall ks m v, ks <> [] ->
  deep_get (deep_set m ks v) ks = Some (PLeaf v) \/
  exists n, deep_get (deep_set m ks v) ks = Some (PNode n) /\ deep_get m ks = Some (PNode n).
Proof.
  induction ks as [|k ks IH]; intros m v Hne; [congruence|].
  destruct ks as [|k2 ks'].
  - cbn [deep_set deep_get]. destruct (assoc k m) as [[s|n]|] eqn:E.
    + left. now rewrite assoc_upd_same.
    + right. exists n. rewrite E. auto.
    + left. now rewrite assoc_upd_same.
  - change (deep_set m (k :: k2 :: ks') v) with
      (upd k (PNode (deep_set (match assoc k m with Some (PNode n) => n | _ => [] end) (k2 :: ks') v)) m).
    cbn [deep_get]. rewrite assoc_upd_same.
    set (next := match assoc k m with Some (PNode n) => n | _ => [] end).
    destruct (IH next v ltac:(discriminate)) as [H|(n & H1 & H2)].
    + left. exact H.
    + destruct (assoc k m) as [[s|n0]|] eqn:E; subst next.
      * simpl in H2. discriminate.
      * right. exists n. split; [exact H1|exact H2].
      * simpl in H2. discriminate.
Qed.

(* a key set elsewhere is not disturbed: paths that part at the first key *)
Theorem deep_set_other_key : forall k ks m v k' ks', k' <> k ->
  deep_get (deep_set m (k :: ks) v) (k' :: ks') = deep_get m (k' :: ks').
Proof.
  intros k ks m v k' ks' Hne. destruct ks as [|k2 ks2].
  - cbn [deep_set deep_get]. destruct (assoc k m) as [[s|n]|]; try reflexivity; now rewrite assoc_upd_other.
  - change (deep_set m (k :: k2 :: ks2) v) with
      (upd k (PNode (deep_set (match assoc k m with Some (PNode n) => n | _ => [] end) (k2 :: ks2) v)) m).
    cbn [deep_get]. now rewrite assoc_upd_other.
Qed.
