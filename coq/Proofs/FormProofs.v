From KV Require Import Model.Base Model.Json Model.Schema Model.Request Model.ParamCodec Spec.ParamSpec Proofs.C05Proofs Proofs.C09Proofs.
From KV Require Import Model.FormBody.
Local Open Scope list_scope.

(* a form field: one text, or the texts of an array (repeated key) *)
Inductive field := FPrim (t : string) | FArr (ts : list string).
Definition field_values (f : field) : list string := match f with FPrim t => [t] | FArr ts => ts end.
(* the parsed form (url.Values) of a list of fields *)
Definition form_of (fields : list (string * field)) : list (string * list string) :=
  map (fun nf => (fst nf, field_values (snd nf))) fields.

Section FP.
  Variable pi64 pi32 : string -> option Z.
  Variable pf : string -> option float.

  Definition non_nil (v : pval) : bool := match v with PNil => false | _ => true end.

  (* the value a field stands for under the property's schema (None: not a value of it) *)
  Definition field_reading (ps : schema) (f : field) : option pval :=
    match f, shape_of ps with
    | FPrim t, ShPrim =>
        match parse_primitive pi64 pi32 pf t (core_of ps) with
        | PROk PNil => None
        | PROk p => Some p
        | PRErr _ => None
        end
    | FArr (t :: ts), ShArr (Some ic) =>
        match leaves pi64 pi32 pf (t :: ts) ic with
        | Some vs => if forallb non_nil vs then Some (PA vs) else None
        | None => None
        end
    | _, _ => None
    end.

  (* the object the form stands for: the declared properties that are carried, read at their types *)
  Definition form_value (props : list (string * schema)) (fields : list (string * field)) : option (list (string * pval)) :=
    fold_left (fun acc kp =>
                 match acc with
                 | None => None
                 | Some m => match assoc (fst kp) fields with
                             | None => Some m
                             | Some f => match field_reading (snd kp) f with
                                         | Some p => Some (upd (fst kp) p m)
                                         | None => None
                                         end
                             end
                 end) props (Some []).

  Lemma assoc_form_of k fields : assoc k (form_of fields) = option_map field_values (assoc k fields).
  Proof. induction fields as [|[k' f] fs IH]; simpl; [reflexivity|]. destruct (String.eqb k k'); [reflexivity|exact IH]. Qed.

  (* a property the form does not carry decodes to nil, whatever its (non-object) schema *)
  Lemma query_absent name s q : q <> [] -> assoc name q = None -> bad_prop s = false ->
    exists found, query_decode pi64 pi32 pf name "form" true s q = DRes PNil found None.
  Proof.
    intros Hq Ha Hb. unfold query_decode. destruct q as [|kv q']; [congruence|]. rewrite Ha.
    destruct s as [c n o a l it props ap]. unfold shape_of, bad_prop in *. cbn [core_of].
    destruct (c_types c) as [tys|] eqn:Et.
    - destruct (is_type c "array") eqn:Earr.
      + eexists. reflexivity.
      + destruct (is_type c "object") eqn:Eobj; [discriminate|]. eexists. reflexivity.
    - destruct (negb (String.eqb (c_pattern c) "")); eexists; reflexivity.
  Qed.

  (* what a property decodes to depends on its own key only *)
  Lemma query_local name s q vs : assoc name q = Some vs ->
    (match shape_of s with ShObj _ _ => False | _ => True end) ->
    query_decode pi64 pi32 pf name "form" true s q = query_decode pi64 pi32 pf name "form" true s [(name, vs)].
  Proof.
    intros Ha Hs. unfold query_decode. destruct q as [|kv q']; [discriminate|]. rewrite Ha.
    cbn [assoc]. rewrite !String.eqb_refl. revert Hs. destruct (shape_of s); intros Hs; try reflexivity. contradiction.
  Qed.

  Lemma forallb_non_nil vs : forallb non_nil vs = true -> Forall (fun v => v <> PNil) vs.
  Proof. induction vs as [|v vs IH]; simpl; intros H; constructor; apply andb_true_iff in H; destruct H as [H1 H2]; [destruct v; try discriminate; discriminate|auto]. Qed.

  Lemma query_present name ps f p fields : assoc name fields = Some f -> field_reading ps f = Some p ->
    query_decode pi64 pi32 pf name "form" true ps (form_of fields) = DRes p true None /\ p <> PNil.
  Proof.
    intros Ha Hr. unfold field_reading in Hr.
    assert (Haq : assoc name (form_of fields) = Some (field_values f)) by (rewrite assoc_form_of, Ha; reflexivity).
    destruct f as [t|ts].
    - destruct (shape_of ps) as [|item|decl ap|] eqn:Hs; try discriminate.
      rewrite (query_local name ps _ _ Haq) by now rewrite Hs.
      change [(name, field_values (FPrim t))] with (ser_query "form" true name (SPrim t)).
      rewrite (query_prim_roundtrip pi64 pi32 pf name true ps t Hs).
      destruct (parse_primitive pi64 pi32 pf t (core_of ps)) as [v|e]; [|discriminate].
      destruct v; try discriminate; inversion Hr; subst; split; try reflexivity; discriminate.
    - destruct ts as [|t ts]; [discriminate|]. destruct (shape_of ps) as [|item|decl ap|] eqn:Hs; try discriminate. destruct item as [ic|]; [|discriminate].
      destruct (leaves pi64 pi32 pf (t :: ts) ic) as [vs|] eqn:El; [|discriminate].
      destruct (forallb non_nil vs) eqn:Ef; [|discriminate]. inversion Hr; subst p.
      rewrite (query_local name ps _ _ Haq) by now rewrite Hs.
      change [(name, field_values (FArr (t :: ts)))] with (ser_query "form" true name (SArr (t :: ts))).
      split; [|discriminate].
      apply (query_array_roundtrip pi64 pi32 pf name "form" true ps ic (t :: ts) vs); auto.
      + discriminate.
      + discriminate.
      + now apply forallb_non_nil.
  Qed.

  (* the urlencoded decoder returns the object the form stands for: for every flat object schema
     (primitive and array-of-primitive properties) and every form whose carried declared properties
     are values of their schemas *)
  Theorem form_decode_reads_value c n o a l it props ap fields m :
    is_type c "object" = true -> existsb (fun kp => bad_prop (snd kp)) props = false -> fields <> [] ->
    form_value props fields = Some m ->
    form_decode pi64 pi32 pf (Sch c n o a l it props ap) (form_of fields) = Some m.
  Proof.
    intros Hobj Hbad Hne Hv. unfold form_decode. rewrite Hobj, Hbad. cbn [negb]. f_equal.
    unfold form_value in Hv. revert Hv. generalize (@nil (string * pval)) as acc.
    induction props as [|[k ps] props IH]; intros acc Hv.
    - cbn in Hv. now inversion Hv.
    - cbn [existsb snd] in Hbad. apply orb_false_iff in Hbad. destruct Hbad as [Hb1 Hb2].
      cbn [fold_left fst snd] in Hv |- *.
      destruct (assoc k fields) as [f|] eqn:Ea.
      + destruct (field_reading ps f) as [p|] eqn:Er.
        * destruct (query_present k ps f p fields Ea Er) as [Hq Hnn]. rewrite Hq.
          replace (is_nil_val p) with false by (destruct p; try reflexivity; congruence).
          apply (IH Hb2 _ Hv).
        * exfalso. clear - Hv. induction props as [|kp props IHp]; cbn in Hv; [discriminate|auto].
      + assert (Hq : form_of fields <> []) by (destruct fields; [congruence|discriminate]).
        destruct (query_absent k ps (form_of fields) Hq) as [found Hd]; [now rewrite assoc_form_of, Ea|exact Hb1|].
        rewrite Hd. cbn [is_nil_val]. apply (IH Hb2 _ Hv).
  Qed.
End FP.
