From KV Require Import Model.Base Model.Json Model.Schema Model.Request Model.Lookup Model.ParamCodec Model.Defaults
     Spec.ParamSpec Proofs.C05Proofs Proofs.C05Object.
Local Open Scope list_scope.

(* ---- the body stream ---- *)
Lemma security_phase_fresh d reqs : security_phase (SFresh d) reqs true = SFresh d.
Proof. induction reqs as [|[decl cbs] r IH]; [reflexivity|]. cbn. exact IH. Qed.

Theorem stream_readable data reqs body_checked valid defaults_set rewritten :
  request_stream data true reqs body_checked valid defaults_set rewritten
  = SFresh (if body_checked && valid && defaults_set then rewritten else data).
Proof.
  unfold request_stream. rewrite security_phase_fresh.
  destruct body_checked; [|reflexivity]. cbn. destruct valid, defaults_set; reflexivity.
Qed.

(* ---- set_member / add_defaults ---- *)
Lemma assoc_set_same k v l : assoc k (set_member k v l) = Some v.
Proof.
  induction l as [|[k' v'] l IH]; cbn; [now rewrite String.eqb_refl|].
  destruct (String.eqb_spec k k') as [->|Hn]; cbn; [now rewrite String.eqb_refl|].
  destruct (String.ltb k k'); cbn.
  - now rewrite String.eqb_refl.
  - destruct (String.eqb_spec k k'); [contradiction|exact IH].
Qed.
Lemma assoc_set_other k k2 v l : k2 <> k -> assoc k2 (set_member k v l) = assoc k2 l.
Proof.
  intros Hne. induction l as [|[k' v'] l IH]; cbn.
  - destruct (String.eqb_spec k2 k); [contradiction|reflexivity].
  - destruct (String.eqb_spec k k') as [->|Hn]; cbn.
    + destruct (String.eqb_spec k2 k'); [contradiction|reflexivity].
    + destruct (String.ltb k k'); cbn.
      * destruct (String.eqb_spec k2 k); [contradiction|reflexivity].
      * destruct (String.eqb k2 k'); [reflexivity|exact IH].
Qed.

Definition gets_default (roOff : bool) (pc : score) : option json :=
  match has_default pc with
  | Some d => if negb (c_readOnly pc && negb roOff) then Some d else None
  | None => None
  end.

Lemma has_default_nonnull pc d : has_default pc = Some d -> d <> JNull.
Proof. unfold has_default. destruct (c_default pc) as [[]|]; intros H; inversion H; discriminate. Qed.

Lemma lacks_set_other k k2 v l : k2 <> k -> lacks (set_member k v l) k2 = lacks l k2.
Proof. intros H. unfold lacks. now rewrite assoc_set_other. Qed.
Lemma lacks_set_same k v l : v <> JNull -> lacks (set_member k v l) k = false.
Proof. intros H. unfold lacks. rewrite assoc_set_same. destruct v; try reflexivity. now contradiction H. Qed.

(* a member that carries a value is never touched *)
Lemma add_defaults_keeps roOff props : forall l k x,
  assoc k l = Some x -> x <> JNull -> assoc k (add_defaults roOff props l) = Some x.
Proof.
  induction props as [|[k' pc] props IH]; intros l k x Hk Hx; [exact Hk|]. cbn [add_defaults].
  apply IH; [|exact Hx].
  destruct (has_default pc) as [d|]; [|exact Hk].
  destruct (lacks l k' && negb (c_readOnly pc && negb roOff)) eqn:E; [|exact Hk].
  apply andb_prop in E as [El _].
  destruct (String.eqb_spec k k') as [->|Hn]; [|now rewrite assoc_set_other].
  unfold lacks in El. rewrite Hk in El. destruct x; try discriminate El. now contradiction Hx.
Qed.

(* once a member carries a value it keeps one *)
Lemma add_defaults_mono roOff props : forall l k, lacks l k = false -> lacks (add_defaults roOff props l) k = false.
Proof.
  intros l k H. unfold lacks in *. destruct (assoc k l) as [x|] eqn:E; [|discriminate H].
  assert (Hx : x <> JNull) by (intros ->; discriminate H).
  rewrite (add_defaults_keeps roOff props l k x E Hx). destruct x; try reflexivity. now contradiction Hx.
Qed.

(* every declared property that has an applicable default carries a value afterwards *)
Lemma add_defaults_fills roOff props : forall l k pc d,
  In (k, pc) props -> gets_default roOff pc = Some d -> lacks (add_defaults roOff props l) k = false.
Proof.
  induction props as [|[k' pc'] props IH]; intros l k pc d Hin Hg; [destruct Hin|].
  cbn [add_defaults]. destruct Hin as [E|Hin]; [|eapply IH; eauto].
  inversion E; subst k' pc'. unfold gets_default in Hg.
  destruct (has_default pc) as [d'|] eqn:Hd; [|discriminate].
  destruct (negb (c_readOnly pc && negb roOff)) eqn:Hr; [|discriminate].
  apply add_defaults_mono.
  destruct (lacks l k) eqn:El; cbn [andb]; [|exact El].
  apply lacks_set_same. eapply has_default_nonnull; eauto.
Qed.

(* nothing to add: the list is returned unchanged *)
Lemma add_defaults_noop roOff props : forall l,
  (forall k pc d, In (k, pc) props -> gets_default roOff pc = Some d -> lacks l k = false) ->
  add_defaults roOff props l = l.
Proof.
  induction props as [|[k pc] props IH]; intros l H; [reflexivity|]. cbn [add_defaults].
  assert (E : match has_default pc with
              | Some d => if lacks l k && negb (c_readOnly pc && negb roOff) then set_member k d l else l
              | None => l end = l).
  { destruct (has_default pc) as [d|] eqn:Hd; [|reflexivity].
    destruct (negb (c_readOnly pc && negb roOff)) eqn:Hr; [|now rewrite Bool.andb_false_r].
    rewrite (H k pc d (or_introl eq_refl)); [reflexivity|]. unfold gets_default. now rewrite Hd, Hr. }
  rewrite E. apply IH. intros k' pc' d' Hin Hg. eapply H; [right; exact Hin|exact Hg].
Qed.

(* a second pass changes nothing *)
Theorem add_defaults_idempotent roOff props l :
  add_defaults roOff props (add_defaults roOff props l) = add_defaults roOff props l.
Proof. apply add_defaults_noop. intros k pc d Hin Hg. eapply add_defaults_fills; eauto. Qed.

(* ---- parameters: a populated scalar default is read back as the text fmt.Sprint wrote ---- *)
Definition frag0 : fragment := mkFrag [] [] [] [].

Section PD.
  Variable pi64 pi32 : string -> option Z.
  Variable pf : string -> option float.
  Variable sprint : json -> string.

  Definition scalar (d : json) : bool := match d with JArr _ | JObj _ | JNull => false | _ => true end.

  Theorem populated_scalar_reads_back p d :
    pd_in p <> LPath ->
    allowed_cell (pd_in p) (eff_style p) (eff_explode p) = true ->
    defined_cell p (SPrim (sprint d)) = true ->
    shape_of (pd_schema p) = ShPrim -> scalar d = true -> sprint d <> ""%string ->
    decode_param pi64 pi32 pf p (populate sprint p frag0 d)
    = of_pres true (parse_primitive pi64 pi32 pf (sprint d) (core_of (pd_schema p))).
  Proof.
    intros Hp Hall Hdef Hsh Hs Ht.
    assert (E : populate sprint p frag0 d = ser p (SPrim (sprint d))).
    { unfold populate, ser, frag0. destruct (pd_in p); [congruence| | |]; destruct d; try discriminate; reflexivity. }
    rewrite E. now apply prim_roundtrip.
  Qed.

  (* an object default is written as the serialisation of its members' texts (every style but
     deepObject, whose decoder has a model of its own): it decodes back to the members read at the
     declared types (C05_object_roundtrip) *)
  Theorem populated_object_reads_back p l decl ms :
    pd_in p <> LPath ->
    allowed_cell (pd_in p) (eff_style p) (eff_explode p) = true ->
    String.eqb (eff_style p) "deepObject" = false ->
    defined_cell p (SObj (member_texts sprint l)) = true ->
    shape_of (pd_schema p) = ShObj decl None ->
    l <> [] -> nodup_s (map fst (member_texts sprint l)) = true -> nodup_s (map fst decl) = true ->
    Forall (fun t => t <> ""%string) (flat (member_texts sprint l)) ->
    (pd_in p = LQuery /\ eff_explode p = true \/ clean (obj_sep (pd_in p) (eff_style p) (eff_explode p)) (flat (member_texts sprint l))) ->
    (eq_form (pd_in p) (eff_explode p) = true -> clean "="%char (flat (member_texts sprint l))) ->
    members pi64 pi32 pf (member_texts sprint l) decl None = Some ms -> Forall (fun kv => snd kv <> PNil) ms ->
    exists m, decode_param pi64 pi32 pf p (populate sprint p frag0 (JObj l)) = DRes (PO m) true None /\
              forall k, assoc k m = assoc k ms.
  Proof.
    intros Hp Hall Hdo Hdef Hsh Hne Hnd Hdn Hnn Hcl Heq Hm Hv.
    assert (E : populate sprint p frag0 (JObj l) = ser p (SObj (member_texts sprint l))).
    { unfold populate, ser, frag0, flat_pairs, eq_pairs. destruct (pd_in p); [congruence| | |]; cbn [ser_query ser_text f_path f_query f_header f_cookie app].
      - rewrite Hdo. destruct (eff_explode p); reflexivity.
      - destruct (eff_explode p); reflexivity.
      - reflexivity. }
    rewrite E. apply (object_roundtrip pi64 pi32 pf p (member_texts sprint l) decl ms); try assumption.
    destruct l; [congruence|discriminate].
  Qed.

  (* default-setting is idempotent: once the default of an absent scalar parameter is written, the
     parameter is found, and a second validation leaves the request as it is *)
  Theorem set_param_default_idempotent p d :
    pd_in p <> LPath ->
    allowed_cell (pd_in p) (eff_style p) (eff_explode p) = true ->
    defined_cell p (SPrim (sprint d)) = true ->
    shape_of (pd_schema p) = ShPrim -> scalar d = true -> sprint d <> ""%string ->
    param_default (pd_schema p) = Some d ->
    let once := set_param_default sprint pi64 pi32 pf false p frag0 in
    set_param_default sprint pi64 pi32 pf false p once = once.
  Proof.
    intros Hp Hall Hdef Hsh Hs Ht Hd once. subst once.
    assert (E0 : decode_param pi64 pi32 pf p frag0 = DRes PNil false None).
    { unfold decode_param, frag0. destruct (pd_in p); cbn [f_path f_query f_header f_cookie]; [congruence|reflexivity| |].
      - unfold header_decode. rewrite Hsh. cbn [allowed_cell] in Hall. rewrite Hall. reflexivity.
      - unfold cookie_decode. rewrite Hsh. cbn [allowed_cell] in Hall. rewrite Hall. reflexivity. }
    assert (E1 : set_param_default sprint pi64 pi32 pf false p frag0 = populate sprint p frag0 d).
    { unfold set_param_default. now rewrite E0, Hd. }
    rewrite E1. unfold set_param_default. rewrite (populated_scalar_reads_back p d Hp Hall Hdef Hsh Hs Ht).
    destruct (parse_primitive pi64 pi32 pf (sprint d) (core_of (pd_schema p))) as [v|e]; cbn [of_pres]; [destruct v|]; reflexivity.
  Qed.

  (* whatever the request carries for the parameter - a value, an empty text, an undecodable text -
     is left as it is: only "not found, no value, no error" is given the default *)
  Theorem set_param_default_leaves_present p f :
    decode_param pi64 pi32 pf p f <> DRes PNil false None ->
    set_param_default sprint pi64 pi32 pf false p f = f.
  Proof.
    intros H. unfold set_param_default.
    destruct (decode_param pi64 pi32 pf p f) as [v found e|w]; [|reflexivity].
    destruct v; try reflexivity. destruct found; [reflexivity|]. destruct e; [reflexivity|]. now contradiction H.
  Qed.
  Theorem set_param_default_skipped p f : set_param_default sprint pi64 pi32 pf true p f = f.
  Proof. reflexivity. Qed.

  (* an array default is written as the serialisation of its element texts: it decodes back to the
     elements read at the declared item type (C05_array_roundtrip) *)
  Theorem populated_array_reads_back p l ic vs :
    pd_in p <> LPath ->
    allowed_cell (pd_in p) (eff_style p) (eff_explode p) = true ->
    defined_cell p (SArr (map sprint l)) = true ->
    shape_of (pd_schema p) = ShArr (Some ic) ->
    l <> [] -> Forall (fun t => t <> ""%string) (map sprint l) ->
    (pd_in p = LQuery -> eff_explode p = true \/ clean (arr_sep LQuery (eff_style p) (eff_explode p)) (map sprint l)) ->
    (pd_in p <> LQuery -> clean (arr_sep (pd_in p) (eff_style p) (eff_explode p)) (map sprint l)) ->
    leaves pi64 pi32 pf (map sprint l) ic = Some vs -> Forall (fun v => v <> PNil) vs ->
    decode_param pi64 pi32 pf p (populate sprint p frag0 (JArr l)) = DRes (PA vs) true None.
  Proof.
    intros Hp Hall Hdef Hsh Hne Hnn Hq Hnq Hl Hv.
    assert (E : populate sprint p frag0 (JArr l) = ser p (SArr (map sprint l))).
    { unfold populate, ser, frag0, join_texts. destruct (pd_in p); [congruence| | |]; cbn [ser_query ser_text]; try reflexivity.
      destruct (eff_explode p); reflexivity. }
    rewrite E. apply (array_roundtrip pi64 pi32 pf p (map sprint l) ic vs); auto.
    destruct l; [congruence|discriminate].
  Qed.
End PD.
