From KV Require Import Model.Base Model.DocValidate Model.Internalize.
Local Open Scope list_scope.

(* ---- the derived name only contains identifier characters ---- *)
Lemma sanitize_ident s : all_chars ident_char (sanitize s) = true.
Proof.
  unfold sanitize. induction s as [|c r IH]; [reflexivity|].
  destruct ((N.leb 128 (N_of_ascii c) && N.ltb (N_of_ascii c) 192)%bool); [exact IH|].
  cbn [all_chars]. rewrite IH, Bool.andb_true_r. destruct (ident_char c) eqn:E; [exact E|reflexivity].
Qed.
Theorem name_of_ident root file frag coll : all_chars ident_char (name_of root file frag coll) = true.
Proof. unfold name_of. apply sanitize_ident. Qed.

(* ---- the add-to-components fold ---- *)
Lemma ckey_eqb_refl k : ckey_eqb k k = true.
Proof. unfold ckey_eqb. now rewrite !String.eqb_refl. Qed.
Lemma ckey_eqb_eq a b : ckey_eqb a b = true -> a = b.
Proof.
  unfold ckey_eqb. destruct a as [a1 a2], b as [b1 b2]. cbn. intros H. apply andb_prop in H as [H1 H2].
  apply String.eqb_eq in H1, H2. now subst.
Qed.
Lemma clookup_app_some k l1 l2 v : clookup k l1 = Some v -> clookup k (l1 ++ l2) = Some v.
Proof. induction l1 as [|[k' v'] l IH]; cbn; [discriminate|]. destruct (ckey_eqb k k'); auto. Qed.
Lemma clookup_app_none k l1 l2 : clookup k l1 = None -> clookup k (l1 ++ l2) = clookup k l2.
Proof. induction l1 as [|[k' v'] l IH]; cbn; [reflexivity|]. destruct (ckey_eqb k k'); [discriminate|auto]. Qed.

(* components only grow, and what a name holds never changes *)
Lemma add_keeps comps x k v : clookup k comps = Some v -> clookup k (fst (add_to_spec comps x)) = Some v.
Proof.
  intros H. unfold add_to_spec. destruct (is_external x); [|exact H].
  destruct (clookup (x_coll x, x_name x) comps); cbn [fst]; [exact H|]. now apply clookup_app_some.
Qed.
Lemma internalize_keeps : forall xs comps k v, clookup k comps = Some v -> clookup k (fst (internalize comps xs)) = Some v.
Proof.
  induction xs as [|x r IH]; intros comps k v H; [exact H|]. cbn [internalize].
  destruct (add_to_spec comps x) as [c1 t] eqn:E1. destruct (internalize c1 r) as [c2 ts] eqn:E2. cbn [fst].
  change c2 with (fst (c2, ts)). rewrite <- E2. apply IH. change c1 with (fst (c1, t)). rewrite <- E1. now apply add_keeps.
Qed.

(* every external reference is rewritten to an internal text; the others keep theirs *)
Theorem internalize_texts : forall xs comps,
  Forall2 (fun x t => if is_external x then t = new_text x else t = x_text x) xs (snd (internalize comps xs)).
Proof.
  induction xs as [|x r IH]; intros comps; [constructor|]. cbn [internalize].
  destruct (add_to_spec comps x) as [c1 t] eqn:E1. destruct (internalize c1 r) as [c2 ts] eqn:E2. cbn [snd].
  constructor.
  - unfold add_to_spec in E1. destruct (is_external x); [|now inversion E1].
    destruct (clookup (x_coll x, x_name x) comps); now inversion E1.
  - specialize (IH c1). now rewrite E2 in IH.
Qed.
Lemma new_text_internal x : String.prefix "#/components/" (new_text x) = true.
Proof. unfold new_text. cbn. destruct (x_coll x ++ String "/" (x_name x))%string; reflexivity. Qed.

(* the rewritten reference designates the original object, provided the name is free or already
   holds that object when the reference is reached *)
Theorem internalize_preserves : forall xs comps x,
  In x xs -> is_external x = true ->
  (forall y, In y xs -> is_external y = true -> x_coll y = x_coll x -> x_name y = x_name x -> x_val y = x_val x) ->
  (clookup (x_coll x, x_name x) comps = None \/ clookup (x_coll x, x_name x) comps = Some (x_val x)) ->
  clookup (x_coll x, x_name x) (fst (internalize comps xs)) = Some (x_val x).
Proof.
  induction xs as [|y r IH]; intros comps x Hin Hext Hsame Hinit; [destruct Hin|].
  cbn [internalize]. destruct (add_to_spec comps y) as [c1 t] eqn:E1. destruct (internalize c1 r) as [c2 ts] eqn:E2. cbn [fst].
  change c2 with (fst (c2, ts)). rewrite <- E2.
  assert (Hc1 : clookup (x_coll x, x_name x) c1 = Some (x_val x) \/
                (clookup (x_coll x, x_name x) c1 = None /\ (is_external y = false \/ (x_coll y, x_name y) <> (x_coll x, x_name x)))).
  { unfold add_to_spec in E1. destruct (is_external y) eqn:Ey.
    - destruct (clookup (x_coll y, x_name y) comps) as [w|] eqn:Ly; inversion E1; subst c1 t.
      + destruct Hinit as [Hn|Hs]; [|now left]. right. split; [exact Hn|]. right. intros Heq. rewrite Heq in Ly. congruence.
      + destruct (ckey_eqb (x_coll x, x_name x) (x_coll y, x_name y)) eqn:Ek.
        * apply ckey_eqb_eq in Ek. left. inversion Ek as [[Hc Hn]].
          destruct Hinit as [Hn0|Hs]; [|now apply clookup_app_some].
          rewrite clookup_app_none by exact Hn0. cbn. rewrite Hc, Hn, ckey_eqb_refl. f_equal.
          apply Hsame; [now left|exact Ey|now symmetry|now symmetry].
        * destruct Hinit as [Hn0|Hs]; [|left; now apply clookup_app_some].
          right. split; [|right; intros Heq; rewrite Heq, ckey_eqb_refl in Ek; discriminate].
          rewrite clookup_app_none by exact Hn0. cbn. now rewrite Ek.
    - inversion E1; subst c1 t. destruct Hinit as [Hn|Hs]; [right; split; [exact Hn|now left]|now left]. }
  destruct Hc1 as [Hs|[Hn Hy]]; [now apply internalize_keeps|].
  destruct Hin as [->|Hin].
  - exfalso. destruct Hy as [Hy|Hy]; [congruence|now apply Hy].
  - apply IH; [exact Hin|exact Hext| |now left].
    intros z Hz. apply Hsame. now right.
Qed.
