(* intoGoRegexp is a homomorphism over the ECMA reading of a pattern: a pattern is a sequence of
   units - a plain character, an escape pair, a code point escape - and the rewriting maps each unit
   on its own. *)
From KV Require Import Model.Base Model.Pattern.
Local Open Scope list_scope.

Inductive punit :=
| ULit (c : ascii)                 (* a character that is not a backslash *)
| UEsc (e : ascii)                 (* backslash + e, not the start of a code point escape *)
| UCode (a b c d : ascii).         (* backslash u + four hexadecimal digits *)

Definition unit_text (u : punit) : string :=
  match u with
  | ULit c => String c EmptyString
  | UEsc e => String bslash (String e EmptyString)
  | UCode a b c d => String bslash (String "u" (String a (String b (String c (String d EmptyString)))))
  end.
Definition unit_go (u : punit) : string :=
  match u with
  | UCode a b c d => String bslash (String "x" (String "{" (String a (String b (String c (String d (String "}" EmptyString)))))))
  | _ => unit_text u
  end.
Fixpoint text (us : list punit) : string :=
  match us with [] => EmptyString | u :: r => (unit_text u ++ text r)%string end.
Fixpoint go_text (us : list punit) : string :=
  match us with [] => EmptyString | u :: r => (unit_go u ++ go_text r)%string end.

Definition hex4 (s : string) : bool :=
  match s with
  | String a (String b (String c (String d _))) => is_hex a && is_hex b && is_hex c && is_hex d
  | _ => false
  end.

(* the reading is the ECMA one: a plain character is not a backslash, a code point escape has four
   hexadecimal digits, and backslash-u counts as an ordinary escape pair only when no four
   hexadecimal digits follow *)
Fixpoint canonical (us : list punit) : bool :=
  match us with
  | [] => true
  | ULit c :: r => negb (Ascii.eqb c bslash) && canonical r
  | UEsc e :: r => negb (Ascii.eqb e "u" && hex4 (text r)) && canonical r
  | UCode a b c d :: r => is_hex a && is_hex b && is_hex c && is_hex d && canonical r
  end.

Theorem into_go_units : forall us, canonical us = true -> into_go (text us) = go_text us.
Proof.
  induction us as [|u us IH]; intros H; [reflexivity|]. destruct u as [c|e|a b c d]; cbn [canonical] in H.
  - apply andb_true_iff in H. destruct H as [Hc Hr]. apply negb_true_iff in Hc.
    cbn [text unit_text go_text unit_go String.append into_go]. rewrite Hc. now rewrite (IH Hr).
  - apply andb_true_iff in H. destruct H as [He Hr]. apply negb_true_iff in He.
    cbn [text unit_text go_text unit_go String.append into_go]. rewrite Ascii.eqb_refl.
    destruct (Ascii.eqb e "u") eqn:Eu.
    + cbn [andb] in He. unfold hex4 in He.
      destruct (text us) as [|a [|b [|c [|d r]]]]; try (rewrite <- (IH Hr); reflexivity).
      cbn iota in He. rewrite He. rewrite <- (IH Hr). reflexivity.
    + now rewrite (IH Hr).
  - apply andb_true_iff in H. destruct H as [Hh Hr].
    cbn [text unit_text go_text unit_go String.append into_go]. rewrite Ascii.eqb_refl.
    change (Ascii.eqb "u" "u") with true. cbn iota. rewrite Hh. now rewrite (IH Hr).
Qed.

(* nothing to rewrite: a pattern without a backslash is left as it is *)
Fixpoint no_bslash (s : string) : bool :=
  match s with EmptyString => true | String c r => negb (Ascii.eqb c bslash) && no_bslash r end.
Theorem into_go_plain : forall s, no_bslash s = true -> into_go s = s.
Proof.
  induction s as [|c r IH]; intros H; [reflexivity|]. cbn [no_bslash] in H. apply andb_true_iff in H. destruct H as [Hc Hr].
  apply negb_true_iff in Hc. cbn [into_go]. rewrite Hc. now rewrite (IH Hr).
Qed.

(* the two repaired cases and an adjacent pair *)
Example into_go_examples :
  into_go "^h\u00e9llo$" = "^h\x{00e9}llo$" /\ into_go "^\\u0041$" = "^\\u0041$" /\ into_go "^\u0041\u0042+$" = "^\x{0041}\x{0042}+$" /\
  into_go "\u00" = "\u00" /\ into_go "a\" = "a\".
Proof. vm_compute. repeat split. Qed.
Example canonical_example :
  let us := [ULit "^"; UEsc bslash; ULit "u"; ULit "0"; ULit "0"; ULit "4"; ULit "1"; UCode "0" "0" "e" "9"; UEsc "d"; UEsc "u"; ULit "z"] in
  canonical us = true /\ text us = "^\\u0041\u00e9\d\uz".
Proof. vm_compute. split; reflexivity. Qed.
