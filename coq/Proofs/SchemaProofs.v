(* Proofs about Model/Schema.visit against Spec/SchemaSpec.satb (C01) and across modes (C12). *)
From KV Require Import Model.Base Model.Json Model.Schema Spec.SchemaSpec Spec.SchemaGuards.
Local Open Scope list_scope.

Lemma forallb_map' {A B} (f : A -> B) p l : forallb p (map f l) = forallb (fun x => p (f x)) l.
Proof. induction l as [|x l IH]; cbn; [reflexivity|now rewrite IH]. Qed.
Lemma forallb_ext_in {A} (p q : A -> bool) l :
  (forall x, In x l -> p x = q x) -> forallb p l = forallb q l.
Proof.
  induction l as [|x l IH]; intros H; cbn; [reflexivity|].
  rewrite (H x (or_introl eq_refl)), IH; [reflexivity|]. intros y Hy. apply H. now right.
Qed.
Lemma forallb_ext' {A} (p q : A -> bool) l : (forall x, p x = q x) -> forallb p l = forallb q l.
Proof. intros H. apply forallb_ext_in. auto. Qed.
Lemma existsb_ext_in {A} (p q : A -> bool) l :
  (forall x, In x l -> p x = q x) -> existsb p l = existsb q l.
Proof.
  induction l as [|x l IH]; intros H; cbn; [reflexivity|].
  rewrite (H x (or_introl eq_refl)), IH; [reflexivity|]. intros y Hy. apply H. now right.
Qed.

Definition chk_ok (c : chk) : bool := match c with COk => true | _ => false end.
Definition chk_nopanic (c : chk) : bool := match c with CPanic _ => false | _ => true end.
Definition is_panic (o : outcome) : bool := match o with Panic _ => true | _ => false end.

Lemma errs_of_nonnil e : errs_of e <> [].
Proof. destruct e as [| [|x l] |]; cbn; discriminate. Qed.

Lemma run_checks_accepts st cs : forall acc,
  accepts (run_checks st cs acc) = is_nil acc && forallb chk_ok cs.
Proof.
  induction cs as [|c cs IH]; intros acc; cbn [run_checks forallb].
  - destruct acc; reflexivity.
  - destruct c; cbn [chk_ok andb].
    + apply IH.
    + rewrite Bool.andb_false_r.
      destruct (st_failfast st && ffplain); [reflexivity|].
      destruct (st_multi st); [|reflexivity].
      rewrite IH. destruct acc; cbn; [|reflexivity].
      destruct (errs_of e) eqn:He; [now apply errs_of_nonnil in He|reflexivity].
    + rewrite Bool.andb_false_r, IH. destruct acc; reflexivity.
    + now rewrite Bool.andb_false_r.
    + now rewrite Bool.andb_false_r.
Qed.

Lemma run_checks_nopanic st cs : forall acc,
  forallb chk_nopanic cs = true -> is_panic (run_checks st cs acc) = false.
Proof.
  induction cs as [|c cs IH]; intros acc H; cbn [run_checks].
  - destruct acc; reflexivity.
  - cbn [forallb] in H. apply andb_prop in H as [Hc Hr].
    destruct c; cbn in Hc; try discriminate; auto.
    destruct (st_failfast st && ffplain); [reflexivity|].
    destruct (st_multi st); [auto|reflexivity].
Qed.

(* verdict of a check list does not depend on the mode *)
Lemma run_checks_mode_indep st st' cs :
  accepts (run_checks st cs []) = accepts (run_checks st' cs []).
Proof. now rewrite !run_checks_accepts. Qed.

(* ------------------------------------------------------------------------------------ *)
(* leaf visitors vs. their keyword specifications                                        *)
Section LEAF.
  Variable re_compiles : string -> bool.
  Variable re_match : string -> string -> bool.
  Variable fmt_ok : string -> string -> json -> option bool.
  Variable st : settings.

  Lemma fmt_chk_ok c kind v : chk_ok (fmt_chk fmt_ok c kind v) = fmt_pass fmt_ok c kind v.
  Proof.
    unfold fmt_chk, fmt_pass. destruct (String.eqb (c_format c) ""); [reflexivity|].
    destruct (fmt_ok kind (c_format c) v) as [[|]|]; reflexivity.
  Qed.

  Lemma num_checks_ok c x :
    forallb chk_ok (num_checks fmt_ok st c x) = num_ok fmt_ok c x.
  Proof.
    unfold num_checks, num_ok.
    cbn [forallb]. rewrite fmt_chk_ok.
    destruct (permits c "integer" && negb (permits c "number")) eqn:Hri.
    - destruct (fmt_pass fmt_ok c "integer" (JNum x));
      destruct (c_exMin c), (c_exMax c), (c_min c) as [m|], (c_max c) as [M|], (c_mult c) as [q|];
        cbn [negb orb andb];
        destruct (f_is_int x); cbn [chk_ok andb]; try reflexivity;
        repeat match goal with
        | |- context [PrimFloat.ltb ?a ?b] => destruct (PrimFloat.ltb a b)
        | |- context [PrimFloat.leb ?a ?b] => destruct (PrimFloat.leb a b)
        end; cbn [chk_ok andb orb negb]; try reflexivity;
        destruct (f_is_int (PrimFloat.div x q)); reflexivity.
    - destruct (permits c "integer" || permits c "number").
      + destruct (fmt_pass fmt_ok c "number" (JNum x));
        destruct (c_exMin c), (c_exMax c), (c_min c) as [m|], (c_max c) as [M|], (c_mult c) as [q|];
        cbn [negb orb andb chk_ok];
        repeat match goal with
        | |- context [PrimFloat.ltb ?a ?b] => destruct (PrimFloat.ltb a b)
        | |- context [PrimFloat.leb ?a ?b] => destruct (PrimFloat.leb a b)
        end; cbn [chk_ok andb orb negb]; try reflexivity;
        destruct (f_is_int (PrimFloat.div x q)); reflexivity.
      + reflexivity.
  Qed.

  Lemma num_checks_nopanic c x :
    forallb chk_nopanic (num_checks fmt_ok st c x) = true.
  Proof.
    unfold num_checks, fmt_chk. cbn [forallb].
    destruct (c_exMin c), (c_exMax c), (c_min c) as [m|], (c_max c) as [M|], (c_mult c) as [q|];
      repeat match goal with
      | |- context [if ?b then _ else _] => destruct b
      | |- context [match ?o with Some _ => _ | None => _ end] => destruct o
      end; reflexivity.
  Qed.

  Lemma to_i64_small n : small n = true -> to_i64 n = Z.of_N n.
  Proof.
    unfold small, to_i64. intros H. apply N.ltb_lt in H.
    destruct (Z.ltb_spec (Z.of_N n) 9223372036854775808); [reflexivity|lia].
  Qed.

  Lemma min_bound_chk n len (e : err) :
    small n = true ->
    chk_ok (if negb (N.eqb n 0) && (Z.of_N len <? to_i64 n)%Z then CFail e true else COk) = N.leb n len.
  Proof.
    intros Hs. rewrite (to_i64_small _ Hs).
    destruct (N.eqb_spec n 0) as [->|Hn]; cbn [negb andb chk_ok].
    - symmetry. apply N.leb_le. lia.
    - destruct (Z.ltb_spec (Z.of_N len) (Z.of_N n)); cbn [chk_ok]; symmetry;
        [apply N.leb_gt | apply N.leb_le]; lia.
  Qed.

  Lemma max_bound_chk (o : option N) len (e : err) :
    small_opt o = true ->
    chk_ok (match o with
            | Some m => if (to_i64 m <? Z.of_N len)%Z then CFail e true else COk
            | None => COk end)
    = match o with Some m => N.leb len m | None => true end.
  Proof.
    destruct o as [m|]; [|reflexivity]. cbn [small_opt]. intros Hs. rewrite (to_i64_small _ Hs).
    destruct (Z.ltb_spec (Z.of_N m) (Z.of_N len)); cbn [chk_ok]; symmetry;
      [apply N.leb_gt | apply N.leb_le]; lia.
  Qed.

  Lemma str_checks_ok c s :
    g_small_here c = true ->
    forallb chk_ok (str_checks re_compiles re_match fmt_ok st c s) = str_ok re_compiles re_match fmt_ok c s.
  Proof.
    intros Hs. unfold str_checks, str_ok.
    unfold g_small_here in Hs. repeat (apply andb_prop in Hs as [Hs ?]).
    cbn [forallb]. rewrite min_bound_chk, max_bound_chk, fmt_chk_ok by assumption.
    destruct (permits c "string"); cbn [chk_ok andb]; [|reflexivity].
    destruct (N.leb (c_minLen c) (ulen s)); cbn [andb]; [|reflexivity].
    destruct (match c_maxLen c with Some m => N.leb (ulen s) m | None => true end); cbn [andb]; [|reflexivity].
    rewrite Bool.andb_true_r. f_equal.
    destruct (String.eqb (c_pattern c) ""); cbn [orb chk_ok]; [reflexivity|].
    destruct (re_compiles (c_pattern c)); cbn [negb andb].
    - destruct (re_match (c_pattern c) s); reflexivity.
    - destruct (st_multi st); reflexivity.
  Qed.

  Lemma str_checks_nopanic c s :
    forallb chk_nopanic (str_checks re_compiles re_match fmt_ok st c s) = true.
  Proof.
    unfold str_checks, fmt_chk. cbn [forallb].
    repeat match goal with
    | |- context [if ?b then _ else _] => destruct b
    | |- context [match ?o with Some _ => _ | None => _ end] => destruct o
    end; reflexivity.
  Qed.
End LEAF.

(* ------------------------------------------------------------------------------------ *)
(* container visitors                                                                    *)
Section CONTAINER.
  Variable st : settings.

  Lemma child_chks_ok ffp rs : forall i,
    forallb chk_ok (map (fun ko => child_chk (snd ko) (fst ko) ffp) (index_from i rs)) = forallb accepts rs.
  Proof.
    induction rs as [|o rs IH]; intros i; cbn [index_from map forallb]; [reflexivity|].
    rewrite IH. destruct o; reflexivity.
  Qed.

  Lemma child_chks_nopanic ffp rs : forall i,
    forallb (fun o => negb (is_panic o)) rs = true ->
    forallb chk_nopanic (map (fun ko => child_chk (snd ko) (fst ko) ffp) (index_from i rs)) = true.
  Proof.
    induction rs as [|o rs IH]; intros i H; cbn [index_from map forallb] in *; [reflexivity|].
    apply andb_prop in H as [Ho Hr]. rewrite (IH _ Hr). destruct o; cbn in *; congruence.
  Qed.

  Lemma arr_checks_ok c l has rs :
    g_small_here c = true ->
    Bool.eqb (json_nodup json_text_eqb l) (json_nodup json_eqb l) = true ->
    forallb chk_ok (arr_checks st c l has rs) =
    arr_ok c l && (if has then forallb accepts rs else true).
  Proof.
    intros Hs Hu. unfold arr_checks, arr_ok. rewrite forallb_app.
    unfold g_small_here in Hs. repeat (apply andb_prop in Hs as [Hs ?]).
    cbn [forallb]. rewrite <- !nat_N_Z.
    rewrite min_bound_chk, max_bound_chk by assumption.
    apply Bool.eqb_prop in Hu. rewrite Hu.
    assert (Hitems : forallb chk_ok (if has then map (fun ko => child_chk (snd ko) (fst ko) false) (index_from 0 rs) else [])
                     = (if has then forallb accepts rs else true)).
    { destruct has; [apply child_chks_ok|reflexivity]. }
    rewrite Hitems.
    destruct (permits c "array"); cbn [chk_ok andb]; [|reflexivity].
    destruct (N.leb (c_minItems c) (N.of_nat (List.length l))); cbn [andb]; [|reflexivity].
    destruct (match c_maxItems c with Some m => N.leb (N.of_nat (List.length l)) m | None => true end); cbn [andb]; [|reflexivity].
    destruct (c_unique c), (json_nodup json_eqb l); reflexivity.
  Qed.

  Lemma arr_checks_nopanic c l has rs :
    forallb (fun o => negb (is_panic o)) rs = true ->
    forallb chk_nopanic (arr_checks st c l has rs) = true.
  Proof.
    intros H. unfold arr_checks. rewrite forallb_app.
    apply andb_true_intro; split.
    - cbn [forallb].
      repeat match goal with
      | |- context [if ?b then _ else _] => destruct b
      | |- context [match ?o with Some _ => _ | None => _ end] => destruct o
      end; reflexivity.
    - destruct has; [now apply child_chks_nopanic|reflexivity].
  Qed.

  Definition key_ok (c : score) (has_ap : bool) (r_props r_ap : list (string * outcome)) (kv : string * json) : bool :=
    match assoc (fst kv) r_props with
    | Some o => accepts o
    | None =>
        match c_apHas c with
        | Some false => false
        | _ => if has_ap then match assoc (fst kv) r_ap with Some o => accepts o | None => true end else true
        end
    end.

  Definition pnn (l : list (string * json)) (k : string) : bool :=
    match assoc k l with Some x => negb (is_null x) | None => false end.

  Lemma rw_chks_ok l (props : list (string * score)) :
    forallb chk_ok (rw_chks st l props) =
    forallb (fun kp => negb (pnn l (fst kp) && forbidden (md_of st) (snd kp))) props.
  Proof.
    unfold rw_chks.
    induction props as [|[k pc] props IH].
    - destruct (st_asreq st || st_asrep st); reflexivity.
    - cbn [forallb fst snd]. rewrite <- IH. clear IH.
      unfold forbidden, md_of, pnn; cbn [sm_req sm_rep sm_ro sm_wo].
      destruct (st_asreq st), (st_asrep st); cbn [orb andb flat_map fst snd];
        rewrite ?forallb_app; rewrite ?Bool.andb_false_r; cbn [negb andb]; try reflexivity;
        (destruct (assoc k l) as [x|]; [destruct (is_null x)|]);
        destruct (c_readOnly pc), (c_writeOnly pc), (st_roOff st), (st_woOff st); reflexivity.
  Qed.

  Lemma obj_checks_ok c l props has_ap r_props r_ap :
    g_small_here c = true ->
    forallb chk_ok (obj_checks st c l props has_ap r_props r_ap) =
    permits c "object" &&
    forallb (fun kp => negb (pnn l (fst kp) && forbidden (md_of st) (snd kp))) props &&
    N.leb (c_minProps c) (N.of_nat (List.length l)) &&
    match c_maxProps c with Some m => N.leb (N.of_nat (List.length l)) m | None => true end &&
    forallb (key_ok c has_ap r_props r_ap) l &&
    forallb (fun k => str_in k (map fst l) ||
                      match assoc k props with Some pc => exempt (md_of st) pc | None => false end) (c_required c).
  Proof.
    intros Hs. unfold obj_checks.
    rewrite !forallb_app. cbn [forallb].
    unfold g_small_here in Hs. repeat (apply andb_prop in Hs as [Hs ?]).
    rewrite <- !nat_N_Z. rewrite min_bound_chk, max_bound_chk by assumption.
    rewrite rw_chks_ok.
    assert (Hk : forallb chk_ok (map (key_chk c (JObj l) has_ap r_props r_ap) l)
                 = forallb (key_ok c has_ap r_props r_ap) l).
    { rewrite forallb_map'. apply forallb_ext'. intros [k x]. unfold key_ok, key_chk. cbn [fst].
      destruct (assoc k r_props) as [o|]; [destruct o; reflexivity|].
      destruct (c_apHas c) as [[|]|]; try reflexivity;
        (destruct has_ap; [|reflexivity]); (destruct (assoc k r_ap) as [o|]; [destruct o; reflexivity|reflexivity]). }
    rewrite Hk.
    assert (Hr : forallb chk_ok (map (req_chk st c (JObj l) l props) (c_required c))
                 = forallb (fun k => str_in k (map fst l) ||
                      match assoc k props with Some pc => exempt (md_of st) pc | None => false end) (c_required c)).
    { rewrite forallb_map'. apply forallb_ext'. intros k. unfold req_chk, exempt, md_of. cbn [sm_req sm_rep].
      assert (Ha : forall (l0 : list (string * json)), str_in k (map fst l0) = match assoc k l0 with Some _ => true | None => false end).
      { induction l0 as [|[k' x'] l0 IH]; cbn; [reflexivity|]. destruct (String.eqb k k'); [reflexivity|exact IH]. }
      rewrite Ha. destruct (assoc k l); [reflexivity|]. cbn [orb].
      destruct (assoc k props) as [pc|]; [|reflexivity].
      destruct ((c_readOnly pc && st_asreq st) || (c_writeOnly pc && st_asrep st)); reflexivity. }
    rewrite Hr.
    destruct (permits c "object"); cbn [chk_ok andb]; [|reflexivity].
    repeat rewrite Bool.andb_true_r. rewrite !Bool.andb_assoc. reflexivity.
  Qed.
End CONTAINER.

(* ------------------------------------------------------------------------------------ *)
(* not / oneOf / anyOf / allOf / enum on sub-results                                      *)
Definition np (o : outcome) : bool := negb (is_panic o).


(* induction principle for the nested inductive [json] *)
Section JIND.
  Variable P : json -> Prop.
  Hypothesis Hnull : P JNull.
  Hypothesis Hbool : forall b, P (JBool b).
  Hypothesis Hnum : forall x, P (JNum x).
  Hypothesis Hstr : forall s, P (JStr s).
  Hypothesis Harr : forall l, Forall P l -> P (JArr l).
  Hypothesis Hobj : forall l, Forall (fun kv => P (snd kv)) l -> P (JObj l).
  Fixpoint json_ind' (v : json) : P v :=
    match v with
    | JNull => Hnull | JBool b => Hbool b | JNum x => Hnum x | JStr s => Hstr s
    | JArr l => Harr l ((fix go (l : list json) : Forall P l :=
                           match l with [] => Forall_nil _ | x :: r => Forall_cons x (json_ind' x) (go r) end) l)
    | JObj l => Hobj l ((fix go (l : list (string * json)) : Forall (fun kv => P (snd kv)) l :=
                           match l with [] => Forall_nil _ | kv :: r => Forall_cons kv (json_ind' (snd kv)) (go r) end) l)
    end.
End JIND.

(* comparing with a number-free value, "numbers never equal" and numeric equality coincide *)
Lemma eq_gen_number_free v : forall m,
  number_free m = true -> json_eq_gen (fun _ _ => false) v m = json_eqb v m.
Proof.
  induction v as [| b | x | s | l IH | l IH] using json_ind'; intros m Hm; destruct m; try reflexivity.
  - discriminate Hm.
  - cbn [number_free] in Hm. unfold json_eqb. cbn [json_eq_gen].
    revert l0 Hm. induction IH as [|x l Hx Hl IHl]; intros [|y m] Hm; try reflexivity.
    cbn [forallb] in Hm. apply andb_prop in Hm as [Hy Hm'].
    fold json_eqb. rewrite (Hx y Hy). f_equal. apply IHl. exact Hm'.
  - cbn [number_free] in Hm. unfold json_eqb. cbn [json_eq_gen].
    revert l0 Hm. induction IH as [|[k x] l Hx Hl IHl]; intros [|[k' y] m] Hm; try reflexivity.
    cbn [forallb snd] in Hm. apply andb_prop in Hm as [Hy Hm'].
    fold json_eqb. cbn [snd] in Hx. rewrite (Hx y Hy). f_equal. apply IHl. exact Hm'.
Qed.

Section COMP.
  Variable st : settings.
  Variable c : score.
  Variable v : json.

  Lemma fail_not_ok s : accepts (Err (fail st s c v)) = false.
  Proof. reflexivity. Qed.

  Lemma not_step_accepts r :
    opt_all np r = true ->
    accepts (not_step st c v r) = match r with Some o => negb (accepts o) | None => true end.
  Proof. destruct r as [[| |]|]; cbn; congruence. Qed.
  Lemma not_step_nopanic r : opt_all np r = true -> is_panic (not_step st c v r) = false.
  Proof. destruct r as [[| |]|]; cbn; congruence. Qed.

  Lemma one_scan_count rs : forall i idx es,
    forallb np rs = true ->
    exists idx' es', one_scan i rs idx es = Some (idx', es') /\
                     List.length idx' = List.length idx + count_true (map accepts rs).
  Proof.
    induction rs as [|o rs IH]; intros i idx es H; cbn [one_scan map].
    - exists idx, es. split; [reflexivity|]. unfold count_true; cbn. lia.
    - cbn [forallb] in H. apply andb_prop in H as [Ho Hr].
      destruct o; cbn in Ho; try discriminate.
      + destruct (IH (S i) (idx ++ [i]) es Hr) as (idx' & es' & H1 & H2).
        exists idx', es'. split; [exact H1|]. rewrite H2, app_length. unfold count_true; cbn. lia.
      + destruct (IH (S i) idx (es ++ [e]) Hr) as (idx' & es' & H1 & H2).
        exists idx', es'. split; [exact H1|]. rewrite H2. unfold count_true; cbn. lia.
  Qed.

  Lemma one_step_accepts rs :
    forallb np rs = true ->
    accepts (one_step st c v rs) = is_nil rs || Nat.eqb (count_true (map accepts rs)) 1.
  Proof.
    intros H. unfold one_step. destruct rs as [|o rs]; [reflexivity|]. cbn [is_nil orb].
    destruct (one_scan_count (o :: rs) 0 [] [] H) as (idx & es & H1 & H2).
    rewrite H1. cbn [List.length Nat.add] in H2. rewrite <- H2.
    destruct (Nat.eqb (List.length idx) 1); [reflexivity|].
    destruct (st_failfast st); [reflexivity|]. destruct (Nat.ltb 1 (List.length idx)); reflexivity.
  Qed.
  Lemma one_step_nopanic rs : forallb np rs = true -> is_panic (one_step st c v rs) = false.
  Proof.
    intros H. unfold one_step. destruct rs as [|o rs]; [reflexivity|].
    destruct (one_scan_count (o :: rs) 0 [] [] H) as (idx & es & H1 & H2). rewrite H1.
    destruct (Nat.eqb (List.length idx) 1); [reflexivity|].
    destruct (st_failfast st); [reflexivity|]. destruct (Nat.ltb 1 (List.length idx)); reflexivity.
  Qed.

  Lemma any_scan_spec rs :
    forallb np rs = true ->
    any_scan rs = (if existsb accepts rs then Ok else Err (EPlain PFailfast)).
  Proof.
    induction rs as [|o rs IH]; intros H; cbn [any_scan existsb]; [reflexivity|].
    cbn [forallb] in H. apply andb_prop in H as [Ho Hr].
    destruct o; cbn in Ho; try discriminate; cbn [accepts orb]; auto.
  Qed.
  Lemma any_step_accepts rs :
    forallb np rs = true -> accepts (any_step st c v rs) = is_nil rs || existsb accepts rs.
  Proof.
    intros H. unfold any_step. destruct rs as [|o rs]; [reflexivity|]. cbn [is_nil orb].
    rewrite (any_scan_spec _ H). destruct (existsb accepts (o :: rs)); reflexivity.
  Qed.
  Lemma any_step_nopanic rs : forallb np rs = true -> is_panic (any_step st c v rs) = false.
  Proof.
    intros H. unfold any_step. destruct rs as [|o rs]; [reflexivity|].
    rewrite (any_scan_spec _ H). destruct (existsb accepts (o :: rs)); reflexivity.
  Qed.

  Lemma all_step_accepts rs : accepts (all_step st c v rs) = forallb accepts rs.
  Proof. induction rs as [|o rs IH]; [reflexivity|]. destruct o; cbn; auto. Qed.
  Lemma all_step_nopanic rs : forallb np rs = true -> is_panic (all_step st c v rs) = false.
  Proof.
    induction rs as [|o rs IH]; intros H; [reflexivity|].
    cbn [forallb] in H. apply andb_prop in H as [Ho Hr]. destruct o; cbn in *; auto; discriminate.
  Qed.

  Lemma enum_eq_spec m :
    match m with JNum _ => true | _ => number_free m end = true \/ st_usenum st = false ->
    enum_eq st v m = json_eqb v m.
  Proof.
    unfold enum_eq. intros [Hm|Hu]; [|now rewrite Hu].
    destruct (st_usenum st); [|reflexivity].
    destruct v; try reflexivity; destruct m; try reflexivity; apply eq_gen_number_free; exact Hm.
  Qed.
  Lemma enum_step_accepts :
    g_enum_here (st_usenum st) c = true ->
    accepts (enum_step st c v) = is_nil (c_enum c) || json_in json_eqb v (c_enum c).
  Proof.
    unfold enum_step, g_enum_here. intros G. destruct (c_enum c) as [|x l]; [reflexivity|]. cbn [is_nil orb].
    assert (E : json_in (enum_eq st) v (x :: l) = json_in json_eqb v (x :: l)).
    { generalize (x :: l) G. clear. intros en G. induction en as [|m en IH]; [reflexivity|].
      cbn [json_in]. rewrite IH.
      - f_equal. apply enum_eq_spec. destruct (st_usenum st); [left|now right].
        cbn [negb orb forallb] in G. now apply andb_prop in G as [G _].
      - destruct (st_usenum st); [|reflexivity]. cbn [negb orb forallb] in *. now apply andb_prop in G as [_ G]. }
    rewrite E. destruct (json_in json_eqb v (x :: l)); reflexivity.
  Qed.
  Lemma enum_step_nopanic : is_panic (enum_step st c v) = false.
  Proof. unfold enum_step. destruct (c_enum c) as [|x l]; [reflexivity|].
         destruct (json_in (enum_eq st) v (x :: l)); reflexivity. Qed.

  Lemma seq_accepts a b : accepts (seq a b) = accepts a && accepts b.
  Proof. destruct a; reflexivity. Qed.
  Lemma seq_nopanic a b : is_panic a = false -> is_panic b = false -> is_panic (seq a b) = false.
  Proof. destruct a; cbn; auto. Qed.
End COMP.

(* ------------------------------------------------------------------------------------ *)
(* induction principle for the nested inductive [schema]                                  *)
Section IND.
  Variable P : schema -> Prop.
  Definition optP (o : option schema) : Prop := match o with Some x => P x | None => True end.
  Hypothesis H : forall c n one any all it props ap,
    optP n -> Forall P one -> Forall P any -> Forall P all -> optP it ->
    Forall (fun kp => P (snd kp)) props -> optP ap -> P (Sch c n one any all it props ap).
  Fixpoint schema_ind' (s : schema) : P s :=
    match s with
    | Sch c n one any all it props ap =>
        let fl := fix go (l : list schema) : Forall P l :=
                    match l with
                    | [] => Forall_nil _
                    | x :: r => Forall_cons x (schema_ind' x) (go r)
                    end in
        H c n one any all it props ap
          (match n return optP n with Some x => schema_ind' x | None => I end)
          (fl one) (fl any) (fl all)
          (match it return optP it with Some x => schema_ind' x | None => I end)
          ((fix go (l : list (string * schema)) : Forall (fun kp => P (snd kp)) l :=
              match l with
              | [] => Forall_nil _
              | kp :: r => Forall_cons kp (schema_ind' (snd kp)) (go r)
              end) props)
          (match ap return optP ap with Some x => schema_ind' x | None => I end)
    end.
End IND.

(* ------------------------------------------------------------------------------------ *)
(* guards of the main theorem and their behaviour on sub-terms                            *)
Lemma vg_arr l x : vg (JArr l) = true -> In x l -> vg x = true.
Proof.
  unfold vg. cbn [all_finite g_uniq g_wf]. intros H Hin.
  apply andb_prop in H as [H H3]. apply andb_prop in H as [H1 H2]. apply andb_prop in H2 as [_ H2].
  rewrite forallb_forall in H1, H2, H3. now rewrite H1, H2, H3.
Qed.
Lemma vg_obj l k x : vg (JObj l) = true -> In (k, x) l -> vg x = true.
Proof.
  unfold vg. cbn [all_finite g_uniq g_wf]. intros H Hin.
  apply andb_prop in H as [H H3]. apply andb_prop in H as [H1 H2]. apply andb_prop in H3 as [_ H3].
  rewrite forallb_forall in H1, H2, H3.
  specialize (H1 _ Hin). specialize (H2 _ Hin). specialize (H3 _ Hin). cbn in *. now rewrite H1, H2, H3.
Qed.

Lemma forallb_incl {A} (p : A -> bool) l l' : incl l' l -> forallb p l = true -> forallb p l' = true.
Proof. intros Hi H. rewrite forallb_forall in *. auto. Qed.

Lemma g_div_mono s s' v v' :
  incl (mults_of s') (mults_of s) -> incl (nums_of v') (nums_of v) ->
  g_div s v = true -> g_div s' v' = true.
Proof.
  unfold g_div. intros Hs Hv H. rewrite forallb_forall in *. intros x Hx.
  specialize (H x (Hv x Hx)). eapply forallb_incl; eauto.
Qed.

Lemma incl_flat_map {A B} (f : A -> list B) l x : In x l -> incl (f x) (flat_map f l).
Proof. intros Hin y Hy. apply in_flat_map. eauto. Qed.

Lemma assoc_in {A} k (l : list (string * A)) x : assoc k l = Some x -> In (k, x) l.
Proof.
  induction l as [|[k' y] l IH]; cbn; [discriminate|].
  destruct (String.eqb_spec k k') as [->|]; [intros [= ->]; now left|]. intros H. right. auto.
Qed.
Lemma str_in_In k l : str_in k l = true <-> In k l.
Proof.
  induction l as [|x l IH]; cbn; [split; [discriminate|tauto]|].
  destruct (String.eqb_spec k x) as [->|Hn]; cbn; [tauto|]. rewrite IH. split; [tauto|]. intros [E|]; [congruence|assumption].
Qed.
Lemma nodup_assoc {A} k (l : list (string * A)) x :
  nodup_str (map fst l) = true -> In (k, x) l -> assoc k l = Some x.
Proof.
  induction l as [|[k' y] l IH]; cbn; [tauto|]. intros H [E|Hin].
  - inversion E; subst. now rewrite String.eqb_refl.
  - apply andb_prop in H as [Hn Hr]. destruct (String.eqb_spec k k') as [->|]; [|auto].
    exfalso. apply Bool.negb_true_iff in Hn.
    assert (str_in k' (map fst l) = true) by (apply str_in_In, in_map_iff; exists (k', x); auto). congruence.
Qed.
Lemma assoc_none_str_in {A} k (l : list (string * A)) :
  str_in k (map fst l) = match assoc k l with Some _ => true | None => false end.
Proof. induction l as [|[k' x'] l IH]; cbn; [reflexivity|]. destruct (String.eqb k k'); [reflexivity|exact IH]. Qed.
