From Coq Require Import DecimalString.
From KV Require Import Model.Base Model.Json Model.Schema Model.Request Model.ParamCodec Model.Router Model.Server Proofs.C09Proofs Proofs.ServerProofs.
From KV Require Import Model.DeepObject Spec.DeepSpec Proofs.DeepBuild.
From KV Require Import Proofs.DeepSer.
Local Open Scope list_scope.

(* the query key of a path: name[k1][k2]... *)
Fixpoint render (path : list string) : string :=
  match path with [] => ""%string | k :: r => String "["%char (k ++ String "]"%char (render r))%string end.

Lemma until_char_app c k rest : no_byte c k = true -> until_char c (k ++ String c rest)%string = Some (k, rest).
Proof.
  induction k as [|d k IH]; simpl; intros H.
  - now rewrite Ascii.eqb_refl.
  - apply andb_true_iff in H. destruct H as [H1 H2]. apply negb_true_iff in H1. rewrite H1. now rewrite IH.
Qed.

Lemma brackets_render : forall path fuel, Forall (fun k => no_byte "]"%char k = true) path ->
  String.length (render path) < fuel -> brackets fuel (render path) = path.
Proof.
  induction path as [|k r IH]; intros fuel Hall Hlen.
  - destruct fuel; [simpl in Hlen; lia|]. reflexivity.
  - destruct fuel; [simpl in Hlen; lia|]. inversion Hall as [|? ? Hk Hr]; subst.
    cbn [render brackets]. replace (Ascii.eqb "["%char "["%char) with true by reflexivity.
    rewrite until_char_app by exact Hk. f_equal. apply IH; [exact Hr|].
    cbn [render String.length] in Hlen. rewrite length_app_str in Hlen. cbn [String.length] in Hlen. lia.
Qed.

Lemma brackets_skip : forall name fuel s, no_byte "["%char name = true ->
  String.length (name ++ s)%string < fuel -> brackets fuel (name ++ s)%string = brackets (fuel - String.length name) s.
Proof.
  induction name as [|c name IH]; intros fuel s Hn Hlen.
  - simpl. now rewrite Nat.sub_0_r.
  - destruct fuel; [simpl in Hlen; lia|]. simpl in Hn. apply andb_true_iff in Hn. destruct Hn as [H1 H2].
    apply negb_true_iff in H1. cbn [append brackets]. rewrite H1. cbn [String.length Nat.sub].
    apply IH; [exact H2|]. simpl in Hlen. lia.
Qed.

Theorem key_path_render : forall name path, no_byte "["%char name = true ->
  Forall (fun k => no_byte "]"%char k = true) path -> key_path (name ++ render path)%string = path.
Proof.
  intros name path Hn Hp. unfold key_path. rewrite brackets_skip; [|exact Hn|lia].
  apply brackets_render; [exact Hp|]. rewrite length_app_str. lia.
Qed.

(* the query a list of (path, text) pairs is sent as *)
Definition query_of (name : string) (l : list (list string * string)) : list (string * list string) :=
  map (fun pt => ((name ++ render (fst pt))%string, [snd pt])) l.

Lemma prefix_app_both a : forall b c, String.prefix (a ++ b)%string (a ++ c)%string = String.prefix b c.
Proof.
  induction a as [|ch a IH]; intros b c; [reflexivity|]. cbn [append String.prefix].
  destruct (ascii_dec ch ch) as [_|n]; [apply IH|now elim n].
Qed.

Theorem deep_props_query_of : forall name l, no_byte "["%char name = true ->
  Forall (fun pt : list string * string => fst pt <> [] /\ Forall (fun k => no_byte "]"%char k = true) (fst pt)) l ->
  deep_props name (query_of name l) = l.
Proof.
  intros name l Hn. induction l as [|[path t] l IH]; intros Hall; [reflexivity|].
  inversion Hall as [|? ? [Hne Hp] Hall']; subst. simpl in Hne, Hp.
  unfold deep_props, query_of in *. cbn [map flat_map fst snd].
  rewrite key_path_render by assumption.
  destruct path as [|k r]; [congruence|].
  replace (String.prefix (name ++ "[")%string (name ++ render (k :: r))%string) with true.
  - cbn [join app]. f_equal. now apply IH.
  - symmetry. rewrite prefix_app_both. cbn [render String.prefix].
    destruct (ascii_dec "["%char "["%char) as [_|n]; [|now elim n]. destruct (k ++ String "]"%char (render r))%string; reflexivity.
Qed.

(* ---- strconv.Itoa writes digits only ---- *)
Lemma nilempty_no_rb : forall d, no_byte "]"%char (NilEmpty.string_of_uint d) = true.
Proof. induction d; simpl; auto. Qed.
Lemma itoa_no_rb n : no_byte "]"%char (itoa n) = true.
Proof. unfold itoa, NilZero.string_of_uint. destruct (Nat.to_uint n); try reflexivity; apply (nilempty_no_rb (_ _)). Qed.

(* member names that can be written between brackets *)
Fixpoint keys_ok (v : dval) : Prop :=
  match v with
  | VPrim _ => True
  | VArr l => (fix go (l : list dval) : Prop := match l with [] => True | x :: r => keys_ok x /\ go r end) l
  | VObj ms => (fix go (ms : list (string * dval)) : Prop :=
                  match ms with [] => True | (k, x) :: r => no_byte "]"%char k = true /\ keys_ok x /\ go r end) ms
  end.

Definition path_ok (p : list string) : Prop := Forall (fun k => no_byte "]"%char k = true) p.

Lemma ser_paths_ok : forall v p, keys_ok v -> path_ok p -> Forall (fun pt : list string * string => path_ok (fst pt)) (ser p v).
Proof.
  induction v as [t|l IH|ms IH] using dval_ind'; intros p Hk Hp.
  - constructor; [exact Hp|constructor].
  - rewrite ser_arr_eq. revert Hk. generalize 0 as i. induction l as [|x l IHl]; intros i Hk; [constructor|].
    inversion IH as [|? ? Hx Hl]; subst. rewrite ser_arr_cons. destruct Hk as [Hkx Hkl]. apply Forall_app. split.
    + apply Hx; [exact Hkx|]. apply Forall_app. split; [exact Hp|]. constructor; [apply itoa_no_rb|constructor].
    + apply IHl; assumption.
  - rewrite ser_obj_eq. induction ms as [|[k x] ms IHm]; [constructor|].
    inversion IH as [|? ? Hx Hl]; subst. rewrite ser_obj_cons. destruct Hk as (Hk1 & Hkx & Hkl). apply Forall_app. split.
    + simpl in Hx. apply Hx; [exact Hkx|]. apply Forall_app. split; [exact Hp|]. constructor; [exact Hk1|constructor].
    + apply IHm; assumption.
Qed.

Section DECODE.
  Variable parse_int64 parse_int32 : string -> option Z.
  Variable parse_float : string -> option float.
  Variable atoi : string -> option Z.
  Hypothesis atoi_itoa : forall n, atoi (itoa n) = Some (Z.of_nat n).

  (* the deepObject decoder inverts the deepObject serialisation: the query name[k1][k2]...=text of a
     well-formed object value of any depth (keys in serialisation order) is decoded to the value read
     at the declared types, without error *)
  Theorem deep_decode_roundtrip : forall name s ms p,
    no_byte "["%char name = true -> names_ok s = true ->
    wfv (VObj ms) -> nek (VObj ms) -> keys_ok (VObj ms) -> texts_ok (ser [] (VObj ms)) = true ->
    reading parse_int64 parse_int32 parse_float s (VObj ms) = Some p ->
    exists found, deep_decode parse_int64 parse_int32 parse_float atoi name s (query_of name (ser [] (VObj ms))) = DRes p found None.
  Proof.
    intros name s ms p Hname Hn Hw Hne Hk Ht Hr.
    assert (Hpaths : Forall (fun pt : list string * string => fst pt <> [] /\ Forall (fun k => no_byte "]"%char k = true) (fst pt)) (ser [] (VObj ms))).
    { pose proof (ser_paths_deeper (VObj ms) name I) as H1. pose proof (ser_paths_ok (VObj ms) [] Hk (Forall_nil _)) as H2.
      rewrite Forall_forall in *. intros pt Hin. split.
      - destruct (H1 pt Hin) as [_ (k2 & rest & E)]. rewrite E. discriminate.
      - apply (H2 pt Hin). }
    unfold deep_decode. rewrite (deep_props_query_of name _ Hname Hpaths).
    destruct (make_object_roundtrip parse_int64 parse_int32 parse_float atoi atoi_itoa s ms p Hn Hw Hne Ht Hr) as (tree & Hm & Hb).
    destruct (ser [] (VObj ms)) as [|pt rest] eqn:Es; [exfalso; apply (ser_nonempty (VObj ms) [] Hw Es)|].
    rewrite Hm, Hb.
    (* the reading of an object is an object *)
    assert (Hp : exists m, p = PO m).
    { destruct s as [c|it|decl [a|]]; cbn [reading] in Hr; try discriminate.
      - destruct (obj_loop _ decl []) as [m|]; [|discriminate].
        destruct (obj_loop _ ms m) as [m'|]; cbn in Hr; [|discriminate]. inversion Hr. eauto.
      - destruct (obj_loop _ decl []) as [m|]; cbn in Hr; [|discriminate]. inversion Hr. eauto. }
    destruct Hp as [m ->]. eexists. reflexivity.
  Qed.
End DECODE.
