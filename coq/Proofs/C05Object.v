(* C05: the round trip for flat objects - every (in, style, explode) cell that defines an object
   serialisation.  Two halves: the string layer (splitting the serialised text gives back the
   member list) and the typing layer (makeObject reads every member as its declared type). *)
From KV Require Import Model.Base Model.Json Model.Schema Model.Request Model.Lookup Model.ParamCodec Spec.ParamSpec
     Proofs.C05Proofs.
Local Open Scope list_scope.

(* ---------------- association lists built by assignment ---------------- *)
Lemma assoc_upd {A} k k' (v : A) l : assoc k (upd k' v l) = if String.eqb k k' then Some v else assoc k l.
Proof.
  induction l as [|[k0 v0] l IH]; cbn [upd assoc].
  - reflexivity.
  - destruct (String.eqb_spec k' k0) as [->|N]; cbn [assoc].
    + destruct (String.eqb k k0); reflexivity.
    + rewrite IH. destruct (String.eqb_spec k k0) as [->|N2]; [|reflexivity].
      destruct (String.eqb_spec k0 k'); [congruence|reflexivity].
Qed.

Lemma upd_fresh {A} k (v : A) l : assoc k l = None -> upd k v l = l ++ [(k, v)].
Proof.
  induction l as [|[k0 v0] l IH]; cbn [upd assoc app]; intros H; [reflexivity|].
  destruct (String.eqb k k0); [discriminate|]. now rewrite IH.
Qed.

Lemma assoc_app_none {A} k (l1 l2 : list (string * A)) :
  assoc k l1 = None -> assoc k (l1 ++ l2) = assoc k l2.
Proof. induction l1 as [|[k0 v0] l1 IH]; cbn [assoc app]; [easy|]. destruct (String.eqb k k0); [discriminate|exact IH]. Qed.

Lemma str_in_false_assoc {A} k (l : list (string * A)) : str_in k (map fst l) = false -> assoc k l = None.
Proof.
  induction l as [|[k0 v0] l IH]; cbn [map fst str_in assoc]; [easy|].
  intros H. apply Bool.orb_false_elim in H as [H1 H2]. rewrite H1. now apply IH.
Qed.

Lemma str_in_In k l : str_in k l = true <-> In k l.
Proof.
  induction l as [|x l IH]; cbn [str_in In]; [split; [discriminate|tauto]|].
  rewrite Bool.orb_true_iff, IH. split; intros [H|H]; auto.
  - left. symmetry. now apply String.eqb_eq.
  - left. subst. apply String.eqb_refl.
Qed.

(* ---------------- string layer ---------------- *)
Lemma flat_length kvs : List.length (flat kvs) = 2 * List.length kvs.
Proof. induction kvs as [|[k v] r IH]; cbn [flat flat_map List.length app fst snd] in *; [reflexivity|]. unfold flat in IH. rewrite IH. lia. Qed.
Lemma even_double n : Nat.even (2 * n) = true.
Proof. induction n as [|n IH]; [reflexivity|]. replace (2 * S n) with (S (S (2 * n))) by lia. exact IH. Qed.

Lemma pairs_even_flat kvs : forall acc,
  (forall k, In k (map fst kvs) -> assoc k acc = None) -> nodup_s (map fst kvs) = true ->
  pairs_even (flat kvs) acc = acc ++ kvs.
Proof.
  induction kvs as [|[k v] r IH]; intros acc Hf Hn.
  - cbn. now rewrite app_nil_r.
  - change (flat ((k, v) :: r)) with (k :: v :: flat r). cbn [pairs_even].
    cbn [map fst nodup_s] in Hn. apply andb_prop in Hn as [Hk Hr]. apply Bool.negb_true_iff in Hk.
    rewrite (upd_fresh k v acc) by (apply Hf; now left).
    rewrite IH; [now rewrite <- app_assoc| |exact Hr].
    intros k' Hin. rewrite assoc_app_none by (apply Hf; now right). cbn [assoc].
    destruct (String.eqb_spec k' k) as [->|N]; [|reflexivity].
    apply str_in_In in Hin. congruence.
Qed.

Lemma flat_nonnil kvs : kvs <> [] -> flat kvs <> [].
Proof. destruct kvs as [|[k v] r]; [congruence|discriminate]. Qed.

Lemma pfs_flat c0 kvs :
  kvs <> [] -> nodup_s (map fst kvs) = true -> clean c0 (flat kvs) ->
  props_from_string (join (String c0 "") (flat kvs)) (String c0 "") (String c0 "") = Some kvs.
Proof.
  intros Hne Hn Hc. unfold props_from_string.
  rewrite (split_join c0 "" (flat kvs)) by (auto using flat_nonnil).
  rewrite String.eqb_refl, flat_length, even_double.
  now rewrite pairs_even_flat.
Qed.

Lemma has_char_app c a b : has_char c (a ++ b) = has_char c a || has_char c b.
Proof. induction a as [|x a IH]; cbn [String.append has_char]; [reflexivity|]. now rewrite IH, Bool.orb_assoc. Qed.

Lemma clean_eqs c0 kvs : c0 <> "="%char -> clean c0 (flat kvs) -> clean c0 (eqs kvs).
Proof.
  intros Hc Hcl x Hin. unfold eqs in Hin. apply in_map_iff in Hin as ([k v] & <- & Hkv). cbn [fst snd].
  assert (Hk : has_char c0 k = false).
  { apply Hcl. unfold flat. apply in_flat_map. exists (k, v). split; [exact Hkv|now left]. }
  assert (Hv : has_char c0 v = false).
  { apply Hcl. unfold flat. apply in_flat_map. exists (k, v). split; [exact Hkv|right; now left]. }
  rewrite !has_char_app, Hk, Hv. cbn [has_char orb].
  destruct (Ascii.eqb_spec "="%char c0); [congruence|reflexivity].
Qed.

Lemma split_pair k v : has_char "="%char k = false -> has_char "="%char v = false ->
  split "=" (k ++ "=" ++ v) = [k; v].
Proof.
  intros Hk Hv. change (k ++ "=" ++ v)%string with (join "=" [k; v]).
  apply (split_join "="%char "" [k; v]); [discriminate|].
  intros x [<-|[<-|[]]]; assumption.
Qed.

Lemma fold_eqs kvs : forall acc,
  (forall k, In k (map fst kvs) -> assoc k acc = None) -> nodup_s (map fst kvs) = true ->
  clean "="%char (flat kvs) ->
  fold_left (fun acc pair =>
               match acc with
               | None => None
               | Some m => match split "=" pair with [k; v] => Some (upd k v m) | _ => None end
               end) (eqs kvs) (Some acc) = Some (acc ++ kvs).
Proof.
  induction kvs as [|[k v] r IH]; intros acc Hf Hn Hc.
  - cbn. now rewrite app_nil_r.
  - cbn [eqs map fold_left fst snd].
    rewrite split_pair.
    2:{ apply Hc. cbn. now left. }
    2:{ apply Hc. cbn. right. now left. }
    cbn [map fst nodup_s] in Hn. apply andb_prop in Hn as [Hk Hr]. apply Bool.negb_true_iff in Hk.
    rewrite (upd_fresh k v acc) by (apply Hf; now left).
    fold (eqs r). rewrite IH; [now rewrite <- app_assoc| |exact Hr|].
    + intros k' Hin. rewrite assoc_app_none by (apply Hf; now right). cbn [assoc].
      destruct (String.eqb_spec k' k) as [->|N]; [|reflexivity].
      apply str_in_In in Hin. congruence.
    + intros x Hx. apply Hc. cbn. right. right. exact Hx.
Qed.

Lemma eqs_nonnil kvs : kvs <> [] -> eqs kvs <> [].
Proof. destruct kvs; [congruence|discriminate]. Qed.

Lemma pfs_eqs c0 d' kvs :
  c0 <> "="%char -> kvs <> [] -> nodup_s (map fst kvs) = true ->
  clean c0 (flat kvs) -> clean "="%char (flat kvs) ->
  props_from_string (join (String c0 d') (eqs kvs)) (String c0 d') "=" = Some kvs.
Proof.
  intros Hc Hne Hn Hcl Heq. unfold props_from_string.
  rewrite (split_join c0 d' (eqs kvs)) by (auto using eqs_nonnil, clean_eqs).
  assert (E : String.eqb (String c0 d') "=" = false).
  { cbn. destruct (Ascii.eqb_spec c0 "="%char); [congruence|reflexivity]. }
  rewrite E. now rewrite fold_eqs.
Qed.

(* ---------------- typing layer ---------------- *)
Section TYPING.
  Variable pi64 pi32 : string -> option Z.
  Variable pf : string -> option float.
  Notation pp := (parse_primitive pi64 pi32 pf).

  Lemma leaf_pp t c v : leaf pi64 pi32 pf t c = Some v -> pp t c = PROk v.
  Proof.
    unfold leaf. destruct (pp t c) as [w|e]; [|discriminate].
    destruct w; try (now intros [= ->]).
    destruct (f_is_nan x || f_is_inf x); [discriminate|now intros [= ->]].
  Qed.

  (* what [members] says about every key *)
  Lemma members_assoc decl : forall kvs l,
    members pi64 pi32 pf kvs decl None = Some l ->
    forall k, assoc k l = match assoc k kvs with
                          | None => None
                          | Some t => match assoc k decl with Some c => leaf pi64 pi32 pf t c | None => None end
                          end.
  Proof.
    induction kvs as [|[k0 t0] r IH]; intros l H k; cbn [members] in H.
    - injection H as <-. reflexivity.
    - destruct (assoc k0 decl) as [c|] eqn:Ec; [|discriminate].
      destruct (leaf pi64 pi32 pf t0 c) as [v|] eqn:El; [|discriminate].
      destruct (members pi64 pi32 pf r decl None) as [l'|] eqn:Em; [|discriminate].
      injection H as <-. cbn [assoc].
      destruct (String.eqb_spec k k0) as [->|N]; [now rewrite Ec|].
      now apply IH.
  Qed.

  Lemma assoc_In_snd {A} k (v : A) l : assoc k l = Some v -> In (k, v) l.
  Proof.
    induction l as [|[k0 v0] l IH]; cbn [assoc]; [discriminate|].
    destruct (String.eqb_spec k k0) as [->|N]; [intros [= ->]; now left|intros H; right; auto].
  Qed.

  Lemma nodup_assoc {A} (decl : list (string * A)) k c :
    nodup_s (map fst decl) = true -> In (k, c) decl -> assoc k decl = Some c.
  Proof.
    induction decl as [|[k0 c0] r IH]; cbn [map fst nodup_s assoc In]; [easy|].
    intros Hn [E|Hin].
    - injection E as -> ->. now rewrite String.eqb_refl.
    - apply andb_prop in Hn as [Hk Hr]. apply Bool.negb_true_iff in Hk.
      destruct (String.eqb_spec k k0) as [->|N]; [|auto].
      assert (In k0 (map fst r)) by (apply in_map_iff; exists (k0, c); auto).
      apply str_in_In in H. congruence.
  Qed.

  (* buildResObj over the declared properties: every declared member that is present is read as
     its declared type; the others leave the object alone *)
  Lemma build_props_spec kvs decl l :
    members pi64 pi32 pf kvs decl None = Some l ->
    Forall (fun kv => snd kv <> PNil) l ->
    forall d' acc,
      (forall k c, In (k, c) d' -> assoc k decl = Some c) ->
      nodup_s (map fst d') = true ->
      exists m, build_props pi64 pi32 pf kvs d' acc = Some m /\
                forall k, assoc k m = if str_in k (map fst d')
                                      then match assoc k l with Some v => Some v | None => assoc k acc end
                                      else assoc k acc.
  Proof.
    intros Hm Hnn. induction d' as [|[k0 c0] r IH]; intros acc Hd Hn.
    - exists acc. split; [reflexivity|]. intros k. reflexivity.
    - cbn [map fst nodup_s] in Hn. apply andb_prop in Hn as [Hk Hr]. apply Bool.negb_true_iff in Hk.
      assert (Hd' : forall k c, In (k, c) r -> assoc k decl = Some c) by (intros; apply Hd; now right).
      pose proof (members_assoc decl kvs l Hm k0) as Hl0.
      rewrite (Hd k0 c0 (or_introl eq_refl)) in Hl0.
      cbn [build_props]. unfold build_prop.
      destruct (assoc k0 kvs) as [raw|] eqn:Er.
      + (* present *)
        destruct (leaf pi64 pi32 pf raw c0) as [v|] eqn:El.
        2:{ (* members would have failed: the key is in kvs *)
            exfalso. clear - Hm Er El Hd.
            assert (G : forall kvs l, members pi64 pi32 pf kvs decl None = Some l ->
                        forall raw, assoc k0 kvs = Some raw -> leaf pi64 pi32 pf raw c0 <> None).
            { induction kvs0 as [|[k1 t1] r1 IH1]; intros l1 H1 raw1 Ha; cbn [assoc members] in *; [discriminate|].
              destruct (assoc k1 decl) as [c|] eqn:Ec; [|discriminate].
              destruct (leaf pi64 pi32 pf t1 c) eqn:E1; [|discriminate].
              destruct (members pi64 pi32 pf r1 decl None) eqn:E2; [|discriminate].
              destruct (String.eqb_spec k0 k1) as [<-|N].
              - injection Ha as <-. rewrite (Hd k0 c0 (or_introl eq_refl)) in Ec. injection Ec as <-. congruence.
              - eapply IH1; eauto. }
            exact (G kvs l Hm raw Er El). }
        rewrite (leaf_pp _ _ _ El).
        assert (Hv : v <> PNil).
        { apply assoc_In_snd in Hl0. rewrite Forall_forall in Hnn. exact (Hnn _ Hl0). }
        destruct v; try congruence;
          (match goal with |- context [build_props _ _ _ _ r ?a] => destruct (IH a Hd' Hr) as (m & Hb & Hs) end;
           exists m; split; [exact Hb|];
           intros k; rewrite Hs, assoc_upd; cbn [map fst str_in];
           destruct (String.eqb_spec k k0) as [->|N]; cbn [orb];
           [rewrite Hk, Hl0; reflexivity|reflexivity]).
      + (* absent: skipped *)
        destruct (IH acc Hd' Hr) as (m & Hb & Hs). exists m. split; [exact Hb|].
        intros k. rewrite Hs. cbn [map fst str_in].
        destruct (String.eqb_spec k k0) as [->|N]; cbn [orb]; [|reflexivity].
        now rewrite Hk, Hl0.
  Qed.

  (* makeObject for an object schema without additionalProperties, all members declared *)
  Lemma make_object_members kvs decl l :
    members pi64 pi32 pf kvs decl None = Some l ->
    Forall (fun kv => snd kv <> PNil) l ->
    nodup_s (map fst decl) = true ->
    exists m, make_object pi64 pi32 pf kvs decl None = Some m /\ forall k, assoc k m = assoc k l.
  Proof.
    intros Hm Hnn Hn. unfold make_object.
    destruct (build_props_spec kvs decl l Hm Hnn decl [] (fun k c H => nodup_assoc decl k c Hn H) Hn) as (m & Hb & Hs).
    rewrite Hb. exists m. split; [reflexivity|].
    intros k. rewrite Hs. cbn [assoc].
    destruct (str_in k (map fst decl)) eqn:E; [now destruct (assoc k l)|].
    (* an undeclared key is not a member at all *)
    rewrite (members_assoc decl kvs l Hm k).
    destruct (assoc k kvs); [|reflexivity].
    now rewrite (str_in_false_assoc k decl E).
  Qed.
End TYPING.

(* ---------------- round trips per location ---------------- *)
(* the character separating the pairs (or the names and values) of an object in a cell *)
Definition obj_sep (l : loc) (style : string) (explode : bool) : ascii :=
  match l with
  | LPath => if explode then (if String.eqb style "label" then dot else if String.eqb style "matrix" then semic else comma) else comma
  | _ => comma
  end.
(* the cells that write name=value pairs inside one text *)
Definition eq_form (l : loc) (explode : bool) : bool :=
  match l with LPath | LHeader => explode | _ => false end.

Lemma flat_cons k v r : flat ((k, v) :: r) = k :: v :: flat r.
Proof. reflexivity. Qed.
Lemma eqs_cons k v r : eqs ((k, v) :: r) = (k ++ "=" ++ v)%string :: eqs r.
Proof. reflexivity. Qed.
Lemma append_eq_nonempty (k v : string) : (k ++ "=" ++ v)%string <> ""%string.
Proof. destruct k; discriminate. Qed.

Local Opaque join split cut_prefix props_from_string make_object concat_map flat eqs.

Section RT3.
  Variable pi64 pi32 : string -> option Z.
  Variable pf : string -> option float.

  Lemma semi_concat es : es <> [] ->
    concat_map (fun e : string => String ";" e) es = (";" ++ join ";" es)%string.
  Proof. intros H. rewrite <- (concat_map_join ";" es H). apply concat_map_ext. reflexivity. Qed.

  Theorem path_object_roundtrip name style explode s decl kvs l :
    str_in style ["simple"; "label"; "matrix"] = true ->
    shape_of s = ShObj decl None ->
    kvs <> [] -> nodup_s (map fst kvs) = true -> Forall (fun t => t <> ""%string) (flat kvs) ->
    clean (obj_sep LPath style explode) (flat kvs) -> (explode = true -> clean "="%char (flat kvs)) ->
    members pi64 pi32 pf kvs decl None = Some l -> Forall (fun kv => snd kv <> PNil) l ->
    nodup_s (map fst decl) = true ->
    exists m, path_decode pi64 pi32 pf name style explode s [(name, ser_text LPath style explode name (SObj kvs))]
              = DRes (PO m) true None /\ forall k, assoc k m = assoc k l.
  Proof.
    intros Hst Hsh Hne Hnd Hnn Hcl Heq Hm Hv Hdn.
    destruct (make_object_members pi64 pi32 pf kvs decl l Hm Hv Hdn) as (m & Hmo & Hs).
    exists m. split; [|exact Hs].
    destruct kvs as [|[k0 v0] r]; [congruence|].
    assert (Hk0 : k0 <> ""%string).
    { rewrite flat_cons in Hnn. now inversion Hnn. }
    unfold path_decode. rewrite Hsh. cbn [assoc]. rewrite String.eqb_refl.
    cbn [str_in] in Hst. unfold obj_sep in Hcl.
    destruct (String.eqb_spec style "simple") as [->|N1].
    { destruct explode; cbn in Hcl |- *.
      - rewrite eqs_cons at 1. rewrite (eqb_false_of_ne _ (join_nonempty "," _ _ (append_eq_nonempty k0 v0))).
        rewrite cut_prefix_nil.
        rewrite (pfs_eqs ","%char "") by (auto; discriminate). now rewrite Hmo.
      - rewrite flat_cons at 1. rewrite (eqb_false_of_ne _ (join_nonempty "," _ _ Hk0)).
        rewrite cut_prefix_nil.
        rewrite (pfs_flat ","%char) by auto. now rewrite Hmo. }
    destruct (String.eqb_spec style "label") as [->|N2].
    { destruct explode; cbn in Hcl |- *; (erewrite cut_prefix_eq by reflexivity).
      - rewrite (pfs_eqs "."%char "") by (auto; discriminate). now rewrite Hmo.
      - rewrite (pfs_flat ","%char) by auto. now rewrite Hmo. }
    destruct (String.eqb_spec style "matrix") as [->|N3]; [|cbn in Hst; rewrite ?Bool.orb_false_r in Hst; discriminate].
    destruct explode; cbn in Hcl |- *.
    - rewrite semi_concat by discriminate.
      erewrite cut_prefix_eq by reflexivity.
      rewrite (pfs_eqs ";"%char "") by (auto; discriminate). now rewrite Hmo.
    - rewrite matrix_prefix_text, cut_prefix_app.
      rewrite (pfs_flat ","%char) by auto. now rewrite Hmo.
  Qed.

  Theorem header_object_roundtrip name explode s decl kvs l :
    shape_of s = ShObj decl None ->
    kvs <> [] -> nodup_s (map fst kvs) = true ->
    clean ","%char (flat kvs) -> (explode = true -> clean "="%char (flat kvs)) ->
    members pi64 pi32 pf kvs decl None = Some l -> Forall (fun kv => snd kv <> PNil) l ->
    nodup_s (map fst decl) = true ->
    exists m, header_decode pi64 pi32 pf name "simple" explode s [(name, [ser_text LHeader "simple" explode name (SObj kvs)])]
              = DRes (PO m) true None /\ forall k, assoc k m = assoc k l.
  Proof.
    intros Hsh Hne Hnd Hcl Heq Hm Hv Hdn.
    destruct (make_object_members pi64 pi32 pf kvs decl l Hm Hv Hdn) as (m & Hmo & Hs).
    exists m. split; [|exact Hs].
    unfold header_decode. rewrite Hsh. cbn [assoc]. rewrite String.eqb_refl.
    cbn [String.eqb Ascii.eqb Bool.eqb negb ser_text assoc]. rewrite ?String.eqb_refl.
    destruct explode.
    - rewrite (pfs_eqs ","%char "") by (auto; discriminate). now rewrite Hmo.
    - rewrite (pfs_flat ","%char) by auto. now rewrite Hmo.
  Qed.

  Theorem cookie_object_roundtrip name s decl kvs l :
    shape_of s = ShObj decl None ->
    kvs <> [] -> nodup_s (map fst kvs) = true -> clean ","%char (flat kvs) ->
    members pi64 pi32 pf kvs decl None = Some l -> Forall (fun kv => snd kv <> PNil) l ->
    nodup_s (map fst decl) = true ->
    exists m, cookie_decode pi64 pi32 pf name "form" false s [(name, ser_text LCookie "form" false name (SObj kvs))]
              = DRes (PO m) true None /\ forall k, assoc k m = assoc k l.
  Proof.
    intros Hsh Hne Hnd Hcl Hm Hv Hdn.
    destruct (make_object_members pi64 pi32 pf kvs decl l Hm Hv Hdn) as (m & Hmo & Hs).
    exists m. split; [|exact Hs].
    unfold cookie_decode. rewrite Hsh. cbn [assoc]. rewrite String.eqb_refl.
    cbn [String.eqb Ascii.eqb Bool.eqb negb orb ser_text assoc]. rewrite ?String.eqb_refl.
    rewrite (pfs_flat ","%char) by auto. now rewrite Hmo.
  Qed.

  (* the first member is declared: the decoder reports the parameter as found *)
  Lemma found_flag (decl : list (string * score)) (ps : list (string * string)) (m : list (string * pval)) k0 v0 r :
    ps = (k0, v0) :: r -> str_in k0 (map fst decl) = true ->
    match decl with
    | [] => false
    | _ => existsb (fun kc => match assoc (fst kc) ps with Some _ => true | None => false end) decl
           || existsb (fun kv => match assoc (fst kv) m with Some _ => true | None => false end) ps
    end = true.
  Proof.
    intros -> Hin. destruct decl as [|d0 dr]; [discriminate|].
    apply Bool.orb_true_iff. left. apply existsb_exists.
    apply str_in_In, in_map_iff in Hin as ([k c] & E & Hin). cbn [fst] in E. subst k.
    exists (k0, c). split; [exact Hin|]. cbn [fst assoc]. now rewrite String.eqb_refl.
  Qed.

  Theorem query_object_roundtrip name explode s decl kvs l :
    shape_of s = ShObj decl None ->
    kvs <> [] -> nodup_s (map fst kvs) = true ->
    (explode = false -> clean ","%char (flat kvs)) ->
    members pi64 pi32 pf kvs decl None = Some l -> Forall (fun kv => snd kv <> PNil) l ->
    nodup_s (map fst decl) = true ->
    exists m, query_decode pi64 pi32 pf name "form" explode s (ser_query "form" explode name (SObj kvs))
              = DRes (PO m) true None /\ forall k, assoc k m = assoc k l.
  Proof.
    intros Hsh Hne Hnd Hcl Hm Hv Hdn.
    destruct (make_object_members pi64 pi32 pf kvs decl l Hm Hv Hdn) as (m & Hmo & Hs).
    exists m. split; [|exact Hs].
    destruct kvs as [|[k0 v0] r] eqn:Ek; [congruence|]. rewrite <- Ek in *.
    (* the first member is declared (members succeeded on it) *)
    assert (Hdecl : str_in k0 (map fst decl) = true).
    { subst kvs. cbn [members] in Hm.
      destruct (assoc k0 decl) as [c|] eqn:Ec; [|discriminate].
      apply str_in_In, in_map_iff. exists (k0, c). split; [reflexivity|]. now apply assoc_In_snd. }
    unfold query_decode, ser_query. rewrite Hsh, String.eqb_refl.
    destruct explode.
    - (* one query entry per member *)
      rewrite map_map. cbn [fst snd first_of].
      assert (Eid : map (fun x : string * string => (fst x, snd x)) kvs = kvs).
      { clear. induction kvs as [|[a b] t IH]; cbn; [reflexivity|now rewrite IH]. }
      rewrite Eid, Hmo. cbv beta iota.
      rewrite (found_flag decl kvs m k0 v0 r Ek Hdecl). rewrite Ek. reflexivity.
    - cbn [assoc]. rewrite String.eqb_refl.
      rewrite (pfs_flat ","%char) by auto.
      rewrite Hmo. cbv beta iota.
      rewrite (found_flag decl kvs m k0 v0 r Ek Hdecl). rewrite Ek. reflexivity.
  Qed.
End RT3.

(* ---------------- every allowed cell ---------------- *)
Section ALLCELLS_OBJ.
  Variable pi64 pi32 : string -> option Z.
  Variable pf : string -> option float.

  Theorem object_roundtrip p kvs decl l :
    allowed_cell (pd_in p) (eff_style p) (eff_explode p) = true ->
    defined_cell p (SObj kvs) = true ->
    shape_of (pd_schema p) = ShObj decl None ->
    kvs <> [] -> nodup_s (map fst kvs) = true -> nodup_s (map fst decl) = true ->
    Forall (fun t => t <> ""%string) (flat kvs) ->
    (* no text contains a separator of the cell *)
    (pd_in p = LQuery /\ eff_explode p = true \/ clean (obj_sep (pd_in p) (eff_style p) (eff_explode p)) (flat kvs)) ->
    (eq_form (pd_in p) (eff_explode p) = true -> clean "="%char (flat kvs)) ->
    (* every member is declared and its text is of the declared type *)
    members pi64 pi32 pf kvs decl None = Some l -> Forall (fun kv => snd kv <> PNil) l ->
    exists m, decode_param pi64 pi32 pf p (ser p (SObj kvs)) = DRes (PO m) true None /\
              forall k, assoc k m = assoc k l.
  Proof.
    intros Hall Hdef Hsh Hne Hnd Hdn Hnn Hcl Heq Hm Hv.
    unfold decode_param, ser, allowed_cell, defined_cell, eq_form in *.
    destruct (pd_in p) eqn:Hin; cbn [f_path f_query f_header f_cookie].
    - destruct Hcl as [[? _]|Hcl]; [discriminate|].
      apply (path_object_roundtrip pi64 pi32 pf _ _ _ _ decl kvs l); auto.
    - apply String.eqb_eq in Hdef. rewrite Hdef in *.
      apply (query_object_roundtrip pi64 pi32 pf _ _ _ decl kvs l); auto.
      intros Hex. destruct Hcl as [[_ E]|Hcl]; [congruence|]. unfold obj_sep in Hcl. exact Hcl.
    - apply String.eqb_eq in Hall. rewrite Hall in *.
      destruct Hcl as [[? _]|Hcl]; [discriminate|].
      apply (header_object_roundtrip pi64 pi32 pf _ _ _ decl kvs l); auto.
    - apply String.eqb_eq in Hall. rewrite Hall in *. apply Bool.negb_true_iff in Hdef. rewrite Hdef in *.
      destruct Hcl as [[? _]|Hcl]; [discriminate|].
      apply (cookie_object_roundtrip pi64 pi32 pf _ _ decl kvs l); auto.
  Qed.
End ALLCELLS_OBJ.
