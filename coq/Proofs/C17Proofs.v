From KV Require Import Model.Base Model.Json Model.ParamCodec Model.Conv Proofs.C05Proofs Proofs.C09Proofs.
Local Open Scope list_scope.

Lemma swap_prefix_hit old new x : swap_prefix old new (old ++ x) = (new ++ x)%string.
Proof. unfold swap_prefix. now rewrite prefix_app, drop_app. Qed.

(* a v2 reference has exactly one of the three prefixes *)
Lemma v2_ref_cases r : is_v2_ref r = true ->
  exists old new x, In (old, new) ref_pairs /\ r = (old ++ x)%string.
Proof.
  unfold is_v2_ref. cbn [existsb ref_pairs fst]. intros H.
  destruct (String.prefix "#/definitions/" r) eqn:E1.
  { exists "#/definitions/", "#/components/schemas/", (drop 14 r). split; [now left|]. now apply (prefix_drop "#/definitions/"). }
  destruct (String.prefix "#/responses/" r) eqn:E2.
  { exists "#/responses/", "#/components/responses/", (drop 12 r). split; [right; now left|]. now apply (prefix_drop "#/responses/"). }
  destruct (String.prefix "#/parameters/" r) eqn:E3; [|discriminate].
  exists "#/parameters/", "#/components/parameters/", (drop 13 r). split; [right; right; now left|]. now apply (prefix_drop "#/parameters/").
Qed.

Ltac prefix_step :=
  match goal with
  | |- context [String.prefix ?a (?a ++ ?x)] => rewrite (prefix_app a x)
  | |- context [String.prefix ?a (?b ++ ?x)] =>
      let H := fresh in assert (H : String.prefix a (b ++ x) = false) by reflexivity; rewrite H; clear H
  | |- context [drop (String.length ?a) (?a ++ ?x)] => rewrite (drop_app a x)
  end.

(* whatever order Go iterates the map in, a v2 reference is rewritten to the matching v3 location *)
Theorem to_v3_any_order o old new x :
  In o orders -> In (old, new) ref_pairs -> to_v3_ref o (old ++ x) = (new ++ x)%string.
Proof.
  intros Ho Hp. cbn in Ho, Hp.
  destruct Hp as [E|[E|[E|[]]]]; inversion E; subst old new; clear E;
    repeat (destruct Ho as [<-|Ho]; [unfold to_v3_ref, swap_prefix; cbn [fold_left fst snd]; repeat prefix_step; reflexivity|]);
    destruct Ho.
Qed.

(* ... and rewriting back gives the original reference, again in any order *)
Theorem from_v3_any_order o old new x :
  In o orders -> In (old, new) ref_pairs -> from_v3_ref o (new ++ x) = (old ++ x)%string.
Proof.
  intros Ho Hp. cbn in Ho, Hp.
  destruct Hp as [E|[E|[E|[]]]]; inversion E; subst old new; clear E;
    repeat (destruct Ho as [<-|Ho]; [unfold from_v3_ref, swap_prefix; cbn [fold_left fst snd]; repeat prefix_step; reflexivity|]);
    destruct Ho.
Qed.

Theorem ref_roundtrip r o1 o2 :
  In o1 orders -> In o2 orders -> is_v2_ref r = true -> from_v3_ref o2 (to_v3_ref o1 r) = r.
Proof.
  intros H1 H2 Hr. destruct (v2_ref_cases r Hr) as (old & new & x & Hin & ->).
  rewrite (to_v3_any_order o1 old new x H1 Hin). now apply from_v3_any_order.
Qed.

(* after the way back every component reference points at a Swagger 2 location *)
Theorem from_v3_lands_in_v2 o x :
  In o orders ->
  from_v3_ref o ("#/components/schemas/" ++ x) = ("#/definitions/" ++ x)%string /\
  from_v3_ref o ("#/components/responses/" ++ x) = ("#/responses/" ++ x)%string /\
  from_v3_ref o ("#/components/parameters/" ++ x) = ("#/parameters/" ++ x)%string /\
  from_v3_ref o ("#/components/requestBodies/" ++ x) = ("#/parameters/" ++ x)%string.
Proof.
  intros H. repeat split.
  - apply (from_v3_any_order o "#/definitions/" "#/components/schemas/"); [exact H|cbn; tauto].
  - apply (from_v3_any_order o "#/responses/" "#/components/responses/"); [exact H|cbn; tauto].
  - apply (from_v3_any_order o "#/parameters/" "#/components/parameters/"); [exact H|cbn; tauto].
  - cbn in H. repeat (destruct H as [<-|H]; [unfold from_v3_ref, swap_prefix; cbn [fold_left fst snd]; repeat prefix_step; reflexivity|]).
    destruct H.
Qed.

(* a field copied under the same name keeps its value: for every record *)
Lemma assoc_flat_first (cs : list (string * string)) (src : arecord) f :
  (forall c, In c cs -> fst c = f -> snd c = f) ->
  existsb (fun c => String.eqb (fst c) f) cs = true ->
  assoc f (flat_map (fun c => match assoc (snd c) src with Some v => [(fst c, v)] | None => [] end) cs) = assoc f src
  \/ assoc f src = None.
Proof.
  induction cs as [|[d s] cs IH]; intros Hsame Hex; [discriminate|]. cbn [flat_map fst snd existsb] in *.
  destruct (String.eqb_spec d f) as [->|Hne]; cbn [orb] in Hex.
  - assert (s = f) by (apply (Hsame (f, s)); [now left|reflexivity]). subst s.
    destruct (assoc f src) as [v|] eqn:E; [|now right]. left. cbn. now rewrite String.eqb_refl.
  - destruct (IH (fun c Hc => Hsame c (or_intror Hc)) Hex) as [H|H]; [|now right]. left.
    destruct (assoc s src) as [v|]; cbn; [|exact H].
    destruct (String.eqb_spec f d); [congruence|exact H].
Qed.

Theorem copy_preserves s f src :
  (forall c, In c (cs_copies s) -> fst c = f -> snd c = f) -> copies s f = true ->
  assoc f (convert s src) = assoc f src.
Proof.
  intros Hsame Hc. unfold convert, copies in *.
  destruct (assoc_flat_first (cs_copies s) src f Hsame Hc) as [H|H]; [exact H|].
  rewrite H. clear Hc.
  induction (cs_copies s) as [|[d s0] cs IH]; [reflexivity|]. cbn [flat_map fst snd].
  assert (Hrest : forall c, In c cs -> fst c = f -> snd c = f) by (intros c Hc; apply Hsame; now right).
  destruct (assoc s0 src) as [v|] eqn:E; cbn; [|now apply IH].
  destruct (String.eqb_spec f d) as [->|]; [|now apply IH].
  assert (s0 = d) by (apply (Hsame (d, s0)); [now left|reflexivity]). subst. congruence.
Qed.
