From KV Require Import Model.Base Model.ReasonSites.
Local Open Scope list_scope.

Definition same_but_leaves (p q : pools) : Prop :=
  p_schema p = p_schema q /\ p_keys p = p_keys q /\ p_types p = p_types q /\ p_validator p = p_validator q.

Lemma args_text_indep p q l : forall i,
  same_but_leaves p q -> forallb arg_ok l = true -> args_text p i l = args_text q i l.
Proof.
  intros i (Hs & Hk & Ht & Hv). revert i.
  induction l as [|a l IH]; intros i H; [reflexivity|].
  cbn [forallb] in H. apply andb_prop in H as [Ha Hl]. cbn [args_text].
  rewrite (IH (S i) Hl). f_equal.
  destruct a; cbn [arg_text arg_ok] in *; try congruence.
Qed.

(* non-interference: a site without AValue arguments renders to the same text whatever the
   string leaves of the rejected value are *)
Lemma render_indep sprintf p q s :
  same_but_leaves p q -> site_ok s = true -> render sprintf p s = render sprintf q s.
Proof. intros H Hs. unfold render. now rewrite (args_text_indep p q _ 0 H Hs). Qed.

Lemma all_sites_indep sprintf p q l :
  same_but_leaves p q -> sites_ok l = true ->
  forall s, In s l -> render sprintf p s = render sprintf q s.
Proof.
  intros H Hl s Hin. apply render_indep; [exact H|].
  unfold sites_ok in Hl. rewrite forallb_forall in Hl. now apply Hl.
Qed.
