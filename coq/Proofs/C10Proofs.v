(* C10: no stage of request / response validation panics on a document that passed document
   validation.  The stage theorems of C01, C06, C08 already carry "no panic"; here: parameter
   decoding, whose one panic site (an array schema without items) is closed by the document
   validation rule "when schema type is 'array', schema 'items' must be non-null". *)
From KV Require Import Model.Base Model.Json Model.Schema Model.ParamCodec.
Local Open Scope list_scope.

Definition np_d (d : dres) : bool := match d with DPanic _ => false | _ => true end.

Section NP.
  Variable pi64 pi32 : string -> option Z.
  Variable pf : string -> option float.

  (* the gate: an array-typed parameter schema has items *)
  Definition items_declared (s : schema) : bool :=
    match shape_of s with ShArr None => false | _ => true end.

  Lemma of_pres_np f r : np_d (of_pres f r) = true.
  Proof. destruct r; reflexivity. Qed.
  Lemma arr_result_np f r : np_d (arr_result f r) = true.
  Proof. destruct r as [v|e]; [|reflexivity]. destruct v; try reflexivity. destruct l; reflexivity. Qed.
  Lemma obj_result_np f o : np_d (obj_result f o) = true.
  Proof. destruct o; reflexivity. Qed.
  Lemma arr_from_np f parts ic : np_d (decode_array_from pi64 pi32 pf f parts (Some ic)) = true.
  Proof. unfold decode_array_from. apply arr_result_np. Qed.

  Ltac step :=
    match goal with
    | |- np_d (of_pres _ _) = true => apply of_pres_np
    | |- np_d (arr_result _ _) = true => apply arr_result_np
    | |- np_d (obj_result _ _) = true => apply obj_result_np
    | |- np_d (decode_array_from _ _ _ _ _ (Some _)) = true => apply arr_from_np
    | |- np_d (DRes _ _ _) = true => reflexivity
    | |- np_d (if ?b then _ else _) = true => destruct b
    | |- np_d (match ?x with _ => _ end) = true => destruct x
    end.

  Theorem decode_param_no_panic p f :
    items_declared (pd_schema p) = true -> np_d (decode_param pi64 pi32 pf p f) = true.
  Proof.
    unfold items_declared, decode_param. intros H.
    destruct (pd_in p); unfold path_decode, query_decode, header_decode, cookie_decode;
      destruct (shape_of (pd_schema p)) as [|[ic|]|decl ap|]; try discriminate H; repeat step.
  Qed.
End NP.

(* ---- every modelled stage, for every document, request and response ---- *)
From KV Require Import Model.Lookup Model.Response Model.Body Proofs.SchemaProofs Proofs.SchemaMain.

Section STAGES.
  Variable pi64 pi32 : string -> option Z.
  Variable pf : string -> option float.
  Variable rc : string -> bool.
  Variable rm : string -> string -> bool.
  Variable fo : string -> string -> json -> option bool.

  Definition is_vpanic (r : vres) : bool := match r with VPanic _ => true | _ => false end.
  Theorem validate_param_no_panic multi p f :
    items_declared (pd_schema p) = true ->
    is_vpanic (validate_param pi64 pi32 pf rc rm fo multi p f) = false.
  Proof.
    intros H. unfold validate_param.
    pose proof (decode_param_no_panic pi64 pi32 pf p f H) as Hd.
    destruct (decode_param pi64 pi32 pf p f) as [v found e|w]; [|discriminate Hd].
    destruct e; [reflexivity|].
    destruct (pd_required p && negb found); [reflexivity|].
    destruct (is_nil_val v); [destruct (negb (pd_allow_empty p) && found); reflexivity|].
    pose proof (visit_np rc rm fo (mkSt false multi false false false false (has_int v)) (pd_schema p) (sort_obj (json_of v))) as Hv.
    destruct (visit rc rm fo _ (pd_schema p) (sort_obj (json_of v))); try reflexivity. discriminate Hv.
  Qed.

  Definition is_rpanic (r : rres) : bool := match r with RPanic _ => true | _ => false end.
  Lemma header_check_np o h : is_rpanic (header_check rc rm fo o h) = false.
  Proof.
    unfold header_check. destruct (h_schema h) as [s|].
    - destruct (h_found h); [|destruct (h_required h); reflexivity].
      destruct (h_decoded h) as [v|]; [|reflexivity].
      pose proof (visit_np rc rm fo (resp_settings o false) s v) as Hv.
      destruct (visit rc rm fo (resp_settings o false) s v); try reflexivity. discriminate Hv.
    - destruct (h_required h && negb (h_found h)); reflexivity.
  Qed.
  Lemma headers_check_np o hs : is_rpanic (headers_check rc rm fo o hs) = false.
  Proof.
    induction hs as [|h hs IH]; [reflexivity|]. cbn [headers_check].
    pose proof (header_check_np o h) as Hh. destruct (header_check rc rm fo o h); try exact IH; try reflexivity. discriminate Hh.
  Qed.
  Theorem validate_response_no_panic o is_head status responses ct body :
    is_rpanic (fst (validate_response rc rm fo o is_head status responses ct body)) = false.
  Proof.
    unfold validate_response. destruct is_head; [reflexivity|].
    destruct (N.eqb status 304 || N.eqb status 308 || N.eqb status 307 || N.eqb status 301); [reflexivity|].
    destruct responses as [|r0 rs]; [reflexivity|].
    destruct (select_response (r0 :: rs) status) as [d|]; [|destruct (v_include_status o); reflexivity].
    pose proof (headers_check_np o (r_headers d)) as Hh.
    destruct (headers_check rc rm fo o (r_headers d)); try reflexivity; [|discriminate Hh].
    destruct (v_excl_body o); [reflexivity|]. destruct (r_content d) as [|c0 cs]; [reflexivity|].
    destruct (content_get (c0 :: cs) ct) as [m|]; [|reflexivity].
    destruct (m_schema m) as [s|]; [|reflexivity]. destruct body as [v|]; [|reflexivity].
    pose proof (visit_np rc rm fo (resp_settings o true) s v) as Hv.
    destruct (visit rc rm fo (resp_settings o true) s v); try reflexivity. discriminate Hv.
  Qed.

  Definition is_bpanic (r : bres) : bool := match r with BPanic _ => true | _ => false end.
  Theorem validate_body_no_panic o required content ct raw parsed :
    is_bpanic (validate_body rc rm fo o required content ct raw parsed) = false.
  Proof.
    unfold validate_body. destruct (String.eqb raw ""); [destruct required; reflexivity|].
    destruct content as [|c0 cs]; [reflexivity|].
    destruct (content_get (c0 :: cs) ct) as [m|]; [|reflexivity].
    destruct (m_schema m) as [s|]; [|reflexivity].
    destruct (decode_body ct raw parsed) as [v|]; [|reflexivity].
    pose proof (visit_np rc rm fo (req_settings o) s v) as Hv.
    destruct (visit rc rm fo (req_settings o) s v); try reflexivity. discriminate Hv.
  Qed.
End STAGES.
