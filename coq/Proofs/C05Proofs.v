(* C05: string-level lemmas (split / join / cutPrefix) and the round-trip theorems. *)
From KV Require Import Model.Base Model.Json Model.Schema Model.Request Model.Lookup Model.ParamCodec Spec.ParamSpec.
Local Open Scope list_scope.

Lemma app_nil_r_s (s : string) : (s ++ "")%string = s.
Proof. induction s; cbn; congruence. Qed.
Lemma app_assoc_s (a b c : string) : ((a ++ b) ++ c)%string = (a ++ (b ++ c))%string.
Proof. induction a; cbn; congruence. Qed.

Lemma prefix_app (d r : string) : String.prefix d (d ++ r) = true.
Proof. induction d as [|c d IH]; cbn; [now destruct r|]. destruct (ascii_dec c c); [exact IH|congruence]. Qed.

Lemma prefix_first_diff c0 d' a s : Ascii.eqb a c0 = false -> String.prefix (String c0 d') (String a s) = false.
Proof.
  intros H. cbn. destruct (ascii_dec c0 a) as [->|Hn].
  - now rewrite Ascii.eqb_refl in H.
  - reflexivity.
Qed.

(* while scanning an element that does not contain the separator's first character, no match starts *)
Lemma split_aux_elem c0 d' x : forall rest cur,
  has_char c0 x = false ->
  split_aux (String c0 d') (x ++ rest) 0 cur = split_aux (String c0 d') rest 0 (cur ++ x).
Proof.
  induction x as [|a x IH]; intros rest cur H; cbn [String.append].
  - now rewrite app_nil_r_s.
  - cbn [has_char] in H. apply Bool.orb_false_elim in H as [Ha Hx].
    cbn [split_aux]. fold (String.append x rest).
    rewrite (prefix_first_diff c0 d' a (x ++ rest) Ha).
    rewrite (IH rest _ Hx). now rewrite app_assoc_s.
Qed.

Lemma split_aux_skip d s1 : forall rest cur,
  split_aux d (s1 ++ rest) (String.length s1) cur = split_aux d rest 0 cur.
Proof. induction s1 as [|a s1 IH]; intros rest cur; cbn; [reflexivity|apply IH]. Qed.

Lemma split_aux_delim c0 d' rest cur :
  split_aux (String c0 d') (String c0 d' ++ rest) 0 cur = cur :: split_aux (String c0 d') rest 0 "".
Proof.
  cbn [String.append split_aux].
  change (String c0 (d' ++ rest)) with (String c0 d' ++ rest)%string.
  rewrite prefix_app. cbn [String.length].
  replace (S (String.length d') - 1) with (String.length d') by lia.
  f_equal. apply split_aux_skip.
Qed.

Definition clean (c0 : ascii) (xs : list string) : Prop := forall x, In x xs -> has_char c0 x = false.

(* strings.Split inverts strings.Join on non-empty lists whose elements avoid the first
   character of the separator *)
Theorem split_join c0 d' xs :
  xs <> [] -> clean c0 xs -> split (String c0 d') (join (String c0 d') xs) = xs.
Proof.
  unfold split. intros Hne Hc.
  assert (G : forall cur, split_aux (String c0 d') (join (String c0 d') xs) 0 cur
                          = match xs with [] => [cur] | x :: r => (cur ++ x)%string :: r end).
  { induction xs as [|x xs IH]; intros cur; [congruence|].
    destruct xs as [|y ys].
    - cbn [join]. rewrite <- (app_nil_r_s x) at 1.
      rewrite split_aux_elem by (apply Hc; now left). reflexivity.
    - change (join (String c0 d') (x :: y :: ys)) with (x ++ (String c0 d' ++ join (String c0 d') (y :: ys)))%string.
      rewrite split_aux_elem by (apply Hc; now left).
      rewrite split_aux_delim. f_equal.
      rewrite IH; [reflexivity|discriminate|]. intros z Hz. apply Hc. now right. }
  rewrite G. destruct xs; [congruence|reflexivity].
Qed.

Lemma drop_app p t : drop (String.length p) (p ++ t) = t.
Proof. induction p; cbn; auto. Qed.
Lemma cut_prefix_app p t : cut_prefix (p ++ t) p = Some t.
Proof. unfold cut_prefix. now rewrite prefix_app, drop_app. Qed.
Lemma cut_prefix_nil t : cut_prefix t "" = Some t.
Proof. unfold cut_prefix. cbn. now destruct t. Qed.

(* matrix/explode arrays: ;n=a;n=b;n=c  =  ;n= ++ join ";n=" [a;b;c] *)
Lemma concat_map_join pre ts :
  ts <> [] -> concat_map (fun t => (pre ++ t)%string) ts = (pre ++ join pre ts)%string.
Proof.
  induction ts as [|t ts IH]; intros H; [congruence|].
  destruct ts as [|u us].
  - cbn. now rewrite app_nil_r_s.
  - change (concat_map (fun t0 => (pre ++ t0)%string) (t :: u :: us))
      with ((pre ++ t) ++ concat_map (fun t0 => (pre ++ t0)%string) (u :: us))%string.
    rewrite IH by discriminate.
    change (join pre (t :: u :: us)) with (t ++ pre ++ join pre (u :: us))%string.
    now rewrite !app_assoc_s.
Qed.

Lemma concat_map_ext f g l : (forall x, f x = g x) -> concat_map f l = concat_map g l.
Proof. intros H. induction l as [|x l IH]; cbn; [reflexivity|]. now rewrite H, IH. Qed.

Lemma matrix_prefix_text name x :
  String ";" (name ++ String "=" x) = (String ";" (name ++ "=") ++ x)%string.
Proof. cbn [String.append]. f_equal. now rewrite app_assoc_s. Qed.

Lemma matrix_explode_text name ts :
  ts <> [] ->
  concat_map (fun t : string => String ";" (name ++ String "=" t)) ts
  = (String ";" (name ++ "=") ++ join (String ";" (name ++ "=")) ts)%string.
Proof.
  intros H. rewrite <- concat_map_join by exact H. apply concat_map_ext.
  intros t. cbn [String.append]. f_equal. now rewrite app_assoc_s.
Qed.

Section RT.
  Variable parse_int64 parse_int32 : string -> option Z.
  Variable parse_float : string -> option float.
  Notation pp := (parse_primitive parse_int64 parse_int32 parse_float).
  Notation parr := (parse_array parse_int64 parse_int32 parse_float).

  (* parseArray yields exactly the leaf values when none of them is nil *)
  Lemma parse_array_leaves ic ts : forall acc vs,
    leaves parse_int64 parse_int32 parse_float ts ic = Some vs ->
    Forall (fun v => v <> PNil) vs ->
    parr ts ic acc = PROk (PA (acc ++ vs)).
  Proof.
    induction ts as [|t ts IH]; intros acc vs Hl Hn; cbn [leaves parse_array] in *.
    - injection Hl as <-. now rewrite app_nil_r.
    - unfold leaf in Hl. destruct (pp t ic) as [v|e] eqn:E; [|discriminate].
      destruct (leaves parse_int64 parse_int32 parse_float ts ic) as [l|] eqn:El.
      2:{ destruct v; try discriminate; destruct (f_is_nan x || f_is_inf x); discriminate. }
      assert (Hv : exists v', vs = v' :: l /\ v' = v).
      { destruct v; try (injection Hl as <-; eauto).
        destruct (f_is_nan x || f_is_inf x); [discriminate|]. injection Hl as <-; eauto. }
      destruct Hv as (v' & -> & ->). inversion Hn as [|? ? Hv Hr]; subst.
      destruct v; try congruence; rewrite (IH _ l eq_refl Hr), <- app_assoc; reflexivity.
  Qed.
End RT.

(* ------------------------------------------------------------------------------------ *)
(* round trips per location                                                               *)
Lemma join_nonempty d t ts : t <> ""%string -> join d (t :: ts) <> ""%string.
Proof. destruct t; [congruence|]. destruct ts; cbn; discriminate. Qed.
Lemma eqb_false_of_ne (s : string) : s <> ""%string -> String.eqb s "" = false.
Proof. intros H. destruct (String.eqb_spec s ""); [contradiction|reflexivity]. Qed.
Lemma leaves_length pi64 pi32 pf ts ic : forall vs, leaves pi64 pi32 pf ts ic = Some vs -> List.length vs = List.length ts.
Proof.
  induction ts as [|t ts IH]; intros vs H; cbn in H.
  - now injection H as <-.
  - destruct (leaf pi64 pi32 pf t ic); [|discriminate].
    destruct (leaves pi64 pi32 pf ts ic) as [l|]; [|discriminate]. injection H as <-. cbn. now rewrite (IH l eq_refl).
Qed.

Definition comma : ascii := ","%char.
Definition dot : ascii := "."%char.
Definition semic : ascii := ";"%char.
Definition space : ascii := " "%char.
Definition pipe : ascii := "|"%char.

(* the first character of the separator the cell uses between array elements *)
Definition arr_sep (l : loc) (style : string) (explode : bool) : ascii :=
  match l with
  | LPath => if String.eqb style "label" && explode then dot
             else if String.eqb style "matrix" && explode then semic else comma
  | LQuery => if String.eqb style "spaceDelimited" then space else if String.eqb style "pipeDelimited" then pipe else comma
  | _ => comma
  end.

Local Opaque join split cut_prefix decode_array_from concat_map.

Section RT2.
  Variable pi64 pi32 : string -> option Z.
  Variable pf : string -> option float.

  Lemma decode_array_ok found parts ic vs :
    leaves pi64 pi32 pf parts ic = Some vs -> Forall (fun v => v <> PNil) vs -> parts <> [] ->
    decode_array_from pi64 pi32 pf found parts (Some ic) = DRes (PA vs) found None.
  Proof.
    Local Transparent decode_array_from.
    intros Hl Hn Hne. unfold decode_array_from.
    rewrite (parse_array_leaves pi64 pi32 pf ic parts [] vs Hl Hn). cbn [app arr_result].
    destruct vs as [|v vs]; [|reflexivity].
    apply leaves_length in Hl. destruct parts; [congruence|discriminate].
  Qed.
  Local Opaque decode_array_from.

  (* path parameters, arrays: every style and both explode settings *)
  Lemma cut_prefix_eq p t s : s = (p ++ t)%string -> cut_prefix s p = Some t.
  Proof. intros ->. apply cut_prefix_app. Qed.

  (* path parameters, arrays: every style and both explode settings *)
  Theorem path_array_roundtrip name style explode s ic ts vs :
    str_in style ["simple"; "label"; "matrix"] = true ->
    shape_of s = ShArr (Some ic) ->
    ts <> [] -> Forall (fun t => t <> ""%string) ts -> clean (arr_sep LPath style explode) ts ->
    leaves pi64 pi32 pf ts ic = Some vs -> Forall (fun v => v <> PNil) vs ->
    path_decode pi64 pi32 pf name style explode s [(name, ser_text LPath style explode name (SArr ts))]
    = DRes (PA vs) true None.
  Proof.
    intros Hst Hsh Hne Hnn Hcl Hl Hv.
    destruct ts as [|t0 ts']; [congruence|]. inversion Hnn as [|? ? Ht0 _]; subst.
    unfold path_decode. rewrite Hsh. cbn [assoc]. rewrite String.eqb_refl.
    cbn [str_in] in Hst. unfold arr_sep in Hcl.
    destruct (String.eqb_spec style "simple") as [->|N1].
    { cbn in Hcl |- *.
      rewrite (eqb_false_of_ne _ (join_nonempty "," t0 ts' Ht0)).
      rewrite cut_prefix_nil. rewrite (split_join ","%char "" (t0 :: ts')) by (congruence || exact Hcl).
      apply decode_array_ok; auto. }
    destruct (String.eqb_spec style "label") as [->|N2].
    { destruct explode; cbn in Hcl |- *;
        (erewrite cut_prefix_eq by reflexivity);
        [rewrite (split_join "."%char "" (t0 :: ts')) by (congruence || exact Hcl)
        |rewrite (split_join ","%char "" (t0 :: ts')) by (congruence || exact Hcl)];
        apply decode_array_ok; auto. }
    destruct (String.eqb_spec style "matrix") as [->|N3]; [|cbn in Hst; rewrite ?Bool.orb_false_r in Hst; discriminate].
    destruct explode; cbn in Hcl |- *.
    - (* ;n=a;n=b *)
      rewrite (matrix_explode_text name (t0 :: ts')) by congruence.
      cbn [String.append]. erewrite cut_prefix_eq by (cbn [String.append]; reflexivity).
      rewrite (split_join ";"%char (name ++ "=") (t0 :: ts')) by (congruence || exact Hcl).
      apply decode_array_ok; auto.
    - rewrite matrix_prefix_text. rewrite cut_prefix_app.
      rewrite (split_join ","%char "" (t0 :: ts')) by (congruence || exact Hcl).
      apply decode_array_ok; auto.
  Qed.

  Theorem header_array_roundtrip name explode s ic ts vs :
    shape_of s = ShArr (Some ic) ->
    ts <> [] -> clean ","%char ts ->
    leaves pi64 pi32 pf ts ic = Some vs -> Forall (fun v => v <> PNil) vs ->
    header_decode pi64 pi32 pf name "simple" explode s [(name, [ser_text LHeader "simple" explode name (SArr ts)])]
    = DRes (PA vs) true None.
  Proof.
    intros Hsh Hne Hcl Hl Hv. unfold header_decode. rewrite Hsh. cbn [assoc]. rewrite String.eqb_refl.
    cbn [String.eqb Ascii.eqb Bool.eqb negb ser_text assoc]. rewrite ?String.eqb_refl.
    rewrite (split_join ","%char "" ts) by assumption. now apply decode_array_ok.
  Qed.

  Theorem cookie_array_roundtrip name s ic ts vs :
    shape_of s = ShArr (Some ic) ->
    ts <> [] -> clean ","%char ts ->
    leaves pi64 pi32 pf ts ic = Some vs -> Forall (fun v => v <> PNil) vs ->
    cookie_decode pi64 pi32 pf name "form" false s [(name, ser_text LCookie "form" false name (SArr ts))]
    = DRes (PA vs) true None.
  Proof.
    intros Hsh Hne Hcl Hl Hv. unfold cookie_decode. rewrite Hsh. cbn [assoc]. rewrite String.eqb_refl.
    cbn [String.eqb Ascii.eqb Bool.eqb negb orb ser_text assoc]. rewrite ?String.eqb_refl.
    rewrite (split_join ","%char "" ts) by assumption. now apply decode_array_ok.
  Qed.

  Theorem query_array_roundtrip name style explode s ic ts vs :
    str_in style ["form"; "spaceDelimited"; "pipeDelimited"] = true ->
    shape_of s = ShArr (Some ic) ->
    ts <> [] -> (explode = false -> clean (arr_sep LQuery style explode) ts) ->
    leaves pi64 pi32 pf ts ic = Some vs -> Forall (fun v => v <> PNil) vs ->
    query_decode pi64 pi32 pf name style explode s (ser_query style explode name (SArr ts))
    = DRes (PA vs) true None.
  Proof.
    intros Hst Hsh Hne Hcl Hl Hv. unfold query_decode, ser_query.
    destruct ts as [|t0 ts']; [congruence|].
    cbn [str_in] in Hst. unfold arr_sep in Hcl.
    destruct explode.
    - cbn [assoc]. rewrite String.eqb_refl, Hsh.
      destruct (String.eqb_spec style "form") as [->|N1]; [now apply decode_array_ok|].
      destruct (String.eqb_spec style "spaceDelimited") as [->|N2]; [now apply decode_array_ok|].
      destruct (String.eqb_spec style "pipeDelimited") as [->|N3]; [now apply decode_array_ok|].
      cbn in Hst. discriminate.
    - specialize (Hcl eq_refl). cbn [assoc]. rewrite String.eqb_refl, Hsh.
      destruct (String.eqb_spec style "form") as [->|N1].
      { cbn in Hcl |- *. rewrite (split_join ","%char "" (t0 :: ts')) by (congruence || exact Hcl). now apply decode_array_ok. }
      destruct (String.eqb_spec style "spaceDelimited") as [->|N2].
      { cbn in Hcl |- *. rewrite (split_join " "%char "" (t0 :: ts')) by (congruence || exact Hcl). now apply decode_array_ok. }
      destruct (String.eqb_spec style "pipeDelimited") as [->|N3].
      { cbn in Hcl |- *. rewrite (split_join "|"%char "" (t0 :: ts')) by (congruence || exact Hcl). now apply decode_array_ok. }
      cbn in Hst. discriminate.
  Qed.

  (* primitives: every allowed cell *)
  Theorem path_prim_roundtrip name style explode s t :
    str_in style ["simple"; "label"; "matrix"] = true ->
    shape_of s = ShPrim -> t <> ""%string ->
    path_decode pi64 pi32 pf name style explode s [(name, ser_text LPath style explode name (SPrim t))]
    = of_pres true (parse_primitive pi64 pi32 pf t (core_of s)).
  Proof.
    intros Hst Hsh Ht. unfold path_decode. rewrite Hsh. cbn [assoc]. rewrite String.eqb_refl.
    cbn [str_in] in Hst.
    destruct (String.eqb_spec style "simple") as [->|N1].
    { cbn. rewrite (eqb_false_of_ne _ Ht), cut_prefix_nil. reflexivity. }
    destruct (String.eqb_spec style "label") as [->|N2].
    { cbn. erewrite cut_prefix_eq by reflexivity. reflexivity. }
    destruct (String.eqb_spec style "matrix") as [->|N3]; [|cbn in Hst; rewrite ?Bool.orb_false_r in Hst; discriminate].
    cbn. rewrite matrix_prefix_text, cut_prefix_app. reflexivity.
  Qed.

  Theorem query_prim_roundtrip name explode s t :
    shape_of s = ShPrim ->
    query_decode pi64 pi32 pf name "form" explode s (ser_query "form" explode name (SPrim t))
    = of_pres true (parse_primitive pi64 pi32 pf t (core_of s)).
  Proof. intros Hsh. unfold query_decode, ser_query. cbn [assoc]. rewrite ?String.eqb_refl, Hsh. reflexivity. Qed.

  Theorem header_prim_roundtrip name explode s t :
    shape_of s = ShPrim ->
    header_decode pi64 pi32 pf name "simple" explode s [(name, [ser_text LHeader "simple" explode name (SPrim t)])]
    = of_pres true (parse_primitive pi64 pi32 pf t (core_of s)).
  Proof. intros Hsh. unfold header_decode. rewrite Hsh. cbn [assoc]. rewrite ?String.eqb_refl. reflexivity. Qed.

  Theorem cookie_prim_roundtrip name explode s t :
    shape_of s = ShPrim ->
    cookie_decode pi64 pi32 pf name "form" explode s [(name, ser_text LCookie "form" explode name (SPrim t))]
    = of_pres true (parse_primitive pi64 pi32 pf t (core_of s)).
  Proof. intros Hsh. unfold cookie_decode. rewrite Hsh. cbn [assoc]. rewrite ?String.eqb_refl. destruct explode; reflexivity. Qed.
End RT2.

(* ------------------------------------------------------------------------------------ *)
(* the statements over decode_param / ser, for every allowed cell                          *)
Section ALLCELLS.
  Variable pi64 pi32 : string -> option Z.
  Variable pf : string -> option float.

  (* the style table defines a serialisation of this shape in this cell *)
  Definition defined_cell (p : pdef) (v : sval) : bool :=
    match pd_in p, v with
    | LQuery, SPrim _ | LQuery, SObj _ => String.eqb (eff_style p) "form"
    | LQuery, SArr _ => str_in (eff_style p) ["form"; "spaceDelimited"; "pipeDelimited"]
    | LCookie, SArr _ | LCookie, SObj _ => negb (eff_explode p)
    | _, _ => true
    end.

  Theorem array_roundtrip p ts ic vs :
    allowed_cell (pd_in p) (eff_style p) (eff_explode p) = true ->
    defined_cell p (SArr ts) = true ->
    shape_of (pd_schema p) = ShArr (Some ic) ->
    ts <> [] -> Forall (fun t => t <> ""%string) ts ->
    (pd_in p = LQuery -> eff_explode p = true \/ clean (arr_sep LQuery (eff_style p) (eff_explode p)) ts) ->
    (pd_in p <> LQuery -> clean (arr_sep (pd_in p) (eff_style p) (eff_explode p)) ts) ->
    leaves pi64 pi32 pf ts ic = Some vs -> Forall (fun v => v <> PNil) vs ->
    decode_param pi64 pi32 pf p (ser p (SArr ts)) = DRes (PA vs) true None.
  Proof.
    intros Hall Hdef Hsh Hne Hnn Hq Hnq Hl Hv. unfold decode_param, ser, allowed_cell, defined_cell in *.
    destruct (pd_in p) eqn:Hin; cbn [f_path f_query f_header f_cookie].
    - apply (path_array_roundtrip pi64 pi32 pf _ _ _ _ ic); auto. apply Hnq. discriminate.
    - apply (query_array_roundtrip pi64 pi32 pf _ _ _ _ ic); auto.
      intros Hex. destruct (Hq eq_refl) as [H|H]; [congruence|exact H].
    - apply String.eqb_eq in Hall. rewrite Hall in *.
      apply (header_array_roundtrip pi64 pi32 pf _ _ _ ic); auto. specialize (Hnq ltac:(discriminate)). exact Hnq.
    - apply String.eqb_eq in Hall. rewrite Hall in *. apply Bool.negb_true_iff in Hdef. rewrite Hdef in *.
      apply (cookie_array_roundtrip pi64 pi32 pf _ _ ic); auto. specialize (Hnq ltac:(discriminate)). exact Hnq.
  Qed.

  Theorem prim_roundtrip p t :
    allowed_cell (pd_in p) (eff_style p) (eff_explode p) = true ->
    defined_cell p (SPrim t) = true ->
    shape_of (pd_schema p) = ShPrim -> t <> ""%string ->
    decode_param pi64 pi32 pf p (ser p (SPrim t))
    = of_pres true (parse_primitive pi64 pi32 pf t (core_of (pd_schema p))).
  Proof.
    intros Hall Hdef Hsh Ht. unfold decode_param, ser, allowed_cell, defined_cell in *.
    destruct (pd_in p) eqn:Hin; cbn [f_path f_query f_header f_cookie].
    - now apply path_prim_roundtrip.
    - apply String.eqb_eq in Hdef. rewrite Hdef. now apply query_prim_roundtrip.
    - apply String.eqb_eq in Hall. rewrite Hall. now apply header_prim_roundtrip.
    - apply String.eqb_eq in Hall. rewrite Hall. now apply cookie_prim_roundtrip.
  Qed.

  (* presence logic of ValidateParameter on top of a decode result *)
  Theorem absent_required rc rm fo multi p f :
    decode_param pi64 pi32 pf p f = DRes PNil false None -> pd_required p = true ->
    validate_param pi64 pi32 pf rc rm fo multi p f = VMissing.
  Proof. intros H R. unfold validate_param. now rewrite H, R. Qed.
  Theorem absent_optional rc rm fo multi p f :
    decode_param pi64 pi32 pf p f = DRes PNil false None -> pd_required p = false ->
    validate_param pi64 pi32 pf rc rm fo multi p f = VOk.
  Proof. intros H R. unfold validate_param. rewrite H, R. cbn. now rewrite Bool.andb_false_r. Qed.
  Theorem undecodable_rejected rc rm fo multi p f v found e :
    decode_param pi64 pi32 pf p f = DRes v found (Some e) ->
    validate_param pi64 pi32 pf rc rm fo multi p f = VDecode e.
  Proof. intros H. unfold validate_param. now rewrite H. Qed.
End ALLCELLS.
