From KV Require Import Model.Base Model.Json Model.Schema Model.Lookup Model.Response Model.Body
     Spec.SchemaSpec Spec.SchemaGuards Spec.SchemaGuardsRW Spec.ResponseSpec Spec.BodySpec
     Proofs.SchemaProofs Proofs.SchemaMain Proofs.C08Proofs.
Local Open Scope list_scope.

Section P.
  Variable rc : string -> bool.
  Variable rm : string -> string -> bool.
  Variable fo : string -> string -> json -> option bool.

  Definition is_bok (r : bres) : bool := match r with BOk => true | _ => false end.
  Definition is_bpanic (r : bres) : bool := match r with BPanic _ => true | _ => false end.

  Theorem body_iff o required content ct raw parsed :
    g_body rc rm fo o content ct raw parsed = true ->
    is_bpanic (validate_body rc rm fo o required content ct raw parsed) = false /\
    is_bok (validate_body rc rm fo o required content ct raw parsed)
    = body_spec rc rm fo o required content ct raw parsed.
  Proof.
    unfold g_body, validate_body, body_spec. intros G.
    destruct (String.eqb raw ""); [destruct required; split; reflexivity|].
    destruct content as [|c0 cs]; [split; reflexivity|]. cbn [is_nil orb].
    rewrite content_eq.
    destruct (content_spec (c0 :: cs) ct) as [m|]; [|split; reflexivity].
    destruct (m_schema m) as [s|]; [|split; reflexivity].
    destruct (decode_body ct raw parsed) as [v|]; [|split; reflexivity].
    change (md_req o) with (md_of (req_settings o)).
    destruct (visit_spec rc rm fo (req_settings o) s v G) as (_ & Hp & Ha).
    destruct (visit rc rm fo (req_settings o) s v) eqn:E; try rewrite E in Ha; try rewrite E in Hav; cbn in *.
    - split; [reflexivity|exact Ha].
    - split; [reflexivity|exact Ha].
    - exfalso. now apply (Hp w).
  Qed.
End P.
