From KV Require Import Model.Base Model.Json Model.DocValidate Spec.DocSpec.
Local Open Scope list_scope.

(* ---- induction over the nested document tree ---- *)
Section IND.
  Variable P : dnode -> Prop.
  Hypothesis H : forall k r a ks, Forall (fun x => P (snd x)) ks -> P (DN k r a ks).
  Fixpoint dnode_ind' (n : dnode) : P n :=
    match n with
    | DN k r a ks =>
        H k r a ks ((fix go (l : list (string * string * dnode)) : Forall (fun x => P (snd x)) l :=
                       match l with
                       | [] => Forall_nil _
                       | x :: l' => Forall_cons x (dnode_ind' (snd x)) (go l')
                       end) ks)
    end.
End IND.

(* ---- the traversal, as standalone folds ---- *)
Fixpoint go_kids (val : exmode -> dnode -> bool * exmode) (lbl0 : string) (l : list (string * string * dnode)) (acc : bool * exmode) : bool * exmode :=
  match l with
  | [] => acc
  | (lbl, _, c) :: l' =>
      if String.eqb lbl lbl0 then
        let r := val (snd acc) c in go_kids val lbl0 l' (fst acc && fst r, snd r)
      else go_kids val lbl0 l' acc
  end.
Fixpoint go_edges (val : vmode -> exmode -> dnode -> bool * exmode) (ks : list (string * string * dnode)) (es : list (string * vmode)) (acc : bool * exmode) : bool * exmode :=
  match es with
  | [] => acc
  | e :: es' => go_edges val ks es' (go_kids (val (snd e)) (fst e) ks acc)
  end.

Lemma validate_eq o m st k r a ks :
  validate o m st (DN k r a ks) =
  if negb (resolved r) then (false, st)
  else go_edges (validate o) ks (edges o (DN k r a ks))
         (ref_ok o m r && local o (enter o k st) (DN k r a ks), enter o k st).
Proof.
  cbn [validate]. destruct (negb (resolved r)); [reflexivity|].
  generalize (ref_ok o m r && local o (enter o k st) (DN k r a ks), enter o k st).
  induction (edges o (DN k r a ks)) as [|e es IH]; intros acc; [reflexivity|].
  cbn [go_edges]. rewrite <- IH. f_equal.
  clear IH. revert acc. induction ks as [|[[lbl key] c] l IHl]; intros acc; [reflexivity|].
  cbn [go_kids]. destruct (String.eqb lbl (fst e)); apply IHl.
Qed.

Lemma go_kids_fst (val : exmode -> dnode -> bool * exmode) (C : dnode -> bool) lbl0 : forall l acc,
  Forall (fun x => fst (fst x) = lbl0 -> forall s, fst (val s (snd x)) = C (snd x)) l ->
  fst (go_kids val lbl0 l acc)
  = fst acc && forallb (fun x => if String.eqb (fst (fst x)) lbl0 then C (snd x) else true) l.
Proof.
  induction l as [|[[lbl key] c] l IH]; intros acc HF; cbn [go_kids forallb fst snd].
  - now rewrite Bool.andb_true_r.
  - inversion HF as [|x l0 Hx HF']; subst. cbn [fst snd] in Hx.
    destruct (String.eqb_spec lbl lbl0) as [->|Hne].
    + rewrite IH by exact HF'. cbn [fst]. rewrite Hx by reflexivity. now rewrite Bool.andb_assoc.
    + rewrite IH by exact HF'. reflexivity.
Qed.

Lemma go_edges_fst (val : vmode -> exmode -> dnode -> bool * exmode) (C : dnode -> bool) ks : forall es acc,
  Forall (fun e => Forall (fun x => fst (fst x) = fst e -> forall s, fst (val (snd e) s (snd x)) = C (snd x)) ks) es ->
  fst (go_edges val ks es acc)
  = fst acc && forallb (fun e => forallb (fun x => if String.eqb (fst (fst x)) (fst e) then C (snd x) else true) ks) es.
Proof.
  induction es as [|e es IH]; intros acc HF; cbn [go_edges forallb].
  - now rewrite Bool.andb_true_r.
  - inversion HF as [|e0 es0 He HF']; subst.
    rewrite IH by exact HF'. rewrite (go_kids_fst _ C) by exact He. now rewrite Bool.andb_assoc.
Qed.

(* swapping the two loops: every child whose label is among the visited edges *)
Lemma loops_swap (C : dnode -> bool) (ks : list (string * string * dnode)) (es : list (string * vmode)) :
  forallb (fun e => forallb (fun x => if String.eqb (fst (fst x)) (fst e) then C (snd x) else true) ks) es
  = forallb (fun x => if str_in (fst (fst x)) (map fst es) then C (snd x) else true) ks.
Proof.
  induction es as [|e es IH]; cbn [forallb map str_in].
  - induction ks as [|x ks IHk]; [reflexivity|]. cbn [forallb]. now rewrite <- IHk.
  - rewrite IH. clear IH. induction ks as [|x ks IHk]; [reflexivity|]. cbn [forallb].
    rewrite <- IHk. destruct (String.eqb (fst (fst x)) (fst e)); cbn [orb];
      destruct (str_in (fst (fst x)) (map fst es)); cbn;
      repeat rewrite ?Bool.andb_true_r, ?Bool.andb_true_l; try reflexivity.
    all: try (destruct (C (snd x)); cbn; try reflexivity;
              repeat rewrite ?Bool.andb_true_r, ?Bool.andb_false_r; reflexivity).
    all: rewrite !Bool.andb_assoc; f_equal; try apply Bool.andb_comm.
    all: destruct (C (snd x)); cbn; rewrite ?Bool.andb_false_r; reflexivity.
Qed.

Lemma fix_forallb (f : string -> dnode -> bool) (l : list (string * string * dnode)) :
  (fix go (l : list (string * string * dnode)) : bool :=
     match l with [] => true | (lbl, _, c) :: l' => f lbl c && go l' end) l
  = forallb (fun x => f (fst (fst x)) (snd x)) l.
Proof. induction l as [|[[lbl key] c] l IH]; [reflexivity|]. cbn [forallb fst snd]. now rewrite <- IH. Qed.

Lemma conforms_eq o pos k r a ks :
  conforms o pos (DN k r a ks) =
  ref_spec o r && local_spec o (pos_enter k pos) (DN k r a ks)
  && forallb (fun x => if required k (fst (fst x)) then conforms o (pos_enter k pos) (snd x) else true) ks.
Proof.
  cbn [conforms]. f_equal.
  apply (fix_forallb (fun lbl c => if required k lbl then conforms o (pos_enter k pos) c else true)).
Qed.

Lemma g_all_eq o m k r a ks :
  g_all o m (DN k r a ks) =
  g_ref o m r && g_local o (DN k r a ks) && g_edges o (DN k r a ks)
  && forallb (fun x => if required k (fst (fst x)) then g_all o (mode_of o (DN k r a ks) (fst (fst x))) (snd x) else true) ks.
Proof.
  cbn [g_all]. f_equal.
  apply (fix_forallb (fun lbl c => if required k lbl then g_all o (mode_of o (DN k r a ks) lbl) c else true)).
Qed.

Lemma forallb_ext_in {A} (f g : A -> bool) (l : list A) :
  (forall x, In x l -> f x = g x) -> forallb f l = forallb g l.
Proof.
  induction l as [|x l IH]; intros H; [reflexivity|]. cbn [forallb].
  rewrite (H x (or_introl eq_refl)), IH; [reflexivity|]. intros y Hy. apply H. now right.
Qed.

Lemma g_local_inst o n st pos : g_local o n = true -> local o st n = local_spec o pos n.
Proof.
  unfold g_local, modes. intros H. cbn [forallb] in H. rewrite !Bool.andb_true_iff in H.
  destruct H as [[H00 [H01 [H02 _]]] [[H10 [H11 [H12 _]]] [[H20 [H21 [H22 _]]] _]]].
  destruct st, pos; now apply Bool.eqb_prop.
Qed.

Lemma assoc_in_map {A} k (l : list (string * A)) : str_in k (map fst l) = match assoc k l with Some _ => true | None => false end.
Proof. induction l as [|[k' v] l IH]; [reflexivity|]. cbn. destruct (String.eqb k k'); [reflexivity|exact IH]. Qed.

Lemma str_in_In k l : str_in k l = true <-> In k l.
Proof.
  induction l as [|x l IH]; cbn; [split; [discriminate|tauto]|].
  destruct (String.eqb_spec k x) as [->|Hn]; cbn; [tauto|]. rewrite IH. intuition congruence.
Qed.

(* an edge label occurs once in a descent table, so the mode under which a child is visited is the
   mode the table gives for its label *)
Lemma assoc_nodup {A} (l : list (string * A)) e : nodup_l (map fst l) = true -> In e l -> assoc (fst e) l = Some (snd e).
Proof.
  induction l as [|[k v] l IH]; intros Hnd Hin; [destruct Hin|]. cbn in Hnd |- *.
  apply andb_prop in Hnd as [Hfresh Hnd]. destruct Hin as [<-|Hin]; cbn [fst snd].
  - now rewrite String.eqb_refl.
  - destruct (String.eqb_spec (fst e) k) as [E|_]; [|now apply IH].
    exfalso. apply Bool.negb_true_iff in Hfresh. assert (str_in k (map fst l) = true); [|congruence].
    apply str_in_In. rewrite <- E. now apply in_map.
Qed.

Lemma edges_nodup o n : nodup_l (map fst (edges o n)) = true.
Proof.
  destruct n as [k r a ks]. unfold edges.
  repeat match goal with |- context [if is_k k ?s then _ else _] => destruct (is_k k s); [try reflexivity|] end;
    try reflexivity.
  all: match goal with |- context [if ?c then [_] else []] => destruct c end; reflexivity.
Qed.

(* ---- the main lemma: under the guards, the traversal decides conformance ---- *)
Theorem validate_conforms o : forall n m st pos,
  g_all o m n = true -> fst (validate o m st n) = conforms o pos n.
Proof.
  induction n as [k r a ks IH] using dnode_ind'. intros m st pos Hg.
  rewrite g_all_eq in Hg. rewrite !Bool.andb_true_iff in Hg. destruct Hg as [[[Hr Hl] He] Hk].
  rewrite validate_eq, conforms_eq.
  apply Bool.eqb_prop in Hr.
  destruct (resolved r) eqn:Hres; cbn [negb].
  2:{ destruct r as [|res sib]; [discriminate|]. destruct res; [discriminate|]. reflexivity. }
  set (n := DN k r a ks) in *. set (st1 := enter o k st). set (pos1 := pos_enter k pos).
  unfold g_edges in He. cbn [nd_kids nd_kind] in He. rewrite forallb_forall in He.
  rewrite (go_edges_fst (validate o) (conforms o pos1)).
  - cbn [fst]. rewrite Hr, (g_local_inst o n st1 pos1 Hl). f_equal.
    rewrite loops_swap. apply forallb_ext_in.
    intros [[lbl key] c] Hin. cbn [fst snd]. specialize (He _ Hin). cbn in He. apply Bool.eqb_prop in He.
    unfold visited in He. now rewrite He.
  - (* every visited child: its verdict is its conformance, whatever the state *)
    rewrite Forall_forall. intros e Hine. rewrite Forall_forall. intros [[lbl key] c] Hin Hlbl s. cbn [fst snd] in *.
    subst lbl. rewrite Forall_forall in IH. rewrite forallb_forall in Hk.
    specialize (Hk _ Hin). cbn [fst snd] in Hk.
    specialize (He _ Hin). change (Bool.eqb (required k (fst e)) (visited o n (fst e)) = true) in He.
    apply Bool.eqb_prop in He.
    assert (Hv : visited o n (fst e) = true).
    { unfold visited. apply str_in_In. now apply in_map. }
    rewrite Hv in He. rewrite He in Hk.
    unfold mode_of in Hk. rewrite (assoc_nodup _ e (edges_nodup o n) Hine) in Hk.
    exact (IH _ Hin (snd e) s pos1 Hk).
Qed.

(* ---- a violation anywhere along the grammar makes the document non-conforming ---- *)
Inductive reach (o : vopts) : exmode -> dnode -> exmode -> dnode -> Prop :=
| reach_here pos n : reach o pos n pos n
| reach_kid pos k r a ks lbl key c pos' n' :
    In (lbl, key, c) ks -> required k lbl = true ->
    reach o (pos_enter k pos) c pos' n' -> reach o pos (DN k r a ks) pos' n'.

Theorem conforms_everywhere o pos n pos' n' :
  reach o pos n pos' n' -> conforms o pos n = true ->
  ref_spec o (nd_ref n') = true /\ local_spec o (pos_enter (nd_kind n') pos') n' = true.
Proof.
  induction 1 as [pos n|pos k r a ks lbl key c pos' n' Hin Hreq Hreach IH]; intros Hc.
  - destruct n as [k r a ks]. rewrite conforms_eq in Hc. rewrite !Bool.andb_true_iff in Hc.
    cbn [nd_ref nd_kind]. tauto.
  - apply IH. rewrite conforms_eq in Hc. rewrite !Bool.andb_true_iff in Hc. destruct Hc as [_ Hk].
    rewrite forallb_forall in Hk. specialize (Hk _ Hin). cbn [fst snd] in Hk. now rewrite Hreq in Hk.
Qed.

(* ---- rule-level facts ---- *)
(* the switch in Parameter.Validate is the specification's style table *)
Lemma sm_supported_table inn style explode :
  str_in inn ["path";"query";"header";"cookie"] = true ->
  sm_supported inn style explode = style_allowed inn style explode.
Proof.
  intros Hin. unfold sm_supported, style_allowed, sm_table. cbn [existsb str_in] in *.
  rewrite ?(String.eqb_sym _ style).
  repeat match goal with |- context [String.eqb style ?lit] =>
           let b := fresh "b" in set (b := String.eqb style lit) in *; clearbody b end.
  destruct (String.eqb_spec inn "path") as [->|]; [vm_compute; repeat match goal with x : bool |- _ => destruct x end; reflexivity|].
  destruct (String.eqb_spec inn "query") as [->|]; [vm_compute; repeat match goal with x : bool |- _ => destruct x end; reflexivity|].
  destruct (String.eqb_spec inn "header") as [->|]; [vm_compute; repeat match goal with x : bool |- _ => destruct x end; reflexivity|].
  destruct (String.eqb_spec inn "cookie") as [->|]; [vm_compute; repeat match goal with x : bool |- _ => destruct x end; reflexivity|].
  cbn in Hin. discriminate.
Qed.

(* when the counts differ the implementation's path-parameter check is the set comparison *)
Lemma path_params_when_counts_differ path item :
  forallb (fun kc => negb (Nat.eqb (List.length (path_param_names (nd_kids (snd kc)) ++ path_param_names (nd_kids item)))
                                   (List.length (tpl_vars path))))
          (kids_of "operations" (nd_kids item)) = true ->
  path_params_ok path item = path_params_spec path item.
Proof.
  unfold path_params_ok, path_params_spec. intros H. rewrite forallb_forall in H.
  apply forallb_ext_in. intros kc Hin. specialize (H _ Hin). apply Bool.negb_true_iff in H. rewrite H. reflexivity.
Qed.

