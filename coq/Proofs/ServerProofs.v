From KV Require Import Model.Base Model.Lookup Model.ParamCodec Model.Router Model.Server Proofs.C09Proofs.
Local Open Scope list_scope.

(* ---- the specification: the URL text a server pattern stands for ---- *)
(* [fills pat names vals s]: s is pat with its variables (named names) replaced by vals; a final
   lone "/" of the pattern is optional *)
Inductive fills : string -> list string -> list string -> string -> Prop :=
| F_end : fills "" [] [] ""
| F_slash : fills "/" [] [] ""
| F_lit c pat names vals s :
    Ascii.eqb c "{"%char = false -> (Ascii.eqb c "/"%char && String.eqb pat "") = false ->
    fills pat names vals s -> fills (String c pat) names vals (String c s)
| F_var name pat names v vals s :
    index_byte "}"%char name = None -> fills pat names vals s ->
    fills (String "{"%char (name ++ String "}"%char pat)) (name :: names) (v :: vals) (v ++ s).

Definition slashify (r : string) : string := if String.eqb r "" then "/" else r.

(* ---- string lemmas ---- *)

Lemma index_byte_split c : forall s i, index_byte c s = Some i ->
  s = (take i s ++ String c (drop (S i) s))%string /\ index_byte c (take i s) = None.
Proof.
  induction s as [|d s IH]; simpl; intros i H; [discriminate|].
  destruct (Ascii.eqb d c) eqn:E.
  - inversion H; subst. apply Ascii.eqb_eq in E; subst. simpl. split; reflexivity.
  - destruct (index_byte c s) as [j|] eqn:Ej; simpl in H; [|discriminate]. inversion H; subst.
    destruct (IH j eq_refl) as [H1 H2]. simpl. rewrite E, H2. split; [|reflexivity]. f_equal. exact H1.
Qed.

Lemma drop_length_le k : forall s, String.length (drop k s) <= String.length s.
Proof. induction k as [|k IH]; intros [|c s]; simpl; try lia. specialize (IH s). lia. Qed.

Lemma index_byte_lt c : forall s i, index_byte c s = Some i -> i < String.length s.
Proof.
  induction s as [|d s IH]; simpl; intros i H; [discriminate|].
  destruct (Ascii.eqb d c); [inversion H; lia|].
  destruct (index_byte c s) as [j|]; simpl in H; [|discriminate]. inversion H; subst. specialize (IH j eq_refl). lia.
Qed.

Lemma drop_S_lt : forall k s, k < String.length s -> String.length (drop (S k) s) < String.length s.
Proof.
  intros k s H. destruct s as [|c s]; [simpl in H; lia|]. simpl. pose proof (drop_length_le k s). lia.
Qed.

Lemma index_byte_app_none c a : forall b, index_byte c a = None ->
  index_byte c (a ++ b) = option_map (fun i => String.length a + i) (index_byte c b).
Proof.
  induction a as [|d a IH]; simpl; intros b H.
  - destruct (index_byte c b); reflexivity.
  - destruct (Ascii.eqb d c); [discriminate|].
    destruct (index_byte c a) eqn:E; simpl in H; [discriminate|].
    rewrite (IH b eq_refl). destruct (index_byte c b); reflexivity.
Qed.


(* ---- the loop never runs out of fuel ---- *)
Theorem match_raw_fuel : forall fuel pat inp ps, String.length pat < fuel -> match_raw fuel pat inp ps <> MFuel.
Proof.
  induction fuel as [|f IH]; intros pat inp ps H; [lia|].
  simpl. destruct pat as [|c pr].
  - unfold finish. destruct (if String.eqb inp "" then "/" else inp); [discriminate|]. destruct (Ascii.eqb _ _); discriminate.
  - destruct (Ascii.eqb c "/"%char && String.eqb pr "").
    { unfold finish. destruct (if String.eqb inp "" then "/" else inp); [discriminate|]. destruct (Ascii.eqb _ _); discriminate. }
    destruct (Ascii.eqb c "{"%char).
    + destruct (index_byte "}"%char (String c pr)) as [i|] eqn:Ei; [|discriminate].
      apply IH. apply index_byte_lt in Ei. pose proof (drop_S_lt i (String c pr) Ei). simpl in *. lia.
    + destruct inp as [|d ir]; [discriminate|]. destruct (Ascii.eqb d c); [|discriminate]. apply IH. simpl in H. lia.
Qed.

Lemma prefix_slash s : String.prefix "/" s = true -> exists r, s = String "/"%char r.
Proof.
  destruct s as [|c r]; [discriminate|]. cbn [String.prefix].
  destruct (ascii_dec "/"%char c) as [<-|]; [eauto|discriminate].
Qed.
Lemma prefix_slash_intro r : String.prefix "/" (String "/"%char r) = true.
Proof. cbn [String.prefix]. destruct (ascii_dec "/"%char "/"%char) as [_|n]; [destruct r; reflexivity|now elim n]. Qed.

Lemma finish_yes inp ps ps' rest : finish inp ps = MYes ps' rest ->
  ps' = ps /\ rest = slashify inp /\ String.prefix "/" rest = true.
Proof.
  unfold finish, slashify. destruct (String.eqb inp "") eqn:E.
  - simpl. intros H; inversion H; subst. repeat split; reflexivity.
  - destruct inp as [|c r]; [discriminate|]. destruct (Ascii.eqb c "/"%char) eqn:Ec; [|discriminate].
    intros H; inversion H; subst. apply Ascii.eqb_eq in Ec; subst. repeat split. apply prefix_slash_intro.
Qed.

(* ---- soundness: a match decomposes the URL into the filled pattern and the remainder ---- *)
Theorem match_raw_sound : forall fuel pat inp ps ps' rest,
  match_raw fuel pat inp ps = MYes ps' rest ->
  exists names vals consumed rest0,
    ps' = ps ++ vals /\ inp = (consumed ++ rest0)%string /\ rest = slashify rest0 /\
    String.prefix "/" rest = true /\ fills pat names vals consumed.
Proof.
  induction fuel as [|f IH]; intros pat inp ps ps' rest H; [discriminate|].
  simpl in H. destruct pat as [|c pr].
  - apply finish_yes in H. destruct H as (-> & -> & Hp).
    exists [], [], "", inp. rewrite app_nil_r. repeat split; auto. constructor.
  - destruct (Ascii.eqb c "/"%char && String.eqb pr "") eqn:Es.
    { apply finish_yes in H. destruct H as (-> & -> & Hp).
      apply andb_true_iff in Es. destruct Es as [Ec Ep]. apply Ascii.eqb_eq in Ec. apply String.eqb_eq in Ep. subst.
      exists [], [], "", inp. rewrite app_nil_r. repeat split; auto. constructor. }
    destruct (Ascii.eqb c "{"%char) eqn:Eb.
    + apply Ascii.eqb_eq in Eb; subst c.
      destruct (index_byte "}"%char (String "{"%char pr)) as [i|] eqn:Ei; [|discriminate].
      simpl in Ei. destruct (index_byte "}"%char pr) as [j|] eqn:Ej; simpl in Ei; [|discriminate].
      inversion Ei; subst i. clear Ei.
      destruct (index_byte_split _ _ _ Ej) as [Hpr Hname].
      set (k := match match drop (S (S j)) (String "{"%char pr) with String d _ => index_byte d inp | EmptyString => None end, index_byte "/"%char inp with
                | None, None => String.length inp | None, Some s => s | Some p, None => p | Some p, Some s => Nat.min p s end) in *.
      apply IH in H. destruct H as (names & vals & consumed & rest0 & H1 & H2 & H3 & H4 & H5).
      exists (take j pr :: names), (take k inp :: vals), (take k inp ++ consumed)%string, rest0.
      repeat split; auto.
      * rewrite H1. rewrite <- app_assoc. reflexivity.
      * rewrite app_str_assoc. rewrite <- H2. apply take_drop.
      * rewrite Hpr at 1. apply F_var; assumption.
    + destruct inp as [|d ir]; [discriminate|]. destruct (Ascii.eqb d c) eqn:Ed; [|discriminate].
      apply Ascii.eqb_eq in Ed; subst d.
      apply IH in H. destruct H as (names & vals & consumed & rest0 & H1 & H2 & H3 & H4 & H5).
      exists names, vals, (String c consumed), rest0. repeat split; auto.
      * simpl. now rewrite <- H2.
      * apply F_lit; assumption.
Qed.

(* ---- completeness ---- *)
(* the values the matcher finds again: no '/', not the character that follows the variable in the
   pattern, and that character is not the start of another variable *)
Fixpoint no_byte (c : ascii) (s : string) : bool :=
  match s with EmptyString => true | String d r => negb (Ascii.eqb d c) && no_byte c r end.
Lemma no_byte_index c s : no_byte c s = true -> index_byte c s = None.
Proof.
  induction s as [|d s IH]; simpl; [reflexivity|]. intros H. apply andb_true_iff in H. destruct H as [H1 H2].
  apply negb_true_iff in H1. rewrite H1. now rewrite (IH H2).
Qed.

Inductive findable : string -> list string -> Prop :=
| FD_end : findable "" []
| FD_slash : findable "/" []
| FD_lit c pat vals : Ascii.eqb c "{"%char = false -> (Ascii.eqb c "/"%char && String.eqb pat "") = false ->
    findable pat vals -> findable (String c pat) vals
| FD_var name pat v vals :
    index_byte "}"%char name = None ->
    no_byte "/"%char v = true ->
    match pat with String d _ => no_byte d v = true /\ Ascii.eqb d "{"%char = false | EmptyString => True end ->
    findable pat vals -> findable (String "{"%char (name ++ String "}"%char pat)) (v :: vals).

Lemma finish_slashify rest0 ps : (rest0 = "" \/ String.prefix "/" rest0 = true) -> finish rest0 ps = MYes ps (slashify rest0).
Proof.
  intros [->|H]; [reflexivity|]. apply prefix_slash in H. destruct H as [r ->]. reflexivity.
Qed.

Lemma index_first_after v d tail : no_byte d v = true -> index_byte d (v ++ String d tail) = Some (String.length v).
Proof.
  intros H. rewrite index_byte_app_none by now apply no_byte_index. simpl. rewrite Ascii.eqb_refl. simpl. f_equal. lia.
Qed.

Lemma var_decomp_unique : forall n1 n2 p1 p2,
  index_byte "}"%char n1 = None -> index_byte "}"%char n2 = None ->
  (n1 ++ String "}"%char p1)%string = (n2 ++ String "}"%char p2)%string -> n1 = n2 /\ p1 = p2.
Proof.
  induction n1 as [|a n1 IH]; intros [|b n2] p1 p2 H1 H2 E; simpl in *.
  - inversion E; auto.
  - inversion E; subst. rewrite Ascii.eqb_refl in H2. discriminate.
  - inversion E; subst. rewrite Ascii.eqb_refl in H1. discriminate.
  - inversion E; subst. destruct (Ascii.eqb b "}"%char); [discriminate|].
    destruct (index_byte "}"%char n1) eqn:E1; [discriminate|]. destruct (index_byte "}"%char n2) eqn:E2; [discriminate|].
    destruct (IH n2 p1 p2 eq_refl E2 H3) as [-> ->]. auto.
Qed.


Lemma drop_S_cons k c s : drop (S k) (String c s) = drop k s.
Proof. reflexivity. Qed.

(* the step of the loop at a variable, given where the value ends *)
Lemma match_raw_var_step f name pat inp ps :
  index_byte "}"%char name = None ->
  match_raw (S f) (String "{"%char (name ++ String "}"%char pat)) inp ps =
  let np := match pat with String d _ => index_byte d inp | EmptyString => None end in
  let ns := index_byte "/"%char inp in
  let k := match np, ns with
           | None, None => String.length inp | None, Some s => s | Some p, None => p | Some p, Some s => Nat.min p s end in
  match_raw f pat (drop k inp) (ps ++ [take k inp]).
Proof.
  intros Hn. cbn [match_raw].
  replace (Ascii.eqb "{"%char "/"%char) with false by reflexivity. cbn [andb].
  replace (Ascii.eqb "{"%char "{"%char) with true by reflexivity.
  assert (Hi : index_byte "}"%char (String "{"%char (name ++ String "}"%char pat)) = Some (S (String.length name))).
  { cbn [index_byte]. replace (Ascii.eqb "{"%char "}"%char) with false by reflexivity.
    rewrite index_byte_app_none by assumption. cbn [index_byte]. rewrite Ascii.eqb_refl. simpl. f_equal. f_equal. lia. }
  rewrite Hi.
  assert (Hdrop : drop (S (S (String.length name))) (String "{"%char (name ++ String "}"%char pat)) = pat).
  { rewrite drop_S_cons. change (String "}"%char pat) with (String "}"%char EmptyString ++ pat)%string.
    rewrite <- app_str_assoc.
    replace (S (String.length name)) with (String.length (name ++ String "}"%char EmptyString)).
    - apply drop_app_length.
    - rewrite length_app_str. simpl. lia. }
  rewrite Hdrop. reflexivity.
Qed.

(* where the value of a variable ends when it meets the guard *)
Lemma cut_at_value pat names vals s v rest0 :
  fills pat names vals s -> no_byte "/"%char v = true ->
  match pat with String d _ => no_byte d v = true /\ Ascii.eqb d "{"%char = false | EmptyString => True end ->
  (rest0 = "" \/ String.prefix "/" rest0 = true) ->
  match match pat with String d _ => index_byte d (v ++ s ++ rest0) | EmptyString => None end,
        index_byte "/"%char (v ++ s ++ rest0) with
  | None, None => String.length (v ++ s ++ rest0) | None, Some s0 => s0 | Some p, None => p
  | Some p, Some s0 => Nat.min p s0 end = String.length v.
Proof.
  intros Hf Hv Hd Hr.
  assert (Hslash : index_byte "/"%char (v ++ s ++ rest0) = option_map (fun i => String.length v + i) (index_byte "/"%char (s ++ rest0)))
    by (apply index_byte_app_none; now apply no_byte_index).
  rewrite Hslash.
  destruct pat as [|d pr].
  - inversion Hf; subst. cbn [append]. destruct Hr as [->|Hr].
    + simpl. rewrite app_str_nil_r. reflexivity.
    + apply prefix_slash in Hr. destruct Hr as [r ->]. simpl. lia.
  - destruct Hd as [Hd1 Hd2]. inversion Hf; subst.
    + cbn [append]. rewrite (index_byte_app_none "/"%char v) by now apply no_byte_index.
      destruct Hr as [->|Hr]; [simpl; rewrite app_str_nil_r; reflexivity|].
      apply prefix_slash in Hr. destruct Hr as [r ->]. simpl. lia.
    + cbn [append]. rewrite (index_first_after v d (s0 ++ rest0)) by assumption.
      cbn [index_byte]. destruct (Ascii.eqb d "/"%char); simpl.
      * lia.
      * destruct (index_byte "/"%char (s0 ++ rest0)); simpl; lia.
    + simpl in Hd2. discriminate.
Qed.

Theorem match_raw_complete : forall pat names vals s, fills pat names vals s -> findable pat vals ->
  forall rest0, (rest0 = "" \/ String.prefix "/" rest0 = true) ->
  forall fuel ps, String.length pat < fuel -> match_raw fuel pat (s ++ rest0) ps = MYes (ps ++ vals) (slashify rest0).
Proof.
  induction 1 as [| |c pat names vals s Hb Hs Hf IH|name pat names v vals s Hn Hf IH]; intros Hfd rest0 Hr fuel ps Hfu.
  - destruct fuel; [simpl in Hfu; lia|]. simpl. rewrite app_nil_r. now apply finish_slashify.
  - destruct fuel; [simpl in Hfu; lia|]. simpl. rewrite app_nil_r. now apply finish_slashify.
  - destruct fuel; [simpl in Hfu; lia|].
    inversion Hfd; subst; try (simpl in Hs; discriminate); try (simpl in Hb; discriminate).
    cbn [match_raw append]. rewrite Hs, Hb, Ascii.eqb_refl. apply IH; auto. simpl in Hfu. lia.
  - destruct fuel; [simpl in Hfu; lia|].
    inversion Hfd; subst.
    + match goal with H : Ascii.eqb "{"%char "{"%char = false |- _ => simpl in H; discriminate end.
    + match goal with Hn' : index_byte "}"%char ?n = None, E : (?n ++ String "}"%char ?p)%string = _ |- _ =>
        destruct (var_decomp_unique _ _ _ _ Hn' Hn E) as [-> ->] end.
      rewrite match_raw_var_step by assumption. cbv zeta.
      rewrite app_str_assoc.
      match goal with Hv : no_byte "/"%char v = true, Hd : match pat with EmptyString => True | String _ _ => _ end |- _ =>
        rewrite (cut_at_value pat names vals s v rest0 Hf Hv Hd Hr) end.
      rewrite take_app_length, drop_app_length.
      rewrite (IH ltac:(assumption) rest0 Hr fuel (ps ++ [v])).
      * now rewrite <- app_assoc.
      * simpl in Hfu. rewrite length_app_str in Hfu. simpl in Hfu. lia.
Qed.

(* ---- ParameterNames lists the variables in the order MatchRawURL reports their values ---- *)
Lemma index_byte_none_no c s : index_byte c s = None -> forall i, index_byte c s <> Some i.
Proof. intros -> i; discriminate. Qed.

Lemma param_names_fuel : forall f pat, String.length pat < f -> param_names f pat = param_names (S f) pat.
Proof.
  induction f as [|f IH]; intros pat H; [lia|].
  cbn [param_names]. destruct (index_byte "{"%char pat) as [i|] eqn:Ei; [|reflexivity].
  destruct (index_byte "}"%char (drop (S i) pat)) as [j|] eqn:Ej; [|reflexivity].
  f_equal. apply IH.
  pose proof (index_byte_lt _ _ _ Ei). pose proof (drop_S_lt i pat H0).
  pose proof (index_byte_lt _ _ _ Ej). pose proof (drop_S_lt j _ H2). lia.
Qed.
Lemma param_names_fuel_ge pat : forall f1 f2, String.length pat < f1 -> f1 <= f2 -> param_names f1 pat = param_names f2 pat.
Proof.
  intros f1 f2 H1 H2. induction H2 as [|f2 Hle IH]; [reflexivity|]. rewrite IH. apply param_names_fuel. lia.
Qed.

Lemma drop_0 s : drop 0 s = s.
Proof. destruct s; reflexivity. Qed.

Lemma param_names_S f pat : param_names (S f) pat =
  match index_byte "{"%char pat with
  | None => Some []
  | Some i => match index_byte "}"%char (drop (S i) pat) with
              | None => None
              | Some j => option_map (cons (take j (drop (S i) pat))) (param_names f (drop (S j) (drop (S i) pat)))
              end
  end.
Proof. reflexivity. Qed.

Theorem fills_parameter_names : forall pat names vals s, fills pat names vals s ->
  parameter_names pat = Some names /\ List.length names = List.length vals.
Proof.
  unfold parameter_names. induction 1 as [| |c pat names vals s Hb Hs Hf [IH1 IH2]|name pat names v vals s Hn Hf [IH1 IH2]].
  - split; reflexivity.
  - split; reflexivity.
  - split; [|assumption].
    rewrite param_names_S. rewrite param_names_S in IH1. cbn [index_byte]. rewrite Hb.
    destruct (index_byte "{"%char pat) as [i|] eqn:Ei; cbn [option_map].
    + rewrite drop_S_cons.
      destruct (index_byte "}"%char (drop (S i) pat)) as [j|] eqn:Ej; [|exact IH1].
      rewrite <- IH1. f_equal. symmetry. cbn [String.length]. apply param_names_fuel.
      pose proof (index_byte_lt _ _ _ Ei). pose proof (drop_S_lt i pat H).
      pose proof (index_byte_lt _ _ _ Ej). pose proof (drop_S_lt j _ H1). lia.
    + exact IH1.
  - split; [|simpl; now rewrite IH2].
    rewrite param_names_S. cbn [index_byte]. replace (Ascii.eqb "{"%char "{"%char) with true by reflexivity.
    rewrite !drop_S_cons, !drop_0.
    rewrite index_byte_app_none by assumption. cbn [index_byte]. rewrite Ascii.eqb_refl. cbn [option_map].
    rewrite Nat.add_0_r. rewrite take_app_length.
    change (String "}"%char pat) with (String "}"%char EmptyString ++ pat)%string.
    rewrite <- app_str_assoc.
    replace (S (String.length name)) with (String.length (name ++ String "}"%char EmptyString)) by (rewrite length_app_str; simpl; lia).
    rewrite drop_app_length.
    rewrite <- (param_names_fuel_ge pat (S (String.length pat))); [rewrite IH1; reflexivity|lia|].
    cbn [String.length]. rewrite !length_app_str. simpl. lia.
Qed.

(* ---- Servers.MatchURL: the first declared server that matches ---- *)
Theorem match_url_first : forall servers url k i ps rest,
  match_url_from k servers url = Some (i, ps, rest) ->
  exists j, i = k + j /\ (exists s, nth_error servers j = Some s /\ match_raw_url s url = MYes ps rest) /\
            forall j' s', j' < j -> nth_error servers j' = Some s' -> forall ps' rest', match_raw_url s' url <> MYes ps' rest'.
Proof.
  induction servers as [|s r IH]; intros url k i ps rest H; [discriminate|].
  simpl in H. destruct (match_raw_url s url) as [|ps0 rest0|] eqn:E.
  - apply IH in H. destruct H as (j & -> & (s1 & Hn & Hm) & Hall).
    exists (S j). split; [lia|]. split; [exists s1; auto|].
    intros [|j'] s' Hlt Hnth; simpl in Hnth.
    + inversion Hnth; subst. rewrite E. discriminate.
    + apply (Hall j' s'); [lia|assumption].
  - inversion H; subst. exists 0. split; [lia|]. split; [exists s; auto|]. intros j' s' Hlt; lia.
  - apply IH in H. destruct H as (j & -> & (s1 & Hn & Hm) & Hall).
    exists (S j). split; [lia|]. split; [exists s1; auto|].
    intros [|j'] s' Hlt Hnth; simpl in Hnth.
    + inversion Hnth; subst. rewrite E. discriminate.
    + apply (Hall j' s'); [lia|assumption].
Qed.

Theorem match_url_none : forall servers url k,
  match_url_from k servers url = None <-> forall s, In s servers -> forall ps rest, match_raw_url s url <> MYes ps rest.
Proof.
  induction servers as [|s r IH]; intros url k; simpl.
  - split; [intros _ s []|reflexivity].
  - destruct (match_raw_url s url) as [|ps0 rest0|] eqn:E.
    + rewrite IH. split.
      * intros H s' [<-|Hin]; [rewrite E; discriminate|now apply H].
      * intros H s' Hin. apply H. now right.
    + split; [discriminate|]. intros H. exfalso. apply (H s (or_introl eq_refl) ps0 rest0). exact E.
    + rewrite IH. split.
      * intros H s' [<-|Hin]; [rewrite E; discriminate|now apply H].
      * intros H s' Hin. apply H. now right.
Qed.

(* ---- legacy FindRoute of a document with servers ---- *)
(* a found route: the URL is a declared server's pattern filled with the reported values, followed by
   the text the trie matched (for which C09_legacy_match_sound holds) *)
Theorem legacy_find_srv_sound : forall servers root method url lit known r ps oi,
  servers <> [] ->
  legacy_find_srv servers root method url lit known = (RFound r ps, oi) ->
  exists i s names vals consumed rest0 n vals',
    oi = Some i /\ nth_error servers i = Some s /\ fills s names vals consumed /\ url = (consumed ++ rest0)%string /\
    (forall j s', j < i -> nth_error servers j = Some s' -> forall v' r', match_raw_url s' url <> MYes v' r') /\
    tmatch root (strip_trailing_slashes (method ++ " " ++ slashify rest0)) [] = Some (n, vals') /\
    t_value n = Some r /\ ps = zip_params (t_names n) vals'.
Proof.
  intros servers root method url lit known r ps oi Hne H.
  unfold legacy_find_srv in H. destruct servers as [|s0 sr]; [congruence|].
  destruct (match_url (s0 :: sr) url) as [[[i vals] rest]|] eqn:Em; [|discriminate].
  inversion H as [[Hl Hoi]]. clear H.
  apply match_url_first in Em. destruct Em as (j & Hj & (s & Hnth & Hm) & Hfirst). simpl in Hj. subst j.
  unfold match_raw_url in Hm. apply match_raw_sound in Hm.
  destruct Hm as (names & vals0 & consumed & rest0 & Hv & Hu & Hrest & Hpre & Hfills). simpl in Hv. subst vals0.
  unfold legacy_find in Hl.
  destruct (tmatch root (strip_trailing_slashes (method ++ " " ++ rest)) []) as [[n vals']|] eqn:Et.
  - destruct (t_value n) as [r0|] eqn:Ev; [|discriminate]. inversion Hl; subst r0 ps.
    exists i, s, names, vals, consumed, rest0, n, vals'. subst rest. repeat split; auto.
  - destruct (lit rest) as [ops|]; [|discriminate]. destruct (known && str_in method ops); discriminate.
Qed.

(* no declared server matches the URL text: not found *)
Theorem legacy_find_srv_no_server : forall servers root method url lit known,
  servers <> [] -> (forall s, In s servers -> forall ps rest, match_raw_url s url <> MYes ps rest) ->
  legacy_find_srv servers root method url lit known = (RNotFound, None).
Proof.
  intros servers root method url lit known Hne H. unfold legacy_find_srv. destruct servers as [|s0 sr]; [congruence|].
  unfold match_url. rewrite (proj2 (match_url_none (s0 :: sr) url 0) H). reflexivity.
Qed.

(* ---- non-vacuity and the recorded incompleteness ---- *)
Example server_fills_example :
  fills "https://{t}.example.com/v1/" ["t"] ["acme"] "https://acme.example.com/v1" /\
  findable "https://{t}.example.com/v1/" ["acme"].
Proof.
  split.
  - do 8 (apply F_lit; [reflexivity|reflexivity|]).
    apply (F_var "t" ".example.com/v1/" [] "acme" [] ".example.com/v1"); [reflexivity|].
    do 15 (apply F_lit; [reflexivity|reflexivity|]). apply F_slash.
  - do 8 (apply FD_lit; [reflexivity|reflexivity|]).
    apply (FD_var "t" ".example.com/v1/" "acme" []); [reflexivity|reflexivity|split; reflexivity|].
    do 15 (apply FD_lit; [reflexivity|reflexivity|]). apply FD_slash.
Qed.

(* a value containing the character that follows the variable is cut there: a URL under the server
   (x = "a-b") is not matched *)
Theorem server_refuted_value_with_follow_char :
  fills "http://{x}-api.example.com" ["x"] ["a-b"] "http://a-b-api.example.com" /\
  match_raw_url "http://{x}-api.example.com" "http://a-b-api.example.com/pets" = MNo.
Proof.
  split; [|vm_compute; reflexivity].
  do 7 (apply F_lit; [reflexivity|reflexivity|]).
  apply (F_var "x" "-api.example.com" [] "a-b" [] "-api.example.com"); [reflexivity|].
  do 16 (apply F_lit; [reflexivity|reflexivity|]). apply F_end.
Qed.
(* Servers.MatchURL finds the first declared server that matches *)
Lemma match_url_from_finds : forall servers k i s url ps rest,
  nth_error servers i = Some s -> match_raw_url s url = MYes ps rest ->
  (forall j s', j < i -> nth_error servers j = Some s' -> forall ps' rest', match_raw_url s' url <> MYes ps' rest') ->
  match_url_from k servers url = Some (k + i, ps, rest).
Proof.
  induction servers as [|s0 sr IH]; intros k i s url ps rest Hn Hm Hfirst; [destruct i; discriminate|].
  destruct i as [|i].
  - simpl in Hn. inversion Hn; subst. simpl. rewrite Hm. now rewrite Nat.add_0_r.
  - simpl in Hn. simpl.
    destruct (match_raw_url s0 url) as [|ps0 rest0|] eqn:E.
    + rewrite (IH (S k) i s url ps rest Hn Hm); [f_equal; f_equal; f_equal; lia|].
      intros j s' Hj Hs'. apply (Hfirst (S j) s'); [lia|exact Hs'].
    + exfalso. apply (Hfirst 0 s0 (Nat.lt_0_succ i) eq_refl ps0 rest0 E).
    + rewrite (IH (S k) i s url ps rest Hn Hm); [f_equal; f_equal; f_equal; lia|].
      intros j s' Hj Hs'. apply (Hfirst (S j) s'); [lia|exact Hs'].
Qed.

(* the legacy router on a document with servers: a URL made of a declared server's pattern filled with
   values the matcher finds again, followed by a path whose text reaches a valued node of the trie, is
   routed to that node's route - provided no earlier declared server matches the URL *)
Theorem legacy_find_srv_complete : forall servers root method lit known i s names vals consumed rest0 n vals' r,
  nth_error servers i = Some s ->
  fills s names vals consumed -> findable s vals -> (rest0 = ""%string \/ String.prefix "/" rest0 = true) ->
  (forall j s', j < i -> nth_error servers j = Some s' -> forall ps' rest', match_raw_url s' (consumed ++ rest0) <> MYes ps' rest') ->
  tmatch root (strip_trailing_slashes (method ++ " " ++ slashify rest0)) [] = Some (n, vals') -> t_value n = Some r ->
  legacy_find_srv servers root method (consumed ++ rest0) lit known = (RFound r (zip_params (t_names n) vals'), Some i).
Proof.
  intros servers root method lit known i s names vals consumed rest0 n vals' r Hn Hf Hd Hr Hfirst Ht Hv.
  unfold legacy_find_srv. destruct servers as [|s0 sr]; [destruct i; discriminate|].
  assert (Hm : match_raw_url s (consumed ++ rest0) = MYes vals (slashify rest0)).
  { unfold match_raw_url. apply (match_raw_complete s names vals consumed Hf Hd rest0 Hr _ []). auto. }
  unfold match_url. rewrite (match_url_from_finds (s0 :: sr) 0 i s _ vals (slashify rest0) Hn Hm Hfirst).
  cbn [Nat.add]. unfold legacy_find. rewrite Ht, Hv. reflexivity.
Qed.
