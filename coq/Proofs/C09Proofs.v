From KV Require Import Model.Base Model.Lookup Model.ParamCodec Model.Router Proofs.C05Proofs.
Local Open Scope list_scope.

(* ---------------- gorilla: whole-segment templates ---------------- *)
Fixpoint vars_of (t : list seg) : list string :=
  match t with [] => [] | SLit _ :: r => vars_of r | SVar n :: r => n :: vars_of r | SMix _ n _ :: r => n :: vars_of r end.
Fixpoint fill (t : list seg) (m : list (string * string)) : option (list string) :=
  match t with
  | [] => Some []
  | SLit l :: r => option_map (cons l) (fill r m)
  | SVar n :: r => match assoc n m, fill r m with Some v, Some rest => Some (v :: rest) | _, _ => None end
  | SMix pre n suf :: r => match assoc n m, fill r m with Some v, Some rest => Some ((pre ++ v ++ suf)%string :: rest) | _, _ => None end
  end.

(* ---- string lemmas ---- *)
Lemma take_drop k : forall s, s = (take k s ++ drop k s)%string.
Proof. induction k as [|k IH]; intros [|c s]; simpl; try reflexivity. now rewrite <- IH. Qed.
Lemma take_app_length a : forall b, take (String.length a) (a ++ b) = a.
Proof. induction a as [|c a IH]; intros b; simpl; [destruct b; reflexivity|]. now rewrite IH. Qed.
Lemma drop_app_length a : forall b, drop (String.length a) (a ++ b) = b.
Proof. induction a as [|c a IH]; intros b; simpl; [destruct b; reflexivity|]. apply IH. Qed.
Lemma length_app_str a b : String.length (a ++ b) = String.length a + String.length b.
Proof. induction a; simpl; auto. Qed.
Lemma prefix_drop p : forall s, String.prefix p s = true -> s = (p ++ drop (String.length p) s)%string.
Proof.
  induction p as [|c p IH]; intros s H; [destruct s; reflexivity|].
  destruct s as [|d s]; [discriminate|]. cbn [String.prefix] in H.
  destruct (ascii_dec c d) as [<-|]; [|discriminate]. simpl. now rewrite <- (IH s H).
Qed.
Lemma prefix_app p : forall s, String.prefix p (p ++ s) = true.
Proof.
  induction p as [|c p IH]; intros s; [destruct s; reflexivity|]. cbn [append String.prefix].
  destruct (ascii_dec c c) as [_|n]; [apply IH|now elim n].
Qed.

Lemma strip_affixes_sound pre suf x v : strip_affixes pre suf x = Some v -> x = (pre ++ v ++ suf)%string /\ v <> ""%string.
Proof.
  unfold strip_affixes. destruct (String.prefix pre x) eqn:Ep; [|discriminate].
  set (y := drop (String.length pre) x). set (k := String.length y - String.length suf).
  destruct (Nat.ltb (String.length suf) (String.length y)) eqn:El; [|discriminate].
  destruct (String.eqb_spec (drop k y) suf) as [Es|]; [|discriminate]. cbn [andb].
  intros H; inversion H; subst v. apply Nat.ltb_lt in El. split.
  - rewrite (prefix_drop pre x Ep) at 1. fold y. f_equal. transitivity (take k y ++ drop k y)%string; [apply take_drop|now rewrite Es].
  - intros E. assert (Hl : String.length y = String.length (take k y ++ drop k y)) by now rewrite <- take_drop.
    rewrite E, Es in Hl. simpl in Hl. lia.
Qed.
Lemma strip_affixes_complete pre suf v : v <> ""%string -> strip_affixes pre suf (pre ++ v ++ suf) = Some v.
Proof.
  intros Hv. unfold strip_affixes. rewrite prefix_app, drop_app_length.
  rewrite length_app_str. replace (String.length v + String.length suf - String.length suf) with (String.length v) by lia.
  rewrite drop_app_length, take_app_length, String.eqb_refl.
  destruct v as [|c v]; [congruence|]. simpl.
  destruct (Nat.ltb_spec (String.length suf) (S (String.length v + String.length suf))) as [_|H]; [reflexivity|lia].
Qed.

Lemma assoc_upd_same {A} k (v : A) l : assoc k (upd k v l) = Some v.
Proof.
  induction l as [|[k' v'] l IH]; cbn; [now rewrite String.eqb_refl|].
  destruct (String.eqb_spec k k') as [->|Hn]; cbn; [now rewrite String.eqb_refl|].
  destruct (String.eqb_spec k k'); [contradiction|exact IH].
Qed.
Lemma assoc_upd_other {A} k k2 (v : A) l : k2 <> k -> assoc k2 (upd k v l) = assoc k2 l.
Proof.
  intros Hne. induction l as [|[k' v'] l IH]; cbn.
  - destruct (String.eqb_spec k2 k); [contradiction|reflexivity].
  - destruct (String.eqb_spec k k') as [->|Hn]; cbn.
    + destruct (String.eqb_spec k2 k'); [contradiction|reflexivity].
    + destruct (String.eqb k2 k'); [reflexivity|exact IH].
Qed.

Lemma fill_upd_fresh t n x m : ~ In n (vars_of t) -> fill t (upd n x m) = fill t m.
Proof.
  induction t as [|[l|v|pre v suf] t IH]; intros H; cbn [fill vars_of] in *; [reflexivity| | |].
  - now rewrite IH.
  - rewrite assoc_upd_other by (intros ->; apply H; now left). rewrite IH by (intros Hi; apply H; now right). reflexivity.
  - rewrite assoc_upd_other by (intros ->; apply H; now left). rewrite IH by (intros Hi; apply H; now right). reflexivity.
Qed.

(* soundness: the parameters gorilla returns, substituted into the template, give back the path *)
Theorem segs_match_sound t : forall p m,
  NoDup (vars_of t) -> segs_match t p = Some m -> fill t m = Some p.
Proof.
  induction t as [|[l|n|pre n suf] t IH]; intros p m Hnd H; destruct p as [|x p]; cbn [segs_match] in H; try discriminate.
  - now injection H as <-.
  - destruct (String.eqb_spec l x) as [->|]; [|discriminate]. cbn. now rewrite (IH p m Hnd H).
  - destruct (String.eqb x ""); [discriminate|].
    destruct (segs_match t p) as [m'|] eqn:E; [|discriminate]. injection H as <-.
    cbn [vars_of] in Hnd. inversion Hnd as [|? ? Hfresh Hnd']; subst.
    cbn [fill]. rewrite assoc_upd_same, fill_upd_fresh by exact Hfresh. now rewrite (IH p m' Hnd' E).
  - destruct (strip_affixes pre suf x) as [v|] eqn:Ev; [|discriminate].
    destruct (segs_match t p) as [m'|] eqn:E; [|discriminate]. injection H as <-.
    cbn [vars_of] in Hnd. inversion Hnd as [|? ? Hfresh Hnd']; subst.
    cbn [fill]. rewrite assoc_upd_same, fill_upd_fresh by exact Hfresh. rewrite (IH p m' Hnd' E).
    now rewrite (proj1 (strip_affixes_sound _ _ _ _ Ev)).
Qed.

(* completeness: a path obtained by filling the template with non-empty values is matched *)
Theorem segs_match_complete t : forall m p,
  fill t m = Some p -> (forall n v, In n (vars_of t) -> assoc n m = Some v -> v <> ""%string) ->
  exists m', segs_match t p = Some m'.
Proof.
  induction t as [|[l|n|pre n suf] t IH]; intros m p H Hne; cbn in H.
  - injection H as <-. now exists [].
  - destruct (fill t m) as [rest|] eqn:E; [|discriminate]. injection H as <-.
    destruct (IH m rest E) as [m' Hm']. { intros n v Hn. apply Hne. exact Hn. }
    exists m'. cbn. now rewrite String.eqb_refl.
  - destruct (assoc n m) as [v|] eqn:Ev; [|discriminate].
    destruct (fill t m) as [rest|] eqn:E; [|discriminate]. injection H as <-.
    destruct (IH m rest E) as [m' Hm']. { intros n' v' Hn. apply Hne. now right. }
    exists (upd n v m'). cbn. rewrite (eqb_false_of_ne v) by (apply (Hne n v); [now left|exact Ev]). now rewrite Hm'.
  - destruct (assoc n m) as [v|] eqn:Ev; [|discriminate].
    destruct (fill t m) as [rest|] eqn:E; [|discriminate]. injection H as <-.
    destruct (IH m rest E) as [m' Hm']. { intros n' v' Hn. apply Hne. now right. }
    exists (upd n v m'). cbn [segs_match]. rewrite strip_affixes_complete by (apply (Hne n v); [now left|exact Ev]). now rewrite Hm'.
Qed.

(* the search: found routes are declared for the method and match; not-found means no template matches *)
Theorem gorilla_found_sound routes method path : forall r m,
  gorilla_find routes method path = GFound r m ->
  exists rt, In rt routes /\ gr_id rt = r /\ str_in method (gr_methods rt) = true /\ segs_match (gr_template rt) path = Some m.
Proof.
  induction routes as [|rt routes IH]; intros r m H; cbn in H; [discriminate|].
  destruct (segs_match (gr_template rt) path) as [m0|] eqn:E.
  - destruct (str_in method (gr_methods rt)) eqn:Em; [|discriminate]. injection H as <- <-.
    exists rt. repeat split; auto. now left.
  - destruct (IH r m H) as (rt' & Hin & H1 & H2 & H3). exists rt'. repeat split; auto. now right.
Qed.
Theorem gorilla_notfound_iff routes method path :
  gorilla_find routes method path = GNotFound <-> forall rt, In rt routes -> segs_match (gr_template rt) path = None.
Proof.
  induction routes as [|rt routes IH]; cbn; [split; [intros _ ? []|reflexivity]|].
  destruct (segs_match (gr_template rt) path) eqn:E.
  - split; [destruct (str_in method (gr_methods rt)); discriminate|].
    intros H. specialize (H rt (or_introl eq_refl)). congruence.
  - rewrite IH. split; [intros H r [<-|Hr]; auto|intros H r Hr; apply H; now right].
Qed.
(* the first template that matches the path decides *)
Theorem gorilla_first_match routes1 rt routes2 method path m :
  (forall r, In r routes1 -> segs_match (gr_template r) path = None) ->
  segs_match (gr_template rt) path = Some m ->
  gorilla_find (routes1 ++ rt :: routes2) method path
  = if str_in method (gr_methods rt) then GFound (gr_id rt) m else GMethodNotAllowed.
Proof.
  intros H1 H2. induction routes1 as [|r routes1 IH]; cbn.
  - now rewrite H2.
  - rewrite (H1 r (or_introl eq_refl)). apply IH. intros r' Hr. apply H1. now right.
Qed.

(* ---------------- legacy: the trie ---------------- *)
Section TIND.
  Variable P : trie -> Prop.
  Hypothesis H : forall names value sufs, Forall (fun kc => P (snd kc)) sufs -> P (T names value sufs).
  Fixpoint trie_ind' (t : trie) : P t :=
    match t with
    | T names value sufs =>
        H names value sufs
          ((fix go (l : list (tok * trie)) : Forall (fun kc => P (snd kc)) l :=
              match l with [] => Forall_nil _ | kc :: r => Forall_cons kc (trie_ind' (snd kc)) (go r) end) sufs)
    end.
End TIND.

Inductive reach : trie -> list tok -> trie -> Prop :=
| reach_nil t : reach t [] t
| reach_cons names v sufs k child toks n :
    In (k, child) sufs -> reach child toks n -> reach (T names v sufs) (k :: toks) n.

(* the token sequence spells the text, producing the variable values (a trailing "/" token also
   spells the end of the text: Match strips trailing slashes) *)
Inductive spells : list tok -> string -> list string -> Prop :=
| sp_nil : spells [] "" []
| sp_const p r rem vs : spells r rem vs -> spells (TC p :: r) (p ++ rem) vs
| sp_slash_end r vs : spells r "" vs -> spells (TC "/" :: r) "" vs
| sp_var r seg rest vs : cut_seg (seg ++ rest) = (seg, rest) -> spells r rest vs -> spells (TV :: r) (seg ++ rest) (seg :: vs)
| sp_every rem : spells [TE] rem [rem].

Lemma cut_seg_app s : forall a b, cut_seg s = (a, b) -> s = (a ++ b)%string.
Proof.
  induction s as [|c s IH]; intros a b H; cbn in H.
  - now injection H as <- <-.
  - destruct (Ascii.eqb c "/"%char); [now injection H as <- <-|].
    destruct (cut_seg s) as [a' b'] eqn:E. injection H as <- <-. cbn. f_equal. now apply IH.
Qed.

(* soundness of Match: whatever node is returned is reached through tokens that spell the text *)
Theorem tmatch_sound : forall t rem vals n vals',
  tmatch t rem vals = Some (n, vals') ->
  exists toks vs, reach t toks n /\ spells toks rem vs /\ vals' = vals ++ vs.
Proof.
  induction t as [names value sufs IH] using trie_ind'. intros rem vals n vals' H.
  cbn [tmatch] in H.
  destruct (String.eqb rem "" && match value with Some _ => true | None => false end) eqn:E0.
  { injection H as <- <-. apply andb_prop in E0 as [Er _]. apply String.eqb_eq in Er. subst rem.
    exists [], []. repeat split; [constructor|constructor|now rewrite app_nil_r]. }
  clear E0.
  assert (G : forall l, Forall (fun kc => forall rem vals n vals', tmatch (snd kc) rem vals = Some (n, vals') ->
                           exists toks vs, reach (snd kc) toks n /\ spells toks rem vs /\ vals' = vals ++ vs) l ->
              (forall kc, In kc l -> In kc sufs) ->
              (fix scan (l : list (tok * trie)) : option (trie * list string) :=
                 match l with
                 | [] => None
                 | (k, child) :: r =>
                     let res := match k with
                                | TC p => if String.prefix p rem then tmatch child (drop (String.length p) rem) vals
                                          else if String.eqb rem "" && String.eqb p "/" then tmatch child rem vals else None
                                | TV => let '(seg, rest) := cut_seg rem in tmatch child rest (vals ++ [seg])
                                | TE => Some (child, vals ++ [rem])
                                end in
                     match res with
                     | Some (n, vs) => if has_value n then Some (n, vs) else scan r
                     | None => scan r
                     end
                 end) l = Some (n, vals') ->
              exists toks vs, reach (T names value sufs) toks n /\ spells toks rem vs /\ vals' = vals ++ vs).
  { induction l as [|[k child] l IHl]; intros HF Hsub; [discriminate|].
    inversion HF as [|? ? Hc HF']; subst. cbn [snd] in Hc.
    assert (Hin : In (k, child) sufs) by (apply Hsub; now left).
    assert (Hrest : forall kc, In kc l -> In kc sufs) by (intros kc Hk; apply Hsub; now right).
    cbn zeta. destruct k as [p| |].
    - destruct (String.prefix p rem) eqn:Ep.
      + destruct (tmatch child (drop (String.length p) rem) vals) as [[n0 vs0]|] eqn:Em; [|intros Hs; apply IHl; auto].
        destruct (has_value n0); [|intros Hs; apply IHl; auto]. intros Hs. injection Hs as <- <-.
        destruct (Hc _ _ _ _ Em) as (toks & vs & Hr & Hsp & Hv).
        exists (TC p :: toks), vs. repeat split; [econstructor; eauto| |exact Hv].
        rewrite (prefix_drop p rem Ep) at 1. now constructor.
      + destruct (String.eqb rem "" && String.eqb p "/") eqn:Ee; [|intros Hs; apply IHl; auto].
        destruct (tmatch child rem vals) as [[n0 vs0]|] eqn:Em; [|intros Hs; apply IHl; auto].
        destruct (has_value n0); [|intros Hs; apply IHl; auto]. intros Hs. injection Hs as <- <-.
        apply andb_prop in Ee as [E1 E2]. apply String.eqb_eq in E1, E2. subst rem p.
        destruct (Hc _ _ _ _ Em) as (toks & vs & Hr & Hsp & Hv).
        exists (TC "/" :: toks), vs. repeat split; [econstructor; eauto|now constructor|exact Hv].
    - destruct (cut_seg rem) as [seg rest] eqn:Ec.
      destruct (tmatch child rest (vals ++ [seg])) as [[n0 vs0]|] eqn:Em; [|intros Hs; apply IHl; auto].
      destruct (has_value n0); [|intros Hs; apply IHl; auto]. intros Hs. injection Hs as <- <-.
      destruct (Hc _ _ _ _ Em) as (toks & vs & Hr & Hsp & Hv).
      exists (TV :: toks), (seg :: vs). repeat split; [econstructor; eauto| |].
      + rewrite (cut_seg_app rem seg rest Ec). constructor; [now rewrite <- (cut_seg_app rem seg rest Ec)|exact Hsp].
      + rewrite Hv, <- app_assoc. reflexivity.
    - destruct (has_value child); [|intros Hs; apply IHl; auto]. intros Hs. injection Hs as <- <-.
      exists [TE], [rem]. repeat split; [econstructor; [exact Hin|constructor]|constructor]. }
  apply (G sufs); auto.
Qed.

(* completeness of Match: if some valued node is reachable through tokens that spell the text, a
   valued node is returned (possibly another one: an earlier suffix may win) *)
Theorem tmatch_complete : forall t toks n, reach t toks n -> has_value n = true ->
  forall rem vs vals, spells toks rem vs ->
  exists n' vals', tmatch t rem vals = Some (n', vals') /\ has_value n' = true.
Proof.
  induction 1 as [t|names v sufs k child toks n Hin Hr IH]; intros Hv rem vs vals Hsp.
  - inversion Hsp; subst. destruct t as [names v sufs]. unfold has_value in Hv. cbn in Hv.
    destruct v; [|discriminate]. exists (T names (Some n) sufs), vals. cbn. split; reflexivity.
  - cbn [tmatch].
    destruct (String.eqb rem "" && match v with Some _ => true | None => false end) eqn:E0.
    { exists (T names v sufs), vals. split; [reflexivity|]. apply andb_prop in E0 as [_ E]. unfold has_value. cbn. exact E. }
    clear E0. specialize (IH Hv).
    induction sufs as [|[k' c'] sufs IHs]; [destruct Hin|].
    cbn zeta.
    set (res := match k' with
                | TC p => if String.prefix p rem then tmatch c' (drop (String.length p) rem) vals
                          else if String.eqb rem "" && String.eqb p "/" then tmatch c' rem vals else None
                | TV => let '(seg, rest) := cut_seg rem in tmatch c' rest (vals ++ [seg])
                | TE => Some (c', vals ++ [rem])
                end).
    destruct Hin as [E|Hin].
    + inversion E; subst k' c'. clear E.
      assert (Hres : exists n' vals', res = Some (n', vals') /\ has_value n' = true).
      { subst res. inversion Hsp; subst.
        - rewrite prefix_app, drop_app. eapply IH; eauto.
        - cbn. eapply IH; eauto.
        - match goal with H : cut_seg _ = _ |- _ => rewrite H end. eapply IH; eauto.
        - inversion Hr; subst. exists n, (vals ++ [rem]). split; [reflexivity|exact Hv]. }
      destruct Hres as (n' & vals' & -> & Hv'). rewrite Hv'. eauto.
    + destruct res as [[n0 vs0]|].
      * destruct (has_value n0) eqn:Hn0; [eauto|]. apply IHs; exact Hin.
      * apply IHs; exact Hin.
Qed.

(* ---------------- Paths.InMatchingOrder ---------------- *)
Definition rb (x : string * list string) : nat := count_rbrace (fst x).
Fixpoint sorted_rb (l : list (string * list string)) : Prop :=
  match l with
  | [] => True
  | x :: r => (forall y, In y r -> rb x <= rb y) /\ sorted_rb r
  end.

Lemma order_before_le a b : order_before a b = false -> count_rbrace b <= count_rbrace a.
Proof.
  unfold order_before. destruct (Nat.ltb_spec (count_rbrace a) (count_rbrace b)); [discriminate|]. intros _. lia.
Qed.
Lemma order_before_le' a b : order_before a b = true -> count_rbrace a <= count_rbrace b.
Proof.
  unfold order_before. destruct (Nat.ltb_spec (count_rbrace a) (count_rbrace b)); [lia|].
  destruct (Nat.ltb_spec (count_rbrace b) (count_rbrace a)); [discriminate|]. lia.
Qed.

Lemma insert_ordered_in x l y : In y (insert_ordered x l) <-> y = x \/ In y l.
Proof.
  induction l as [|z l IH]; cbn; [intuition congruence|].
  destruct (order_before (fst x) (fst z)); cbn; [intuition congruence|]. rewrite IH. intuition congruence.
Qed.

Lemma insert_ordered_sorted x l : sorted_rb l -> sorted_rb (insert_ordered x l).
Proof.
  induction l as [|z l IH]; intros Hs; cbn; [split; [intros ? []|exact I]|].
  destruct Hs as [Hz Hl].
  destruct (order_before (fst x) (fst z)) eqn:E; cbn.
  - split; [|split; assumption].
    intros y [<-|Hy]; unfold rb in *; [now apply order_before_le'|].
    apply order_before_le' in E. specialize (Hz y Hy). lia.
  - split; [|now apply IH].
    intros y Hy. apply insert_ordered_in in Hy as [->|Hy]; [|now apply Hz].
    unfold rb. now apply order_before_le.
Qed.

(* templates are tried in non-decreasing number of variables: a literal path is always tried
   before every templated path *)
Theorem in_matching_order_sorted paths : sorted_rb (in_matching_order paths).
Proof. induction paths as [|x l IH]; cbn; [exact I|]. now apply insert_ordered_sorted. Qed.
Theorem in_matching_order_perm paths y : In y (in_matching_order paths) <-> In y paths.
Proof.
  induction paths as [|x l IH]; cbn; [tauto|]. rewrite insert_ordered_in, IH. intuition congruence.
Qed.
