From KV Require Import Model.Base Model.Conc.
Local Open Scope list_scope.

(* (1) under the discipline no two calls race, whatever their number and footprints *)
Theorem discipline_race_free (synchronised : string -> bool) (i j : nat) (a b : access) :
  i <> j -> respects synchronised i a = true -> respects synchronised j b = true -> conflict a b = false.
Proof.
  intros Hij Ra Rb. unfold conflict, respects in *.
  destruct (cell_of a) as [x|o x] eqn:Ca, (cell_of b) as [y|o' y] eqn:Cb; cbn [cell_eqb]; try reflexivity.
  - destruct (String.eqb_spec x y) as [->|]; [|reflexivity]. cbn [andb].
    destruct (synchronised y).
    + rewrite Ra, Rb. cbn. now rewrite Bool.andb_false_r.
    + apply Bool.negb_true_iff in Ra, Rb. now rewrite Ra, Rb.
  - apply Nat.eqb_eq in Ra, Rb. subst o o'.
    destruct (Nat.eqb_spec i j); [contradiction|reflexivity].
Qed.

Theorem footprints_race_free (synchronised : string -> bool) (fps : list (list access)) :
  (forall i fp, nth_error fps i = Some fp -> forallb (respects synchronised i) fp = true) ->
  forall i j fi fj a b, i <> j -> nth_error fps i = Some fi -> nth_error fps j = Some fj ->
                        In a fi -> In b fj -> conflict a b = false.
Proof.
  intros H i j fi fj a b Hij Hi Hj Ha Hb.
  pose proof (H i fi Hi) as Oi. pose proof (H j fj Hj) as Oj. rewrite forallb_forall in Oi, Oj.
  eapply discipline_race_free; eauto.
Qed.

(* (2) functional caches are transparent *)
Section CACHE.
  Variable V : Type.
  Variable f : string -> V.

  Lemma lookup_ok c k : cache_ok V f c -> snd (lookup V f c k) = f k /\ cache_ok V f (fst (lookup V f c k)).
  Proof.
    intros Hc. unfold lookup. destruct (assoc k c) as [v|] eqn:E; cbn [fst snd].
    - split; [now apply Hc|exact Hc].
    - split; [reflexivity|]. intros k' v'. cbn [assoc]. destruct (String.eqb_spec k' k) as [->|]; [now intros [= <-]|apply Hc].
  Qed.

  (* every lookup of every thread returns what it returns when run alone on an empty cache, for
     every schedule *)
  Theorem run_transparent : forall sched c, cache_ok V f c ->
    snd (run V f c sched) = map (fun tk => (fst tk, f (snd tk))) sched /\ cache_ok V f (fst (run V f c sched)).
  Proof.
    induction sched as [|[t k] r IH]; intros c Hc; [split; [reflexivity|exact Hc]|].
    cbn [run]. destruct (lookup_ok c k Hc) as [Hv Hc1].
    destruct (lookup V f c k) as [c1 v] eqn:E. cbn [fst snd] in Hv, Hc1. subst v.
    destruct (IH c1 Hc1) as [Ho Hc2]. destruct (run V f c1 r) as [c2 out]. cbn [fst snd] in *.
    split; [now rewrite Ho|exact Hc2].
  Qed.

  (* in particular: what one thread gets does not depend on what the others do *)
  Corollary thread_results_solo sched t :
    filter (fun tv => Nat.eqb (fst tv) t) (snd (run V f [] sched))
    = map (fun tk => (fst tk, f (snd tk))) (filter (fun tk => Nat.eqb (fst tk) t) sched).
  Proof.
    assert (H0 : cache_ok V f []) by (intros k v H; discriminate H).
    destruct (run_transparent sched [] H0) as [H _]. rewrite H. clear H H0.
    induction sched as [|[t' k] r IH]; [reflexivity|]. cbn [map filter fst snd].
    destruct (Nat.eqb t' t); cbn [map]; now rewrite IH.
  Qed.
End CACHE.
