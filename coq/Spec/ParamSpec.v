(* C05 specification: the OpenAPI 3.0.3 style-serialisation table (RFC 6570 subset), written
   independently of the decoder, for values given as the texts of their primitive leaves. *)
From KV Require Import Model.Base Model.Json Model.Schema Model.Request Model.Lookup Model.ParamCodec.
Local Open Scope list_scope.

Inductive sval :=
| SPrim (t : string)                       (* text of a primitive *)
| SArr (ts : list string)                  (* texts of the elements *)
| SObj (kvs : list (string * string)).     (* member names and texts of their values *)

Definition flat (kvs : list (string * string)) : list string := flat_map (fun kv => [fst kv; snd kv]) kvs.
Definition eqs (kvs : list (string * string)) : list string := map (fun kv => (fst kv ++ "=" ++ snd kv)%string) kvs.
Fixpoint concat_map (f : string -> string) (l : list string) : string :=
  match l with [] => EmptyString | x :: r => (f x ++ concat_map f r)%string end.

(* the text a path / header / cookie parameter named [n] carries *)
Definition ser_text (l : loc) (style : string) (explode : bool) (n : string) (v : sval) : string :=
  let semi := String (ascii_of_N 59) EmptyString in
  (match l, v with
   | LPath, SPrim t =>
       if String.eqb style "label" then "." ++ t
       else if String.eqb style "matrix" then semi ++ n ++ "=" ++ t else t
   | LPath, SArr ts =>
       if String.eqb style "label" then "." ++ join (if explode then "." else ",") ts
       else if String.eqb style "matrix" then
         (if explode then concat_map (fun t => semi ++ n ++ "=" ++ t) ts else semi ++ n ++ "=" ++ join "," ts)
       else join "," ts
   | LPath, SObj kvs =>
       if String.eqb style "label" then
         (if explode then "." ++ join "." (eqs kvs) else "." ++ join "," (flat kvs))
       else if String.eqb style "matrix" then
         (if explode then concat_map (fun e => semi ++ e) (eqs kvs) else semi ++ n ++ "=" ++ join "," (flat kvs))
       else (if explode then join "," (eqs kvs) else join "," (flat kvs))
   | LHeader, SPrim t => t
   | LHeader, SArr ts => join "," ts
   | LHeader, SObj kvs => if explode then join "," (eqs kvs) else join "," (flat kvs)
   | LCookie, SPrim t => t
   | LCookie, SArr ts => join "," ts
   | LCookie, SObj kvs => join "," (flat kvs)
   | LQuery, _ => ""
   end)%string.

(* query parameters: the multimap after URL parsing *)
Definition ser_query (style : string) (explode : bool) (n : string) (v : sval) : list (string * list string) :=
  match v with
  | SPrim t => [(n, [t])]
  | SArr ts =>
      if explode then [(n, ts)]
      else [(n, [join (if String.eqb style "spaceDelimited" then " " else if String.eqb style "pipeDelimited" then "|" else ",") ts])]
  | SObj kvs =>
      if explode then map (fun kv => (fst kv, [snd kv])) kvs
      else [(n, [join "," (flat kvs)])]
  end.

Definition ser (p : pdef) (v : sval) : fragment :=
  let st := eff_style p in
  let ex := eff_explode p in
  match pd_in p with
  | LPath => mkFrag [(pd_name p, ser_text LPath st ex (pd_name p) v)] [] [] []
  | LQuery => mkFrag [] (ser_query st ex (pd_name p) v) [] []
  | LHeader => mkFrag [] [] [(pd_name p, [ser_text LHeader st ex (pd_name p) v])] []
  | LCookie => mkFrag [] [] [] [(pd_name p, ser_text LCookie st ex (pd_name p) v)]
  end.

(* the value a serialised [sval] stands for, under the parameter's schema: every leaf text read
   as the declared primitive type (no splitting involved) *)
Section EXPECT.
  Variable parse_int64 parse_int32 : string -> option Z.
  Variable parse_float : string -> option float.
  Notation pp := (parse_primitive parse_int64 parse_int32 parse_float).

  (* NaN / Inf are not numbers of the declared type *)
  Definition leaf (t : string) (c : score) : option pval :=
    match pp t c with
    | PROk (PF x) => if f_is_nan x || f_is_inf x then None else Some (PF x)
    | PROk v => Some v
    | PRErr _ => None
    end.
  Fixpoint leaves (ts : list string) (c : score) : option (list pval) :=
    match ts with
    | [] => Some []
    | t :: r => match leaf t c, leaves r c with Some v, Some l => Some (v :: l) | _, _ => None end
    end.
  Fixpoint members (kvs : list (string * string)) (decl : list (string * score)) (ap : option score)
    : option (list (string * pval)) :=
    match kvs with
    | [] => Some []
    | (k, t) :: r =>
        let c := match assoc k decl with Some c => Some c | None => ap end in
        match c with
        | None => None
        | Some c => match leaf t c, members r decl ap with Some v, Some l => Some ((k, v) :: l) | _, _ => None end
        end
    end.
  Definition expected (p : pdef) (v : sval) : option pval :=
    match shape_of (pd_schema p), v with
    | ShPrim, SPrim t => leaf t (core_of (pd_schema p))
    | ShArr (Some ic), SArr ts => option_map PA (leaves ts ic)
    | ShObj decl ap, SObj kvs => option_map PO (members kvs decl ap)
    | _, _ => None
    end.
End EXPECT.

(* ---- well-formedness of a value for a cell: the named guards of the round-trip theorem ---- *)
Fixpoint no_char_of (bad : string) (s : string) : bool :=
  match s with
  | EmptyString => true
  | String c r => negb (has_char c bad) && no_char_of bad r
  end.
(* characters that act as separators in a cell *)
Definition seps (l : loc) (style : string) (explode : bool) (v : sval) : string :=
  match l, v with
  | LPath, SArr _ => if String.eqb style "label" && explode then "." else if String.eqb style "matrix" && explode then ";" else ","
  | LPath, SObj _ => if explode then (if String.eqb style "label" then ".=" else if String.eqb style "matrix" then ";=" else ",=") else ","
  | LQuery, SArr _ => if explode then "" else if String.eqb style "spaceDelimited" then " " else if String.eqb style "pipeDelimited" then "|" else ","
  | LQuery, SObj _ => if explode then "" else ","
  | LHeader, SArr _ => ","
  | LHeader, SObj _ => if explode then ",=" else ","
  | LCookie, SArr _ | LCookie, SObj _ => ","
  | _, SPrim _ => ""
  end.
Definition texts_of (v : sval) : list string :=
  match v with SPrim t => [t] | SArr ts => ts | SObj kvs => flat kvs end.
(* class 1: no text is empty;  class 2: no text contains a separator of the cell;
   class 3: arrays / objects are non-empty, member names are unique *)
Definition g_nonempty (v : sval) : bool := forallb (fun t => negb (String.eqb t "")) (texts_of v).
Definition g_nosep (p : pdef) (v : sval) : bool :=
  forallb (no_char_of (seps (pd_in p) (eff_style p) (eff_explode p) v)) (texts_of v).
Fixpoint nodup_s (l : list string) : bool :=
  match l with [] => true | x :: r => negb (str_in x r) && nodup_s r end.
Definition g_shape (v : sval) : bool :=
  match v with SPrim _ => true | SArr ts => negb (is_nil ts) | SObj kvs => negb (is_nil kvs) && nodup_s (map fst kvs) end.

(* former class 4 (repaired in /repo, no longer used by the judge): an object schema with an
   additionalProperties schema decoded every member - the declared ones too - with that schema *)
Definition g_ap (p : pdef) (v : sval) : bool :=
  match shape_of (pd_schema p), v with
  | ShObj decl (Some _), SObj kvs => forallb (fun kv => negb (str_in (fst kv) (map fst decl))) kvs
  | _, _ => true
  end.
(* class 5: an integer schema with format int32 and an enum (decoded int32 never equals a float64
   enum member) *)
Definition int32_enum (c : score) : bool :=
  String.eqb (c_format c) "int32" && negb (is_nil (c_enum c)) &&
  match c_types c with Some l => str_in "integer" l | None => false end.
Definition g_int32_enum (p : pdef) : bool :=
  match pd_schema p with
  | Sch c _ _ _ _ it props _ =>
      negb (int32_enum c) && negb (match it with Some i => int32_enum (core_of i) | None => false end) &&
      forallb (fun kp => negb (int32_enum (core_of (snd kp)))) props
  end.

(* class 6: members that are not declared under `properties` (and no additionalProperties schema
   exists) are silently dropped by the decoder *)
Definition g_declared (p : pdef) (v : sval) : bool :=
  match shape_of (pd_schema p), v with
  | ShObj decl None, SObj kvs => forallb (fun kv => str_in (fst kv) (map fst decl)) kvs
  | _, _ => true
  end.

(* class 7: a query object parameter whose schema declares no properties is never reported as
   found (the found flag is computed by iterating over the declared properties) *)
Definition g_query_obj_found (p : pdef) : bool :=
  match pd_in p, shape_of (pd_schema p) with
  | LQuery, ShObj [] _ => false
  | _, _ => true
  end.
