(* C08 specification, from the property text; independent of Model/Response.validate_response
   (it shares the data types and the schema specification satb). *)
From KV Require Import Model.Base Model.Json Model.Schema Model.Lookup Model.Response Spec.SchemaSpec Spec.SchemaGuards Spec.SchemaGuardsRW.
Local Open Scope list_scope.

Fixpoint first_some {A} (l : list (option A)) : option A :=
  match l with [] => None | Some x :: _ => Some x | None :: r => first_some r end.

Section SPEC.
  Variable rc : string -> bool.
  Variable rm : string -> string -> bool.
  Variable fo : string -> string -> json -> option bool.

  (* exact status code, then status class (1XX-5XX), then default *)
  Definition select_spec {A} (responses : list (string * A)) (n : N) : option A :=
    first_some [ assoc (status_text n) responses;
                 (if N.leb 100 n && N.leb n 599 then assoc (class_key n) responses else None);
                 assoc "default" responses ].

  (* exact string, then without parameters, then type/*, then */* ; an empty Content-Type only
     matches */* and a type without '/' has no wildcard forms *)
  Definition content_spec {A} (content : list (string * A)) (mime : string) : option A :=
    if String.eqb mime "" then assoc "*/*" content else
    let bare := before semicolon mime in
    first_some [ assoc mime content; assoc bare content;
                 (if has_char slash bare then assoc (before slash bare ++ "/*") content else None);
                 (if has_char slash bare then assoc "*/*" content else None) ].

  Definition md_resp (o : vopts) : smode := mkMode false true true (negb (v_excl_wo o)).
  Definition md_hdr (o : vopts) : smode := mkMode false false true (negb (v_excl_wo o)).

  Definition header_spec (o : vopts) (h : hdr) : bool :=
    if h_found h then
      match h_schema h with
      | None => true               (* described by `content`: no header schema to satisfy *)
      | Some s => match h_decoded h with Some v => satb rc rm fo (md_hdr o) s v | None => false end
      end
    else negb (h_required h).

  Definition response_spec (o : vopts) (is_head : bool) (status : N)
             (responses : list (string * rdef)) (ct : string) (body : option json) : bool :=
    is_head || N.eqb status 301 || N.eqb status 304 || N.eqb status 307 || N.eqb status 308 ||
    match select_spec responses status with
    | None => negb (v_include_status o)
    | Some d =>
        forallb (header_spec o) (r_headers d) &&
        (v_excl_body o || is_nil (r_content d) ||
         match content_spec (r_content d) ct with
         | None => false
         | Some m =>
             match m_schema m with
             | None => true
             | Some s => match body with Some v => satb rc rm fo (md_resp o) s v | None => false end
             end
         end)
    end.

  (* ---- guards of the C08 theorem ---- *)
  Definition sv_guard (md : smode) (usenum : bool) (s : schema) (v : json) : bool :=
    g_all2 rc rm fo md usenum s && vg v.

  (* class 1: every header of the selected response has a schema (is not defined by `content`) *)
  Definition g_hdr (o : vopts) (h : hdr) : bool :=
    match h_schema h with
    | None => true
    | Some s => match h_decoded h with Some v => negb (h_found h) || sv_guard (md_hdr o) false s v | None => true end
    end.
  Definition g_media (o : vopts) (body : option json) (m : media) : bool :=
    match m_schema m, body with
    | Some s, Some v => sv_guard (md_resp o) true s v
    | _, _ => true
    end.
  Definition g_resp (o : vopts) (status : N) (responses : list (string * rdef)) (ct : string)
             (body : option json) : bool :=
    (negb (is_nil responses) || negb (v_include_status o)) &&
    match select_spec responses status with
    | None => true
    | Some d =>
        forallb (g_hdr o) (r_headers d) &&
        match content_spec (r_content d) ct with Some m => g_media o body m | None => true end
    end.

End SPEC.
