(* Specification side of deepObject decoding: values of a schema tree, the parameter tree a value
   stands for, and the value read at the declared types. *)
From KV Require Import Model.Base Model.Json Model.Schema Model.Request Model.ParamCodec Model.DeepObject.

Local Open Scope list_scope.

Inductive dval := VPrim (text : string) | VArr (items : list dval) | VObj (members : list (string * dval)).

(* the map[string]any deepSet builds from the serialisation of the value *)
Fixpoint tree_of (v : dval) : ptree :=
  match v with
  | VPrim t => PLeaf t
  | VArr l => PNode ((fix go (i : nat) (l : list dval) : list (string * ptree) :=
                        match l with [] => [] | x :: r => (itoa i, tree_of x) :: go (S i) r end) 0 l)
  | VObj ms => PNode ((fix go (ms : list (string * dval)) : list (string * ptree) :=
                         match ms with [] => [] | (k, x) :: r => (k, tree_of x) :: go r end) ms)
  end.
Fixpoint arr_kids (i : nat) (l : list dval) : list (string * ptree) :=
  match l with [] => [] | x :: r => (itoa i, tree_of x) :: arr_kids (S i) r end.
Fixpoint obj_kids (ms : list (string * dval)) : list (string * ptree) :=
  match ms with [] => [] | (k, x) :: r => (k, tree_of x) :: obj_kids r end.
Lemma tree_of_arr l : tree_of (VArr l) = PNode (arr_kids 0 l).
Proof. reflexivity. Qed.
Lemma tree_of_obj ms : tree_of (VObj ms) = PNode (obj_kids ms).
Proof. reflexivity. Qed.

(* values whose serialisation determines them: no empty array or object below the top, member
   names unique within an object *)
Definition keys_of {A} (l : list (string * A)) : list string := map fst l.
Fixpoint wfv (v : dval) : Prop :=
  match v with
  | VPrim _ => True
  | VArr l => l <> [] /\ (fix go (l : list dval) : Prop := match l with [] => True | x :: r => wfv x /\ go r end) l
  | VObj ms => ms <> [] /\ NoDup (map fst ms) /\
               (fix go (ms : list (string * dval)) : Prop := match ms with [] => True | (_, x) :: r => wfv x /\ go r end) ms
  end.
Fixpoint wf_all (l : list dval) : Prop := match l with [] => True | x :: r => wfv x /\ wf_all r end.
Fixpoint wf_members (ms : list (string * dval)) : Prop := match ms with [] => True | (_, x) :: r => wfv x /\ wf_members r end.
Lemma wfv_arr l : wfv (VArr l) = (l <> [] /\ wf_all l).
Proof. reflexivity. Qed.
Lemma wfv_obj ms : wfv (VObj ms) = (ms <> [] /\ NoDup (map fst ms) /\ wf_members ms).
Proof. reflexivity. Qed.

(* member names are non-empty (the decoder reads the member "" at the path of its parent) *)
Fixpoint nek (v : dval) : Prop :=
  match v with
  | VPrim _ => True
  | VArr l => (fix go (l : list dval) : Prop := match l with [] => True | x :: r => nek x /\ go r end) l
  | VObj ms => (fix go (ms : list (string * dval)) : Prop :=
                  match ms with [] => True | (k, x) :: r => k <> ""%string /\ nek x /\ go r end) ms
  end.
Fixpoint nek_all (l : list dval) : Prop := match l with [] => True | x :: r => nek x /\ nek_all r end.
Fixpoint nek_members (ms : list (string * dval)) : Prop :=
  match ms with [] => True | (k, x) :: r => k <> ""%string /\ nek x /\ nek_members r end.
Lemma nek_arr l : nek (VArr l) = nek_all l.
Proof. reflexivity. Qed.
Lemma nek_obj ms : nek (VObj ms) = nek_members ms.
Proof. reflexivity. Qed.

Section SPEC.
  Variable parse_int64 parse_int32 : string -> option Z.
  Variable parse_float : string -> option float.

  Fixpoint all_some {A} (l : list (option A)) : option (list A) :=
    match l with
    | [] => Some []
    | None :: _ => None
    | Some x :: r => option_map (cons x) (all_some r)
    end.

  (* the value read at the declared types (None: it is not a value of the schema): primitives by
     parsePrimitive (a text that reads as nil is not a value), arrays element by element (at least
     one), objects member by member in the order of the declared properties *)
  Fixpoint reading (s : dsch) (v : dval) {struct s} : option pval :=
    match s with
    | DSPrim c =>
        match v with
        | VPrim t => match parse_primitive parse_int64 parse_int32 parse_float t c with
                     | PROk PNil => None
                     | PROk p => Some p
                     | PRErr _ => None
                     end
        | _ => None
        end
    | DSArr it =>
        match v with
        | VArr (x :: l) => option_map PA (all_some (map (reading it) (x :: l)))
        | _ => None
        end
    | DSObj decl None =>
        match v with
        | VObj ms =>
            option_map PO
              (obj_loop (fun k ps => match assoc k ms with
                                     | None => BOk PNil                 (* no such member *)
                                     | Some x => match reading ps x with Some p => BOk p | None => BErr end
                                     end) decl [])
        | _ => None
        end
    | DSObj decl (Some aps) =>
        (* additionalProperties: the declared members as above, then every other member at the
           schema of the additional properties, in the order of the value *)
        match v with
        | VObj ms =>
            match obj_loop (fun k ps => match assoc k ms with
                                        | None => BOk PNil
                                        | Some x => match reading ps x with Some p => BOk p | None => BErr end
                                        end) decl [] with
            | None => None
            | Some m =>
                option_map PO
                  (obj_loop (fun k x => if has_key k decl then BOk PNil
                                        else match reading aps x with Some p => BOk p | None => BErr end) ms m)
            end
        | _ => None
        end
    end.
End SPEC.
