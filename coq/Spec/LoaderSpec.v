(* What loading has to achieve (C02, C11), stated on the static store of files, without the
   loader's traversal state: [deref] follows a reference's URI (relative to the file that contains
   it) and pointer, through chains, checking the kind; [spec_obs] lists, for every reference
   position reachable from the root, the object it designates; [reach_uris] closes the root
   location under "a reference found in an already reached file, resolved against that file". *)
From KV Require Import Model.Base Model.Loader.
Local Open Scope list_scope.

Definition id_of (n : node) : option N := match n with NObj id _ => Some id | NRef _ => None end.

(* the members of an object that exist in the Go type of a position of kind [k] (an object of another
   kind decoded there - a whole file read as whatever the position expects - shows only these) *)
Definition shown (k : kind) : list string :=
  match k with
  | KParameter | KHeader => ["content"; "schema"; "examples"]
  | KMedia | KMediaP => ["examples"; "schema"]
  | _ => walked k
  end.

Section SPEC.
  Variable files : string -> option file.
  Variable rpath : option string -> string -> string.

  Definition base (u : string) : option string := if String.eqb u "" then None else Some u.

  Fixpoint deref (fuel : nat) (u : string) (r : string) (k : kind) : option (string * node) :=
    match fuel with
    | O => None
    | S fuel' =>
        let url := before_hash r in
        let u' := if String.eqb url "" then u else rpath (base u) url in
        match files u' with
        | None => None
        | Some f =>
            if negb (has_hash r) then
              match single_of f with NObj _ _ => Some (u', single_of f) | NRef _ => None end
            else
              match frag_segments (after_hash r) with
              | None => None
              | Some segs =>
                  match find_cell segs (f_cells f) with
                  | Some (kc, n) =>
                      if kind_eqb kc k then
                        match n with NObj _ _ => Some (u', n) | NRef r' => deref fuel' u' r' k end
                      else None
                  | None =>
                      match find_ext segs (f_exts f) with
                      | Some (NObj i ks) => Some (u', NObj i ks)
                      | Some (NRef r') => deref fuel' u' r' k
                      | None => None
                      end
                  end
              end
        end
    end.

  Fixpoint spec_obs (fuel : nat) (u : string) (prefix : list string) (nd : node) (k : kind) (hops : nat) : list (list string * option N) :=
    match fuel with
    | O => []
    | S fuel' =>
        match nd with
        | NObj _ kids =>
            flat_map (fun x => match x with (c, key, k', child) =>
                        if str_in c (shown k) then spec_obs fuel' u (prefix ++ [label c key]) child k' hops else [] end) kids
        | NRef r =>
            match deref fuel u r k with
            | None => [(prefix, None)]
            | Some (u', n) =>
                (prefix, id_of n) ::
                match hops with O => [] | S h => spec_obs fuel' u' (prefix ++ ["->"]) n k h end
            end
        end
    end.

  (* every reference text of a node *)
  Fixpoint refs_of (fuel : nat) (nd : node) : list string :=
    match fuel with
    | O => []
    | S fuel' =>
        match nd with
        | NRef r => [r]
        | NObj _ kids => flat_map (fun x => match x with (_, _, _, child) => refs_of fuel' child end) kids
        end
    end.
  Definition file_refs (f : file) : list string :=
    flat_map (fun x => match x with (_, _, _, n) => refs_of 64 n end) (f_cells f)
    ++ flat_map (fun x => refs_of 64 (snd x)) (f_exts f)
    ++ match f_single f with Some kn => refs_of 64 (snd kn) | None => [] end.

  Definition step_uris (us : list string) : list string :=
    flat_map (fun u => match files u with
                       | Some f => flat_map (fun r => let url := before_hash r in
                                                      if String.eqb url "" then [] else [rpath (base u) url]) (file_refs f)
                       | None => []
                       end) us.
  Fixpoint reach_uris (fuel : nat) (us : list string) : list string :=
    match fuel with
    | O => us
    | S fuel' => let new := filter (fun u => negb (str_in u us)) (step_uris us) in
                 match new with [] => us | _ => reach_uris fuel' (us ++ new) end
    end.
End SPEC.

(* the loader's own result, listed the same way: from the final state.  A stored value is seen
   through the Go type of the position that refers to it: when an object of another kind was decoded
   there (a whole file read as whatever the position expects), only the members that type has exist *)
Fixpoint observe (fuel : nat) (s : lstate) (prefix : list string) (inst : N) (path : list string) (nd : node) (k : kind) (hops : nat) : list (list string * option N) :=
  match fuel with
  | O => []
  | S fuel' =>
      match nd with
      | NObj _ kids =>
          flat_map (fun x => match x with (c, key, k', child) =>
                      if str_in c (shown k) then
                        observe fuel' s (prefix ++ [label c key]) inst (path ++ [label c key]) child k' hops
                      else [] end) kids
      | NRef _ =>
          match val_of (inst, path) (vals s) with
          | None => [(prefix, None)]
          | Some v =>
              (prefix, id_of (tv_node v)) ::
              match hops with O => [] | S h => observe fuel' s (prefix ++ ["->"]) (tv_inst v) (tv_path v) (tv_node v) k h end
          end
      end
  end.

Fixpoint join_path (p : list string) : string :=
  match p with [] => "" | [x] => x | x :: r => (x ++ "/" ++ join_path r)%string end.
