(* What document validation has to decide (property C04), written over the same document tree
   but without the traversal machinery of the implementation:
   - [grammar]: the containment edges of an OpenAPI 3.0 document along which a violation must be
     found (every child object of the listed kinds);
   - a reference must be resolved and carry no sibling field that is neither allow-listed nor a
     permitted extension, wherever it occurs;
   - examples are checked as request data inside request bodies, as response data inside
     responses, and plainly elsewhere (by position, not by traversal history);
   - each option removes exactly the rule it names. *)
From KV Require Import Model.Base Model.Json Model.DocValidate.
Local Open Scope list_scope.

Definition grammar (k : string) : list string :=
  if is_k k "Doc" then ["components";"info";"paths";"security";"servers";"tags";"externalDocs"]
  else if is_k k "Components" then ["schemas";"parameters";"requestBodies";"responses";"headers";"securitySchemes";
                                    "examples";"links";"callbacks"]
  else if is_k k "Info" then ["contact";"license"]
  else if is_k k "Paths" then ["items"]
  else if is_k k "PathItem" then ["operations";"parameters";"servers"]
  else if is_k k "Operation" then ["parameters";"requestBody";"responses";"externalDocs";"callbacks";"servers";"security"]
  else if is_k k "Parameter" then ["schema";"content";"examples"]
  else if is_k k "Header" then ["schema";"content";"examples"]
  else if is_k k "MediaType" then ["schema";"examples";"encoding"]
  else if is_k k "RequestBody" then ["content"]
  else if is_k k "Responses" then ["items"]
  else if is_k k "Response" then ["content";"headers";"links"]
  else if is_k k "Schema" then ["oneOf";"anyOf";"allOf";"not";"items";"properties";"additionalProperties";
                                "externalDocs";"discriminator";"xml"]
  else if is_k k "Callback" then ["items"]
  else if is_k k "SecurityScheme" then ["flows"]
  else if is_k k "OAuthFlows" then ["implicit";"password";"clientCredentials";"authorizationCode"]
  else if is_k k "Server" then ["variables"]
  else if is_k k "Tag" then ["externalDocs"]
  else [].
Definition required (k lbl : string) : bool := str_in lbl (grammar k).

Definition ref_spec (o : vopts) (r : refinfo) : bool :=
  match r with RNone => true | RRef res sib => res && forallb (sibling_ok o) sib end.

Definition pos_enter (k : string) (pos : exmode) : exmode :=
  if is_k k "RequestBody" then XQ else if is_k k "Response" then XS else pos.

(* the style/explode table of the OpenAPI 3.0 specification, by location *)
Definition style_allowed (inn style : string) (explode : bool) : bool :=
  if String.eqb inn "path" then str_in style ["simple";"label";"matrix"]
  else if String.eqb inn "query" then
    str_in style ["form";"spaceDelimited";"pipeDelimited"] || (String.eqb style "deepObject" && explode)
  else if String.eqb inn "header" then String.eqb style "simple"
  else if String.eqb inn "cookie" then String.eqb style "form"
  else false.

(* an example is checked against the schema when it has a value *)
Definition examples_spec (pos : exmode) (ks : list (string * string * dnode)) : bool :=
  forallb (fun kc => let a := nd_attrs (snd kc) in negb (ahas a "#has_value") || aok a (ex_attr "#val_" pos))
          (kids_of "examples" ks).

(* "/a/{x}/b" and "/a/{y}/b" are the same template *)
Fixpoint tpl_shape (s : string) (invar : bool) : string :=
  match s with
  | EmptyString => ""
  | String c r =>
      if invar then (if Ascii.eqb c "}" then String c (tpl_shape r false) else tpl_shape r true)
      else String c (tpl_shape r (Ascii.eqb c "{"))
  end.

Definition same_set (a b : list string) : bool :=
  forallb (fun x => str_in x b) a && forallb (fun x => str_in x a) b.

Definition path_params_spec (path : string) (item : dnode) : bool :=
  let common := path_param_names (nd_kids item) in
  forallb (fun kc => same_set (path_param_names (nd_kids (snd kc)) ++ common) (tpl_vars path))
          (kids_of "operations" (nd_kids item)).

Definition param_like_spec (o : vopts) (pos : exmode) (inn : string) (a : list (string * json)) (ks : list (string * string * dnode)) : bool :=
  style_allowed inn (eff_style inn (astr a "style")) (eff_explode inn a)
  && xorb (has_kid "schema" ks) (has_kid "content" ks)
  && Nat.leb (List.length (kids_of "content" ks)) 1
  && negb (ahas a "#has_example" && ahas a "#has_examples")
  && (vo_noex o || negb (has_kid "schema" ks) || (aok a (ex_attr "#ex_" pos) && examples_spec pos ks))
  && ext_ok o a.

Definition local_spec (o : vopts) (pos : exmode) (n : dnode) : bool :=
  match n with
  | DN k r a ks =>
      if is_k k "Paths" then
        forallb (fun kc => starts_slash (fst kc) && path_params_spec (fst kc) (snd kc)) (kids_of "items" ks)
        && nodup_l (map (fun kc => tpl_shape (fst kc) false) (kids_of "items" ks))
        && nodup_l (operation_ids ks) && ext_ok o a
      else if is_k k "Parameter" then
        let inn := astr a "in" in
        negb (String.eqb (astr a "name") "")
        && str_in inn ["path";"query";"header";"cookie"]
        && (negb (String.eqb inn "path") || abool a "required")
        && param_like_spec o pos inn a ks
      else if is_k k "Header" then
        String.eqb (astr a "name") "" && String.eqb (astr a "in") "" && param_like_spec o pos "header" a ks
      else if is_k k "MediaType" then
        negb (ahas a "#has_example" && ahas a "#has_examples")
        && (vo_noex o || negb (has_kid "schema" ks) || (aok a (ex_attr "#ex_" pos) && examples_spec pos ks))
        && ext_ok o a
      else if is_k k "Schema" then
        negb (abool a "readOnly" && abool a "writeOnly")
        && schema_type_ok o a ks
        && (vo_nodef o || aok a "#def_ok")
        && (vo_noex o || aok a (ex_attr "#ex_" pos))
        && ext_ok o a
      else (* the remaining kinds have no mode-dependent rule: the rule text is the transcription in
              Model.DocValidate.local, read once *)
        local o XN n
  end.

Fixpoint conforms (o : vopts) (pos : exmode) (n : dnode) {struct n} : bool :=
  match n with
  | DN k r a ks =>
      let pos1 := pos_enter k pos in
      ref_spec o r && local_spec o pos1 n &&
      (fix go (l : list (string * string * dnode)) : bool :=
         match l with
         | [] => true
         | (lbl, _, c) :: l' => (if required k lbl then conforms o pos1 c else true) && go l'
         end) ks
  end.

(* ---- guards: where the implementation is known to decide something else ---- *)
Definition modes : list exmode := [XN; XQ; XS].

Definition g_ref (o : vopts) (m : vmode) (r : refinfo) : bool := Bool.eqb (ref_ok o m r) (ref_spec o r).
Definition g_local (o : vopts) (n : dnode) : bool :=
  forallb (fun st => forallb (fun pos => Bool.eqb (local o st n) (local_spec o pos n)) modes) modes.
Definition visited (o : vopts) (n : dnode) (lbl : string) : bool := str_in lbl (map fst (edges o n)).
Definition g_edges (o : vopts) (n : dnode) : bool :=
  forallb (fun x => match x with (lbl, _, _) => Bool.eqb (required (nd_kind n) lbl) (visited o n lbl) end) (nd_kids n).
Definition mode_of (o : vopts) (n : dnode) (lbl : string) : vmode :=
  match assoc lbl (edges o n) with Some m => m | None => MDirect end.

Fixpoint g_all (o : vopts) (m : vmode) (n : dnode) {struct n} : bool :=
  match n with
  | DN k r a ks =>
      g_ref o m r && g_local o n && g_edges o n &&
      (fix go (l : list (string * string * dnode)) : bool :=
         match l with
         | [] => true
         | (lbl, _, c) :: l' => (if required k lbl then g_all o (mode_of o n lbl) c else true) && go l'
         end) ks
  end.

(* ---- named deviation classes, for reporting (first one met in a pre-order walk) ---- *)

Definition sensitive (a : list (string * json)) (pre : string) : bool :=
  negb (Bool.eqb (aok a (pre ++ "none")) (aok a (pre ++ "req")) && Bool.eqb (aok a (pre ++ "none")) (aok a (pre ++ "res"))).

(* reporting class of the first non-conforming child that sits under an edge the implementation does not descend *)
Definition unvisited_labels : list string := ["servers";"callbacks";"security";"examples";"encoding";"discriminator";"xml"].
Fixpoint index_of (s : string) (l : list string) (i : N) : N :=
  match l with [] => i | x :: r => if String.eqb s x then i else index_of s r (N.succ i) end.
Definition unvisited_class (o : vopts) (pos1 : exmode) (n : dnode) : N :=
  match filter (fun x => match x with (lbl, _, c) => required (nd_kind n) lbl && negb (visited o n lbl) && negb (conforms o pos1 c) end) (nd_kids n) with
  | (lbl, _, _) :: _ => 20 + index_of lbl unvisited_labels 0
  | [] => 0
  end%N.

Definition local_differs (o : vopts) (pos1 : exmode) (n : dnode) : bool :=
  existsb (fun st => negb (Bool.eqb (local o st n) (local_spec o pos1 n))) modes.

Definition class_here (o : vopts) (m : vmode) (pos : exmode) (n : dnode) : N :=
  match n with
  | DN k r a ks =>
      let pos1 := pos_enter k pos in
      if negb (g_ref o m r) then 8
      else if negb (local_differs o pos1 n) then unvisited_class o pos1 n
      else if is_k k "Paths" &&
              negb (forallb (fun kc => Bool.eqb (path_params_ok (fst kc) (snd kc)) (path_params_spec (fst kc) (snd kc))) (kids_of "items" ks)) then 2
      else if is_k k "Paths" && negb (nodup_l (map (fun kc => tpl_shape (fst kc) false) (kids_of "items" ks))) then 3
      (* classes 3, 4 and 5 were repaired in /repo; the tests stay so that a reappearance is named *)
      else if is_k k "Header" && negb (ext_ok o a) then 4
      else if is_k k "Parameter" && vo_noex o && has_kid "schema" ks && negb (ext_ok o a) then 5
      else if (is_k k "Parameter" || is_k k "MediaType") && negb (has_kid "schema" ks)
              && ahas a "#has_example" && ahas a "#has_examples" then 6
      else if (is_k k "Parameter" || is_k k "MediaType" || is_k k "Header")
              && existsb (fun kc => negb (ahas (nd_attrs (snd kc)) "#has_value")
                                    && negb (aok (nd_attrs (snd kc)) "#val_none" && aok (nd_attrs (snd kc)) "#val_req"
                                             && aok (nd_attrs (snd kc)) "#val_res"))
                         (kids_of "examples" ks) then 7
      else if sensitive a "#ex_" || existsb (fun kc => sensitive (nd_attrs (snd kc)) "#val_") (kids_of "examples" ks) then 1
      else 10
  end%N.

Fixpoint first_class (o : vopts) (m : vmode) (pos : exmode) (n : dnode) {struct n} : N :=
  match n with
  | DN k r a ks =>
      let c := class_here o m pos n in
      if negb (N.eqb c 0) then c
      else
        (fix go (l : list (string * string * dnode)) : N :=
           match l with
           | [] => 0%N
           | (lbl, _, c) :: l' =>
               let x := if required k lbl && visited o n lbl then first_class o (mode_of o n lbl) (pos_enter k pos) c else 0%N in
               if negb (N.eqb x 0) then x else go l'
           end) ks
  end.
