(* Named executable guards of the C01/C12 theorems.  Each guard excludes one defect class of
   the implementation (see known_findings.json); each has a refuted witness in Props/C01.v. *)
From KV Require Import Model.Base Model.Json Model.Schema.
Local Open Scope list_scope.

Definition no_children (s : schema) : bool :=
  match s with Sch _ None [] [] [] None [] None => true | _ => false end.

Definition small (n : N) : bool := N.ltb n 9223372036854775808.
Definition small_opt (o : option N) : bool := match o with Some n => small n | None => true end.

Fixpoint nodup_str (l : list string) : bool :=
  match l with [] => true | x :: r => negb (str_in x r) && nodup_str r end.

Section G.
  Variable re_compiles : string -> bool.

  (* class 1: IsEmpty shortcut only taken by schemas without sub-schemas *)
  Definition g_empty_here (s : schema) : bool := negb (is_empty s) || no_children s.
  (* class 2: exclusive flags have their bound *)
  Definition g_excl_here (c : score) : bool :=
    (negb (c_exMin c) || negb (is_none (c_min c))) && (negb (c_exMax c) || negb (is_none (c_max c))).
  (* class 4: length/count bounds below 2^63 (the code converts uint64 to int64) *)
  Definition g_small_here (c : score) : bool :=
    small (c_minLen c) && small_opt (c_maxLen c) && small (c_minItems c) && small_opt (c_maxItems c) &&
    small (c_minProps c) && small_opt (c_maxProps c).
  (* class 6: patterns compile *)
  Definition g_pattern_here (c : score) : bool := String.eqb (c_pattern c) "" || re_compiles (c_pattern c).

  Section ALL.
    Variable here : schema -> bool.
    Fixpoint all_sub (s : schema) : bool :=
      here s &&
      match s with
      | Sch c n one any all it props ap =>
          opt_all all_sub n && forallb all_sub one && forallb all_sub any && forallb all_sub all &&
          opt_all all_sub it && forallb (fun kp => all_sub (snd kp)) props && opt_all all_sub ap
      end.
  End ALL.

  Definition g_empty := all_sub g_empty_here.
  Definition g_excl := all_sub (fun s => g_excl_here (core_of s)).
  Definition g_small := all_sub (fun s => g_small_here (core_of s)).
  Definition g_pattern := all_sub (fun s => g_pattern_here (core_of s)).
  Definition g_noformat := all_sub (fun s => String.eqb (c_format (core_of s)) "").
  Definition g_nodup := all_sub (fun s => match s with Sch _ _ _ _ _ _ props _ => nodup_str (map fst props) end).
End G.

(* class 5: no multipleOf division yields NaN: all numbers of the value x all multipleOf of the schema *)
Fixpoint nums_of (v : json) : list float :=
  match v with
  | JNum x => [x]
  | JArr l => flat_map nums_of l
  | JObj l => flat_map (fun kv => nums_of (snd kv)) l
  | _ => []
  end.
Fixpoint mults_of (s : schema) : list float :=
  match s with
  | Sch c n one any all it props ap =>
      (match c_mult c with Some m => [m] | None => [] end) ++
      (match n with Some x => mults_of x | None => [] end) ++
      flat_map mults_of one ++ flat_map mults_of any ++ flat_map mults_of all ++
      (match it with Some x => mults_of x | None => [] end) ++
      flat_map (fun kp => mults_of (snd kp)) props ++
      (match ap with Some x => mults_of x | None => [] end)
  end.
Definition g_div (s : schema) (v : json) : bool :=
  forallb (fun x => forallb (fun m => negb (f_is_nan (PrimFloat.div x m))) (mults_of s)) (nums_of v).

(* class 3: on every array of the value, uniqueness by JSON text = uniqueness by JSON equality
   (fails exactly for 0 / -0) *)
Fixpoint g_uniq (v : json) : bool :=
  match v with
  | JArr l => Bool.eqb (json_nodup json_text_eqb l) (json_nodup json_eqb l) && forallb g_uniq l
  | JObj l => forallb (fun kv => g_uniq (snd kv)) l
  | _ => true
  end.

(* well-formed JSON objects (unique member names), and the value-side guard *)
Fixpoint g_wf (v : json) : bool :=
  match v with
  | JArr l => forallb g_wf l
  | JObj l => nodup_str (map fst l) && forallb (fun kv => g_wf (snd kv)) l
  | _ => true
  end.
Definition vg (v : json) : bool := all_finite v && g_uniq v && g_wf v.

(* class 8: when the value was decoded with UseNumber, enum members other than plain numbers
   contain no number (reflect.DeepEqual would never match them) *)
Fixpoint number_free (v : json) : bool :=
  match v with
  | JNum _ => false
  | JArr l => forallb number_free l
  | JObj l => forallb (fun kv => number_free (snd kv)) l
  | _ => true
  end.
Definition g_enum_here (usenum : bool) (c : score) : bool :=
  negb usenum || forallb (fun m => match m with JNum _ => true | _ => number_free m end) (c_enum c).
Definition g_enum (usenum : bool) : schema -> bool := all_sub (fun s => g_enum_here usenum (core_of s)).

Definition here_ok (rc : string -> bool) (s : schema) : bool :=
  g_empty_here s && g_small_here (core_of s) &&
  match s with Sch _ _ _ _ _ _ props _ => nodup_str (map fst props) end.
Definition g_all (rc : string -> bool) : schema -> bool := all_sub (here_ok rc).

