(* C06 specification from the property text (JSON and plain-text bodies; form bodies: see C05). *)
From KV Require Import Model.Base Model.Json Model.Schema Model.Lookup Model.Response Model.Body
     Spec.SchemaSpec Spec.SchemaGuards Spec.SchemaGuardsRW Spec.ResponseSpec.
Local Open Scope list_scope.

Section SPEC.
  Variable rc : string -> bool.
  Variable rm : string -> string -> bool.
  Variable fo : string -> string -> json -> option bool.

  (* read as a request: read-only properties must be absent (unless the exclusion option is on)
     and need not be present even if required; write-only properties are allowed *)
  Definition md_req (o : bopts) : smode := mkMode true false (negb (b_excl_ro o)) true.

  Definition body_spec (o : bopts) (required : bool) (content : list (string * media))
             (ct raw : string) (parsed : option json) : bool :=
    if String.eqb raw "" then negb required else
    is_nil content ||
    match content_spec content ct with
    | None => false                        (* undeclared content type *)
    | Some m =>
        match m_schema m with
        | None => true
        | Some s =>
            match decode_body ct raw parsed with
            | Some v => satb rc rm fo (md_req o) s v
            | None => false
            end
        end
    end.

  Definition g_body (o : bopts) (content : list (string * media)) (ct raw : string) (parsed : option json) : bool :=
    match content_spec content ct with
    | Some m => match m_schema m, decode_body ct raw parsed with
                | Some s, Some v => sv_guard rc rm fo (md_req o) true s v
                | _, _ => true
                end
    | None => true
    end.
End SPEC.
