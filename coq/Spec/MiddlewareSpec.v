(* C14: what the property says, as a boolean over (case, observed outcome); written without
   reference to the wrappers of Model/Middleware.v (it only uses the client reference writer,
   i.e. "what the client would see had the handler talked to it directly"). *)
From KV Require Import Model.Base Model.Middleware.

(* the status a handler's call sequence commits to: first WriteHeader, or the implicit 200 of
   the first Write; None if the handler sets no status and writes no body *)
Fixpoint handler_status (hs : list hop) : option Z :=
  match hs with
  | [] => None
  | HWriteHeader n :: _ => Some n
  | HWrite _ :: _ => Some 200%Z
  | _ :: r => handler_status r
  end.
Definition spec_status (hs : list hop) : Z :=
  match handler_status hs with Some n => n | None => 200%Z end.
Fixpoint handler_body (hs : list hop) : string :=
  match hs with
  | [] => ""
  | HWrite b :: r => b ++ handler_body r
  | _ :: r => handler_body r
  end.
Fixpoint no_flush (hs : list hop) : list hop :=
  match hs with
  | [] => []
  | HFlush :: r => no_flush r
  | h :: r => h :: no_flush r
  end.

Definition errcode_eqb (a b : errcode) : bool :=
  match a, b with
  | ECNotFound, ECNotFound | ECBadRequest, ECBadRequest | ECRespInvalid, ECRespInvalid => true
  | _, _ => false
  end.
Definition err_eqb (a b : Z * errcode) : bool := Z.eqb (fst a) (fst b) && errcode_eqb (snd a) (snd b).

(* what a client can observe: status, body bytes, whether the server-side writer panicked *)
Definition client_obs_eqb (a b : client) : bool :=
  Z.eqb (c_code a) (c_code b) && String.eqb (c_body a) (c_body b) && Bool.eqb (c_panic a) (c_panic b).

Section SPEC.
  Variable route_ok req_ok : bool.
  Variable resp_ok : Z -> string -> bool.
  Variable ef : Z -> errcode -> list hop.
  Variable strict : bool.

  Definition spec_ok (hs : list hop) (o : outcome) : bool :=
    Bool.eqb (o_called o) (route_ok && req_ok) &&
    if negb route_ok then
      client_obs_eqb (o_client o) (cl_run client0 (ef 404 ECNotFound)) &&
      list_eqb err_eqb (o_errs o) [(404%Z, ECNotFound)]
    else if negb req_ok then
      client_obs_eqb (o_client o) (cl_run client0 (ef 400 ECBadRequest)) &&
      list_eqb err_eqb (o_errs o) [(400%Z, ECBadRequest)]
    else if strict then
      let direct := cl_run client0 (no_flush hs) in
      if c_panic direct then true   (* the handler itself misuses WriteHeader: unconstrained *)
      else if resp_ok (spec_status hs) (handler_body hs) then
        client_obs_eqb (o_client o) direct && list_eqb err_eqb (o_errs o) []
      else
        client_obs_eqb (o_client o) (cl_run client0 (ef 500 ECRespInvalid)) &&
        list_eqb err_eqb (o_errs o) [(500%Z, ECRespInvalid)]
    else
      client_obs_eqb (o_client o) (cl_run client0 hs) && list_eqb err_eqb (o_errs o) [].
End SPEC.

(* the one guard: in strict mode the handler commits to a status or writes a body *)
Definition g_wrote (hs : list hop) : bool :=
  match handler_status hs with Some _ => true | None => false end.
