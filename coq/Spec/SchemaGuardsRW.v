(* The guards of the main schema theorem that mention the specification itself. *)
From KV Require Import Model.Base Model.Json Model.Schema Spec.SchemaSpec Spec.SchemaGuards.
Local Open Scope list_scope.

Section RW.
  Variable rc : string -> bool.
  Variable rm : string -> string -> bool.
  Variable fo : string -> string -> json -> option bool.
  Variable md : smode.
  Variable usenum : bool.

  (* class 7: a property that may not carry a value in this reading (read-only in a request,
     write-only in a response) does not admit null either, so a present null member is rejected
     by the implementation (which only looks at non-null members) as the specification demands *)
  Definition g_rw_here (s : schema) : bool :=
    match s with
    | Sch _ _ _ _ _ _ props _ =>
        forallb (fun kp => negb (forbidden md (core_of (snd kp))) || negb (satb rc rm fo md (snd kp) JNull)) props
    end.
  Definition here_ok2 (s : schema) : bool := here_ok rc s && g_rw_here s && g_enum_here usenum (core_of s).
  Definition g_all2 : schema -> bool := all_sub here_ok2.
  Definition g_rw : schema -> bool := all_sub g_rw_here.
End RW.
