(* C01 specification: JSON-Schema draft-4 / OpenAPI 3.0 satisfaction, keyword by keyword,
   compositional on the schema.  Independent of Model/Schema.visit: it shares only the syntax
   of schemas (score / schema), the type-permission helpers and the oracles.
   null: admitted iff the schema is nullable, or the schema has a non-empty composition
   (oneOf/anyOf/allOf) and null satisfies `not` and every composition keyword (the library's
   documented convention, adopted by the property text). *)
From KV Require Import Model.Base Model.Json Model.Schema.
Local Open Scope list_scope.

Record smode := mkMode { sm_req : bool; sm_rep : bool; sm_ro : bool; sm_wo : bool }.
Definition md_plain : smode := mkMode false false true true.
Definition md_of (st : settings) : smode :=
  mkMode (st_asreq st) (st_asrep st) (negb (st_roOff st)) (negb (st_woOff st)).

(* a property with this core may not carry a value in this reading *)
Definition forbidden (md : smode) (pc : score) : bool :=
  (sm_req md && c_readOnly pc && sm_ro md) || (sm_rep md && c_writeOnly pc && sm_wo md).
(* a required property with this core need not be present in this reading *)
Definition exempt (md : smode) (pc : score) : bool :=
  (c_readOnly pc && sm_req md) || (c_writeOnly pc && sm_rep md).

Section SPEC.
  Variable re_compiles : string -> bool.
  Variable re_match : string -> string -> bool.
  (* registered format validators (kind, format, value): None = no validator registered *)
  Variable fmt_ok : string -> string -> json -> option bool.

  (* reading mode: plain, as a request (read-only properties must be absent and need not be
     present even if required; write-only ones are allowed) or as a response (the converse);
     sm_ro / sm_wo: the read-only / write-only exclusion checks are enabled *)
  Variable md : smode.

  Definition fmt_pass (c : score) (kind : string) (v : json) : bool :=
    String.eqb (c_format c) "" ||
    match fmt_ok kind (c_format c) v with Some false => false | _ => true end.

  Definition num_ok (c : score) (x : float) : bool :=
    (if permits c "integer" && negb (permits c "number") then f_is_int x
     else permits c "integer" || permits c "number") &&
    fmt_pass c (if permits c "integer" && negb (permits c "number") then "integer" else "number") (JNum x) &&
    (* minimum: m <= x, and x <> m (written m < x) when exclusiveMinimum *)
    match c_min c with
    | Some m => PrimFloat.leb m x && (negb (c_exMin c) || PrimFloat.ltb m x)
    | None => true
    end &&
    match c_max c with
    | Some m => PrimFloat.leb x m && (negb (c_exMax c) || PrimFloat.ltb x m)
    | None => true
    end &&
    match c_mult c with Some m => f_is_int (PrimFloat.div x m) | None => true end.

  Definition str_ok (c : score) (s : string) : bool :=
    permits c "string" &&
    N.leb (c_minLen c) (ulen s) &&
    match c_maxLen c with Some m => N.leb (ulen s) m | None => true end &&
    (String.eqb (c_pattern c) "" || (re_compiles (c_pattern c) && re_match (c_pattern c) s)) &&
    fmt_pass c "string" (JStr s).

  Definition arr_ok (c : score) (l : list json) : bool :=
    permits c "array" &&
    N.leb (c_minItems c) (N.of_nat (List.length l)) &&
    match c_maxItems c with Some m => N.leb (N.of_nat (List.length l)) m | None => true end &&
    (negb (c_unique c) || json_nodup json_eqb l).

  Definition obj_ok (c : score) (l : list (string * json)) (props : list (string * score)) : bool :=
    permits c "object" &&
    N.leb (c_minProps c) (N.of_nat (List.length l)) &&
    match c_maxProps c with Some m => N.leb (N.of_nat (List.length l)) m | None => true end &&
    forallb (fun k => str_in k (map fst l) ||
                      match assoc k props with Some pc => exempt md pc | None => false end) (c_required c).

  Definition count_true (l : list bool) : nat := List.length (filter (fun b => b) l).

  Fixpoint satb (s : schema) (v : json) {struct s} : bool :=
    match s with
    | Sch c n one any all it props ap =>
        let not_ok := match n with Some x => negb (satb x v) | None => true end in
        let one_ok := is_nil one || Nat.eqb (count_true (map (fun x => satb x v) one)) 1 in
        let any_ok := is_nil any || existsb (fun x => satb x v) any in
        let all_ok := forallb (fun x => satb x v) all in
        let comps := not_ok && one_ok && any_ok && all_ok in
        match v with
        | JNull =>
            permits_null c ||
            ((negb (is_nil one) || negb (is_nil any) || negb (is_nil all)) && comps)
        | _ =>
            comps &&
            (is_nil (c_enum c) || json_in json_eqb v (c_enum c)) &&
            match v with
            | JNull => false
            | JBool _ => permits c "boolean"
            | JNum x => num_ok c x
            | JStr x => str_ok c x
            | JArr l =>
                arr_ok c l &&
                match it with Some its => forallb (fun x => satb its x) l | None => true end
            | JObj l =>
                obj_ok c l (map (fun kp => (fst kp, core_of (snd kp))) props) &&
                (* every declared property that is present may be present in this reading and
                   satisfies its schema *)
                forallb (fun kp => match assoc (fst kp) l with
                                   | Some x => negb (forbidden md (core_of (snd kp))) && satb (snd kp) x
                                   | None => true
                                   end) props &&
                (* every undeclared member is allowed and satisfies additionalProperties *)
                forallb (fun kv =>
                           str_in (fst kv) (map fst props) ||
                           (match c_apHas c with Some false => false | _ => true end &&
                            match ap with Some a => satb a (snd kv) | None => true end)) l
            end
        end
    end.
End SPEC.
