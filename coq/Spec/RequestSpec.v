(* C07 specification, written from the property text (independent of Model/Request.checked_parts). *)
From KV Require Import Model.Base Model.Request.
Local Open Scope list_scope.

Section SPEC.
  Variable declared : string -> bool.
  Variable auth : string -> bool.

  (* a scheme is accepted when it is declared and the callback accepts it *)
  Definition scheme_accepted (n : string) : bool := declared n && auth n.
  (* some requirement has all of its schemes accepted; an empty list or an empty requirement
     needs no authentication *)
  Definition sec_spec (rs : list requirement) : bool :=
    match rs with [] => true | _ => existsb (fun r => forallb scheme_accepted r) rs end.

  (* the parameters in effect: the operation's own plus the path-level ones not overridden by an
     operation parameter of the same name and location; the query ones removed on request *)
  Definition effective (excl_query : bool) (op : operation) : list param :=
    filter (fun p => negb (excl_query && loc_eqb (p_in p) LQuery))
           (op_params op ++ filter (fun p => negb (overridden (op_params op) p)) (path_params op)).

  Definition request_spec (o : ropts) (op : operation) : bool :=
    sec_spec (match op_security op with Some l => l | None => doc_security op end) &&
    forallb p_ok (effective (o_excl_query o) op) &&
    (negb (op_has_body op) || o_excl_body o || op_body_ok op).
End SPEC.

(* what "no authentication callback" means for the oracle [auth]: nothing is accepted.  (The two
   guards this file used to carry - path-level query parameters under ExcludeRequestQueryParams, the
   empty requirement without a callback - were deleted when the two defects were repaired in /repo.) *)
Definition callback_meaning (auth : string -> bool) (o : ropts) : Prop :=
  o_has_auth o = false -> forall n, auth n = false.
