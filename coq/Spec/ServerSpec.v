(* Independent specification of server matching: which URLs a server pattern stands for.
   A pattern is read as a token list; a URL is under the server when it is the pattern with every
   variable replaced by a non-empty text free of '/', followed by nothing or by a path starting
   with '/' (a final '/' of the pattern being optional). *)
From KV Require Import Model.Base Model.Lookup Model.ParamCodec Model.Router.
From KV Require Import Model.Server.
Local Open Scope list_scope.

(* tokens of a pattern; None: a '{' without '}' *)
Fixpoint ptoks (fuel : nat) (pat : string) : option (list ptok) :=
  match fuel with
  | O => Some []
  | S f =>
      match pat with
      | EmptyString => Some []
      | String c r =>
          if Ascii.eqb c "{"%char then
            match until_brace r with
            | None => None
            | Some (name, rest) => option_map (cons (PVar name)) (ptoks f rest)
            end
          else option_map (cons (PLit c)) (ptoks f r)
      end
  end.
Definition pattern_toks (pat : string) : option (list ptok) := ptoks (S (String.length pat)) pat.

Fixpoint strip_final_slash (ts : list ptok) : list ptok :=
  match ts with
  | [] => []
  | [PLit c] => if Ascii.eqb c "/"%char then [] else ts
  | t :: r => t :: strip_final_slash r
  end.

Definition boundary (u : string) : bool := String.eqb u "" || String.prefix "/" u.

(* all ways of cutting a non-empty slash-free value off the front of u *)
Fixpoint cuts (u : string) : list string :=
  match u with
  | EmptyString => []
  | String c r => if Ascii.eqb c "/"%char then [] else r :: cuts r
  end.

(* u = (tokens filled with some non-empty slash-free values) ++ rest, rest at a segment boundary *)
Fixpoint covers (ts : list ptok) (u : string) : bool :=
  match ts with
  | [] => boundary u
  | PLit c :: r => match u with String d u' => Ascii.eqb c d && covers r u' | EmptyString => false end
  | PVar _ :: r => existsb (covers r) (cuts u)
  end.

Definition under_server (pat url : string) : bool :=
  match pattern_toks pat with
  | Some ts => covers (strip_final_slash ts) url
  | None => false
  end.

(* a reported match reproduces the URL: url = filled pattern ++ rest (rest "/" standing for an empty one too) *)
Definition reproduces (pat url : string) (vals : list string) (rest : string) : bool :=
  String.prefix "/" rest &&
  match pattern_toks pat with
  | None => false
  | Some ts =>
      match fill_toks (strip_final_slash ts) vals with
      | Some c => String.eqb (c ++ rest) url || (String.eqb rest "/" && String.eqb c url)
      | None => false
      end
  end.
