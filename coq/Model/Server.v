(* Model of server matching: openapi3/server.go Server.MatchRawURL, Server.ParameterNames,
   Servers.MatchURL (on the URL text without its query) and the server part of
   routers/legacy/router.go FindRoute. *)
From KV Require Import Model.Base Model.Lookup Model.ParamCodec Model.Router.
Local Open Scope list_scope.

(* strings.IndexByte *)
Fixpoint index_byte (c : ascii) (s : string) : option nat :=
  match s with
  | EmptyString => None
  | String d r => if Ascii.eqb d c then Some 0 else option_map S (index_byte c r)
  end.

Inductive mres := MNo | MYes (params : list string) (rest : string) | MFuel.

(* the end of MatchRawURL: an empty remainder reads "/", the remainder must start with '/' *)
Definition finish (inp : string) (params : list string) : mres :=
  let inp' := if String.eqb inp "" then "/" else inp in
  match inp' with
  | String c _ => if Ascii.eqb c "/"%char then MYes params inp' else MNo
  | EmptyString => MNo
  end.

(* one iteration of the loop per unit of fuel; every iteration shortens the pattern *)
Fixpoint match_raw (fuel : nat) (pat inp : string) (params : list string) : mres :=
  match fuel with
  | O => MFuel
  | S f =>
      match pat with
      | EmptyString => finish inp params
      | String c pr =>
          if Ascii.eqb c "/"%char && String.eqb pr "" then finish inp params
          else if Ascii.eqb c "{"%char then
            match index_byte "}"%char pat with
            | None => MNo
            | Some i =>
                let pat' := drop (S i) pat in
                let np := match pat' with String d _ => index_byte d inp | EmptyString => None end in
                let ns := index_byte "/"%char inp in
                let k := match np, ns with
                         | None, None => String.length inp
                         | None, Some s => s
                         | Some p, None => p
                         | Some p, Some s => Nat.min p s
                         end in
                match_raw f pat' (drop k inp) (params ++ [take k inp])
            end
          else
            match inp with
            | String d ir => if Ascii.eqb d c then match_raw f pr ir params else MNo
            | EmptyString => MNo
            end
      end
  end.
Definition match_raw_url (pat inp : string) : mres := match_raw (S (String.length pat)) pat inp [].

(* ParameterNames: the texts between '{' and the next '}' (before strings.TrimSpace); None: missing '}' *)
Fixpoint param_names (fuel : nat) (pat : string) : option (list string) :=
  match fuel with
  | O => Some []
  | S f =>
      match index_byte "{"%char pat with
      | None => Some []
      | Some i =>
          let p1 := drop (S i) pat in
          match index_byte "}"%char p1 with
          | None => None
          | Some j => option_map (cons (take j p1)) (param_names f (drop (S j) p1))
          end
      end
  end.
Definition parameter_names (pat : string) : option (list string) := param_names (S (String.length pat)) pat.

(* Servers.MatchURL: the first declared server whose pattern matches *)
Fixpoint match_url_from (i : nat) (servers : list string) (url : string) : option (nat * list string * string) :=
  match servers with
  | [] => None
  | s :: r => match match_raw_url s url with
              | MYes ps rest => Some (i, ps, rest)
              | _ => match_url_from (S i) r url
              end
  end.
Definition match_url (servers : list string) (url : string) := match_url_from 0 servers url.

Fixpoint zip_srv (names vals : list string) : list (string * string) :=
  match names, vals with
  | n :: ns, v :: vs => upd n v (zip_srv ns vs)
  | _, _ => []
  end.

(* legacy FindRoute of a document with servers: the server is matched on the URL text, the trie
   on what is left; [literal_ops] answers Paths.Value for the remaining path *)
Definition legacy_find_srv (servers : list string) (root : trie) (method url : string)
           (literal_ops : string -> option (list string)) (known_method : bool) : rres * option nat :=
  match servers with
  | [] => (legacy_find root method url (literal_ops url) known_method, None)
  | _ =>
      match match_url servers url with
      | None => (RNotFound, None)
      | Some (i, _, rest) => (legacy_find root method rest (literal_ops rest) known_method, Some i)
      end
  end.

(* ---- specification side: patterns as token lists ---- *)
Inductive ptok := PLit (c : ascii) | PVar (name : string).

Fixpoint lit_toks (s : string) : list ptok :=
  match s with EmptyString => [] | String c r => PLit c :: lit_toks r end.

(* the URL text a pattern stands for under given variable values *)
Fixpoint fill_toks (ts : list ptok) (vals : list string) : option string :=
  match ts with
  | [] => match vals with [] => Some EmptyString | _ => None end
  | PLit c :: r => option_map (String c) (fill_toks r vals)
  | PVar _ :: r => match vals with
                   | v :: vs => option_map (append v) (fill_toks r vs)
                   | [] => None
                   end
  end.

(* the pattern text of a token list *)
Fixpoint toks_text (ts : list ptok) : string :=
  match ts with
  | [] => EmptyString
  | PLit c :: r => String c (toks_text r)
  | PVar n :: r => String "{"%char (n ++ String "}"%char (toks_text r))
  end.
