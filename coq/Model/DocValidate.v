(* Document validation (openapi3: T.Validate and the Validate method of every object kind),
   verdict only.  A document is a tree of kind-tagged nodes; map and list containers are
   flattened onto their parent (edge label = field name, key = map key / list index).  A node
   that was written as a reference carries [RRef resolved siblings]; when resolved, its
   attributes and children are those of the target (the harness only builds acyclic reference
   graphs for this property; cyclic ones are C20's).
   Scalar fields are attributes; attributes whose name starts with '#' are computed by the
   harness: presence flags, and the outcomes of oracles that other properties own
   (Schema.VisitJSON for defaults and examples - C01; regexp.Compile; url.Parse). *)
From KV Require Import Model.Base Model.Json.
Local Open Scope list_scope.

Inductive refinfo := RNone | RRef (resolved : bool) (siblings : list string).

Inductive dnode := DN (k : string) (r : refinfo) (a : list (string * json)) (kids : list (string * string * dnode)).

Definition nd_kind (n : dnode) := match n with DN k _ _ _ => k end.
Definition nd_ref (n : dnode) := match n with DN _ r _ _ => r end.
Definition nd_attrs (n : dnode) := match n with DN _ _ a _ => a end.
Definition nd_kids (n : dnode) := match n with DN _ _ _ ks => ks end.

Record vopts := mkVO {
  vo_has : bool;              (* some option was passed: the options struct lives in the context *)
  vo_allowed : list string;   (* AllowExtraSiblingFields *)
  vo_fmt : bool;              (* EnableSchemaFormatValidation *)
  vo_nopat : bool;            (* DisableSchemaPatternValidation *)
  vo_nodef : bool;            (* DisableSchemaDefaultsValidation *)
  vo_noex : bool;             (* DisableExamplesValidation *)
  vo_noext : bool             (* ProhibitExtensionsWithRef *)
}.

(* how a child is validated: through its *Ref wrapper's Validate (sibling-field check, resolved
   check, then the value), through the value only (schemas nested in schemas), or as a plain
   value *)
Inductive vmode := MRef | MVal | MDirect.

(* ---- attribute access ---- *)
Definition astr (a : list (string * json)) (k : string) : string :=
  match assoc k a with Some (JStr s) => s | _ => "" end.
Definition abool (a : list (string * json)) (k : string) : bool :=
  match assoc k a with Some (JBool b) => b | _ => false end.
Definition ahas (a : list (string * json)) (k : string) : bool :=
  match assoc k a with Some _ => true | None => false end.
Definition astrs (a : list (string * json)) (k : string) : list string :=
  match assoc k a with
  | Some (JArr l) => flat_map (fun j => match j with JStr s => [s] | _ => [] end) l
  | _ => []
  end.
(* an oracle outcome that is absent means "no check at this site" *)
Definition aok (a : list (string * json)) (k : string) : bool :=
  match assoc k a with Some (JBool b) => b | _ => true end.

Definition kids_of (lbl : string) (ks : list (string * string * dnode)) : list (string * dnode) :=
  flat_map (fun x => match x with (l, key, c) => if String.eqb l lbl then [(key, c)] else [] end) ks.
Definition has_kid (lbl : string) (ks : list (string * string * dnode)) : bool :=
  match kids_of lbl ks with [] => false | _ => true end.

Fixpoint nodup_l (l : list string) : bool :=
  match l with [] => true | x :: r => negb (str_in x r) && nodup_l r end.
Fixpoint dedup (l : list string) : list string :=
  match l with [] => [] | x :: r => if str_in x r then dedup r else x :: dedup r end.

(* ---- strings ---- *)
Definition is_ext (s : string) : bool := String.prefix "x-" s.
Fixpoint count_char (c : ascii) (s : string) : nat :=
  match s with EmptyString => 0 | String d r => (if Ascii.eqb c d then 1 else 0) + count_char c r end.
Fixpoint contains (sub s : string) : bool :=
  String.prefix sub s || match s with EmptyString => false | String _ r => contains sub r end.
Definition ident_char (c : ascii) : bool :=
  let n := N_of_ascii c in
  ((N.leb 97 n && N.leb n 122) || (N.leb 65 n && N.leb n 90) || (N.leb 48 n && N.leb n 57)
   || N.eqb n 46 || N.eqb n 95 || N.eqb n 45)%bool.
Fixpoint all_chars (p : ascii -> bool) (s : string) : bool :=
  match s with EmptyString => true | String c r => p c && all_chars p r end.
(* IdentifierRegExp ^[a-zA-Z0-9._-]+$ *)
Definition ident_ok (s : string) : bool :=
  match s with EmptyString => false | _ => all_chars ident_char s end.

(* normalizeTemplatedPath: the names between braces *)
Fixpoint tpl_vars_go (s : string) (invar : bool) (cur : string) : list string :=
  match s with
  | EmptyString => []
  | String c r =>
      if invar then
        if Ascii.eqb c "}" then cur :: tpl_vars_go r false ""
        else tpl_vars_go r true (cur ++ String c "")
      else if Ascii.eqb c "{" then tpl_vars_go r true ""
      else tpl_vars_go r false ""
  end.
Definition tpl_vars (path : string) : list string := dedup (tpl_vars_go path false "").
(* normalizeTemplatedPath: the template with the variable names taken out ("/a/{x}/b" -> "/a/{}/b") *)
Fixpoint norm_tpl (s : string) (invar : bool) : string :=
  match s with
  | EmptyString => ""
  | String c r =>
      if invar then
        if Ascii.eqb c "}" then String c (norm_tpl r false) else norm_tpl r true
      else if Ascii.eqb c "{" then String c (norm_tpl r true)
      else String c (norm_tpl r false)
  end.

(* ---- the extension-field rule (validateExtensions) ---- *)
Definition ext_ok (o : vopts) (a : list (string * json)) : bool :=
  forallb (fun f => is_ext f || str_in f (vo_allowed o)) (astrs a "#unknown").

(* ---- the *Ref wrapper ---- *)
Definition sibling_ok (o : vopts) (f : string) : bool :=
  str_in f (vo_allowed o) || (is_ext f && negb (vo_noext o)).
Definition ref_ok (o : vopts) (m : vmode) (r : refinfo) : bool :=
  match r with
  | RNone => true
  | RRef res sib => res && match m with MRef => forallb (sibling_ok o) sib | _ => true end
  end.

(* ---- parameter serialisation ---- *)
Definition eff_style (inn style : string) : string :=
  if String.eqb style "" then
    (if String.eqb inn "query" || String.eqb inn "cookie" then "form" else "simple")
  else style.
Definition eff_explode (inn : string) (a : list (string * json)) : bool :=
  match assoc "explode" a with
  | Some (JBool b) => b
  | _ => String.eqb inn "query" || String.eqb inn "cookie"
  end.
(* the switch of Parameter.Validate, case by case *)
Definition sm_table : list (string * string * bool) :=
  [("path","simple",false); ("path","simple",true); ("path","label",false); ("path","label",true);
   ("path","matrix",false); ("path","matrix",true);
   ("query","form",true); ("query","form",false); ("query","spaceDelimited",true);
   ("query","spaceDelimited",false); ("query","pipeDelimited",true); ("query","pipeDelimited",false);
   ("query","deepObject",true);
   ("header","simple",false); ("header","simple",true);
   ("cookie","form",false); ("cookie","form",true)].
Definition sm_supported (inn style : string) (explode : bool) : bool :=
  existsb (fun t => match t with (i, s, e) => String.eqb i inn && String.eqb s style && Bool.eqb e explode end) sm_table.

(* which example mode applies at an example check: plain, as request, as response *)
Inductive exmode := XN | XQ | XS.
Definition ex_attr (pre : string) (st : exmode) : string :=
  (pre ++ match st with XQ => "req" | XS => "res" | XN => "none" end)%string.

(* validateExampleValue over the Example children of a parameter / media type *)
Definition examples_ok (st : exmode) (ks : list (string * string * dnode)) : bool :=
  forallb (fun kc => let a := nd_attrs (snd kc) in
                     (* an example that only names an external value has nothing to compare *)
                     (negb (ahas a "#has_value") && negb (String.eqb (astr a "externalValue") ""))
                     || aok a (ex_attr "#val_" st))
          (kids_of "examples" ks).

Definition known_string_formats : list string :=
  ["byte";"binary";"date";"date-time";"password";"iri";"iri-reference";"uri-template";"idn-email";
   "idn-hostname";"json-pointer";"relative-json-pointer";"regex";"time";"duration";"uuid";"email";
   "hostname";"ipv4";"ipv6";"uri";"uri-reference"].

Definition resolved (r : refinfo) : bool := match r with RRef false _ => false | _ => true end.

(* names of the resolved path parameters in a parameter list *)
Definition path_param_names (ks : list (string * string * dnode)) : list string :=
  flat_map (fun kc => let c := snd kc in
              if resolved (nd_ref c) && String.eqb (astr (nd_attrs c) "in") "path"
              then [astr (nd_attrs c) "name"] else [])
           (kids_of "parameters" ks).

(* Paths.Validate: "must define exactly all path parameters", checked only when the counts differ *)
Definition path_params_ok (path : string) (item : dnode) : bool :=
  let vars := tpl_vars path in
  let common := path_param_names (nd_kids item) in
  forallb (fun kc =>
             let defined := path_param_names (nd_kids (snd kc)) ++ common in
             Nat.eqb (List.length defined) (List.length vars)
             || (forallb (fun d => str_in d vars) defined && forallb (fun v => str_in v defined) vars))
          (kids_of "operations" (nd_kids item)).

Definition operation_ids (paths_kids : list (string * string * dnode)) : list string :=
  flat_map (fun kc =>
              flat_map (fun oc => let i := astr (nd_attrs (snd oc)) "operationId" in
                                  if String.eqb i "" then [] else [i])
                       (kids_of "operations" (nd_kids (snd kc))))
           (kids_of "items" paths_kids).

Definition starts_slash (p : string) : bool := String.prefix "/" p.

(* OAuthFlow.validate(typ) *)
Definition flow_ok (typ : string) (a : list (string * json)) : bool :=
  let in_auth := String.eqb typ "implicit" || String.eqb typ "authorizationCode" in
  let in_tok := String.eqb typ "password" || String.eqb typ "clientCredentials" || String.eqb typ "authorizationCode" in
  let au := astr a "authorizationUrl" in
  let tu := astr a "tokenUrl" in
  (if String.eqb au "" then negb in_auth else in_auth && aok a "#auth_ok")
  && (if String.eqb tu "" then negb in_tok else in_tok && aok a "#token_ok").

(* the process-wide format registries (SchemaNumberFormats / SchemaIntegerFormats / SchemaStringFormats):
   the names the harness registers with Define*FormatValidator before validating, one per registry *)
Definition registered_number_formats : list string := ["x-num"].
Definition registered_integer_formats : list string := ["x-int"].
Definition registered_string_formats : list string := ["x-str"].

(* ---- the rules each kind's Validate applies to the object itself ---- *)
Definition is_k (k x : string) : bool := String.eqb k x.

Definition schema_type_ok (o : vopts) (a : list (string * json)) (ks : list (string * string * dnode)) : bool :=
  let t := astr a "type" in
  let f := astr a "format" in
  if negb (ahas a "type") then true
  else if is_k t "boolean" || is_k t "object" then true
  else if is_k t "number" then String.eqb f "" || str_in f ["float";"double"] || str_in f registered_number_formats || negb (vo_fmt o)
  else if is_k t "integer" then String.eqb f "" || str_in f ["int32";"int64"] || str_in f registered_integer_formats || negb (vo_fmt o)
  else if is_k t "string" then
    (String.eqb f "" || str_in f known_string_formats || str_in f registered_string_formats || negb (vo_fmt o))
    && (vo_nopat o || aok a "#pat_ok")
  else if is_k t "array" then has_kid "items" ks
  else false.

Definition local (o : vopts) (st : exmode) (n : dnode) : bool :=
  match n with
  | DN k r a ks =>
      if is_k k "Doc" then
        negb (String.eqb (astr a "openapi") "") && has_kid "info" ks && has_kid "paths" ks && ext_ok o a
      else if is_k k "Components" then
        forallb (fun x => match x with (_, key, _) => ident_ok key end) ks && ext_ok o a
      else if is_k k "Info" then
        negb (String.eqb (astr a "version") "") && negb (String.eqb (astr a "title") "") && ext_ok o a
      else if is_k k "License" then negb (String.eqb (astr a "name") "") && ext_ok o a
      else if is_k k "Paths" then
        forallb (fun kc => starts_slash (fst kc) && path_params_ok (fst kc) (snd kc)) (kids_of "items" ks)
        && nodup_l (map (fun kc => norm_tpl (fst kc) false) (kids_of "items" ks))    (* conflicting paths *)
        && nodup_l (operation_ids ks) && ext_ok o a
      else if is_k k "PathItem" then
        nodup_l (map (fun kc => (astr (nd_attrs (snd kc)) "in" ++ ":" ++ astr (nd_attrs (snd kc)) "name")%string)
                     (filter (fun kc => resolved (nd_ref (snd kc))) (kids_of "parameters" ks)))
        && ext_ok o a
      else if is_k k "Operation" then
        nodup_l (map (fun kc => (astr (nd_attrs (snd kc)) "in" ++ ":" ++ astr (nd_attrs (snd kc)) "name")%string)
                     (filter (fun kc => resolved (nd_ref (snd kc))) (kids_of "parameters" ks)))
        && has_kid "responses" ks && ext_ok o a
      else if is_k k "Parameter" then
        let inn := astr a "in" in
        negb (String.eqb (astr a "name") "")
        && str_in inn ["path";"query";"header";"cookie"]
        && (negb (String.eqb inn "path") || abool a "required")
        && sm_supported inn (eff_style inn (astr a "style")) (eff_explode inn a)
        && negb (Bool.eqb (negb (has_kid "schema" ks)) (Nat.eqb (List.length (kids_of "content" ks)) 0))
        && Nat.leb (List.length (kids_of "content" ks)) 1
        && negb (ahas a "#has_example" && ahas a "#has_examples")
        && (if has_kid "schema" ks then
              (if vo_noex o then true
                  else (if ahas a "#has_example" then aok a (ex_attr "#ex_" st) else examples_ok st ks))
              && ext_ok o a
            else ext_ok o a)
      else if is_k k "Header" then
        String.eqb (astr a "name") "" && String.eqb (astr a "in") ""
        && sm_supported "header" (eff_style "header" (astr a "style")) (eff_explode "header" a)
        && negb (Bool.eqb (negb (has_kid "schema" ks)) (Nat.eqb (List.length (kids_of "content" ks)) 0))
        && Nat.leb (List.length (kids_of "content" ks)) 1
        && negb (ahas a "#has_example" && ahas a "#has_examples")
        && (if has_kid "schema" ks && negb (vo_noex o)
            then (if ahas a "#has_example" then aok a (ex_attr "#ex_" st) else examples_ok st ks)
            else true)
        && ext_ok o a
      else if is_k k "MediaType" then
        negb (ahas a "#has_example" && ahas a "#has_examples")
        && (if has_kid "schema" ks then (vo_noex o || (aok a (ex_attr "#ex_" st) && examples_ok st ks)) else true)
        && ext_ok o a
      else if is_k k "RequestBody" then ahas a "#has_content" && ext_ok o a
      else if is_k k "Responses" then has_kid "items" ks && ext_ok o a
      else if is_k k "Response" then ahas a "#has_description" && ext_ok o a
      else if is_k k "Schema" then
        negb (abool a "readOnly" && abool a "writeOnly")
        && schema_type_ok o a ks
        && (vo_nodef o || aok a "#def_ok")
        && (vo_noex o || aok a (ex_attr "#ex_" st))
        && ext_ok o a
      else if is_k k "Example" then
        negb (ahas a "#has_value" && negb (String.eqb (astr a "externalValue") ""))
        && (ahas a "#has_value" || negb (String.eqb (astr a "externalValue") ""))
        && ext_ok o a
      else if is_k k "Link" then
        negb (String.eqb (astr a "operationId") "" && String.eqb (astr a "operationRef") "")
        && negb (negb (String.eqb (astr a "operationId") "") && negb (String.eqb (astr a "operationRef") ""))
        && ext_ok o a
      else if is_k k "SecurityScheme" then
        let t := astr a "type" in
        let has_in := is_k t "apiKey" in
        let has_bf := is_k t "http" && String.eqb (astr a "scheme") "bearer" in
        let has_flow := is_k t "oauth2" in
        str_in t ["apiKey";"http";"oauth2";"openIdConnect"]
        && (negb (is_k t "http") || str_in (astr a "scheme") ["bearer";"basic";"negotiate";"digest"])
        && (negb (is_k t "openIdConnect") || negb (String.eqb (astr a "openIdConnectUrl") ""))
        && (if has_in then str_in (astr a "in") ["query";"header";"cookie"] && negb (String.eqb (astr a "name") "")
            else String.eqb (astr a "in") "" && String.eqb (astr a "name") "")
        && (has_bf || String.eqb (astr a "bearerFormat") "")
        && Bool.eqb has_flow (has_kid "flows" ks)
        && ext_ok o a
      else if is_k k "OAuthFlows" then
        forallb (fun x => match x with (lbl, _, c) => flow_ok lbl (nd_attrs c) end) ks && ext_ok o a
      else if is_k k "OAuthFlow" then
        aok a "#refresh_ok" && ahas a "#has_scopes" && ext_ok o a
      else if is_k k "Server" then
        let u := astr a "url" in
        negb (String.eqb u "")
        && Nat.eqb (count_char "{" u) (count_char "}" u)
        && Nat.eqb (count_char "{" u) (List.length (kids_of "variables" ks))
        && forallb (fun kc => contains ("{" ++ fst kc ++ "}") u) (kids_of "variables" ks)
        && ext_ok o a
      else if is_k k "ServerVariable" then negb (String.eqb (astr a "default") "") && ext_ok o a
      else if is_k k "ExternalDocs" then negb (String.eqb (astr a "url") "") && aok a "#url_ok" && ext_ok o a
      else if is_k k "SecurityRequirement" then true
      else (* Contact, Callback, Tag, Discriminator, XML, Encoding *) ext_ok o a
  end.

(* ---- the descent: which children each Validate visits, in code order, and how ---- *)
Definition edges (o : vopts) (n : dnode) : list (string * vmode) :=
  match n with
  | DN k r a ks =>
      if is_k k "Doc" then [("components", MDirect); ("info", MDirect); ("paths", MDirect); ("security", MDirect);
                            ("servers", MDirect); ("tags", MDirect); ("externalDocs", MDirect)]
      else if is_k k "Components" then
        [("schemas", MRef); ("parameters", MRef); ("requestBodies", MRef); ("responses", MRef); ("headers", MRef);
         ("securitySchemes", MRef); ("examples", MRef); ("links", MRef); ("callbacks", MRef)]
      else if is_k k "Info" then [("contact", MDirect); ("license", MDirect)]
      else if is_k k "Paths" then [("items", MDirect)]
      else if is_k k "PathItem" then [("operations", MDirect); ("parameters", MRef)]
      else if is_k k "Operation" then [("parameters", MRef); ("requestBody", MRef); ("responses", MDirect); ("externalDocs", MDirect)]
      else if is_k k "Parameter" then
        [("content", MDirect); ("schema", MRef)]
        ++ (if has_kid "schema" ks && negb (vo_noex o) && negb (ahas a "#has_example") then [("examples", MRef)] else [])
      else if is_k k "Header" then
        [("schema", MRef); ("content", MDirect)]
        ++ (if has_kid "schema" ks && negb (vo_noex o) && negb (ahas a "#has_example") then [("examples", MRef)] else [])
      else if is_k k "MediaType" then
        [("schema", MRef)] ++ (if has_kid "schema" ks && negb (vo_noex o) then [("examples", MRef)] else [])
      else if is_k k "RequestBody" then [("content", MDirect)]
      else if is_k k "Responses" then [("items", MRef)]
      else if is_k k "Response" then [("content", MDirect); ("headers", MRef); ("links", MRef)]
      else if is_k k "Schema" then
        [("oneOf", MVal); ("anyOf", MVal); ("allOf", MVal); ("not", MVal); ("items", MVal); ("properties", MVal);
         ("additionalProperties", MVal); ("externalDocs", MDirect)]
      else if is_k k "Callback" then [("items", MDirect)]
      else if is_k k "SecurityScheme" then [("flows", MDirect)]
      else if is_k k "OAuthFlows" then [("implicit", MDirect); ("password", MDirect); ("clientCredentials", MDirect);
                                        ("authorizationCode", MDirect)]
      else if is_k k "Server" then [("variables", MDirect)]
      else if is_k k "Tag" then [("externalDocs", MDirect)]
      else []
  end.

(* RequestBody.Validate / Response.Validate write the example mode into the options struct, which
   only persists when the caller passed options (otherwise getValidationOptions hands out a fresh
   struct every time) *)
Definition enter (o : vopts) (k : string) (st : exmode) : exmode :=
  if vo_has o && negb (vo_noex o) then
    (if is_k k "RequestBody" then XQ else if is_k k "Response" then XS else st)
  else st.

(* the first error stops validation; the verdict is the conjunction.  The example mode is threaded
   through the traversal in code order. *)
Fixpoint validate (o : vopts) (m : vmode) (st : exmode) (n : dnode) {struct n} : bool * exmode :=
  match n with
  | DN k r a ks =>
      if negb (resolved r) then (false, st)
      else
        let st1 := enter o k st in
        let fix go_edges (es : list (string * vmode)) (acc : bool * exmode) {struct es} : bool * exmode :=
          match es with
          | [] => acc
          | e :: es' =>
              let fix go_kids (l : list (string * string * dnode)) (acc : bool * exmode) {struct l} : bool * exmode :=
                match l with
                | [] => acc
                | (lbl, _, c) :: l' =>
                    if String.eqb lbl (fst e) then
                      let r := validate o (snd e) (snd acc) c in
                      go_kids l' (fst acc && fst r, snd r)
                    else go_kids l' acc
                end in
              go_edges es' (go_kids ks acc)
          end in
        go_edges (edges o n) (ref_ok o m r && local o st1 n, st1)
  end.

Definition validate_doc (o : vopts) (d : dnode) : bool := fst (validate o MDirect XN d).
