(* JSON values as the library sees them after decoding: numbers are float64 (Coq primitive
   binary64 floats), objects are key-sorted duplicate-free association lists (the harness
   canonicalises, [wf_json] re-checks). *)
From KV Require Import Model.Base.
From Coq Require Export Floats.

Inductive json :=
| JNull
| JBool (b : bool)
| JNum (x : float)
| JStr (s : string)
| JArr (l : list json)
| JObj (l : list (string * json)).

Definition two52 : float := 0x1p+52%float.
Definition f_is_nan (x : float) : bool := PrimFloat.is_nan x.
Definition f_is_inf (x : float) : bool := PrimFloat.is_infinity x.
(* big.NewFloat(x).IsInt() for non-NaN x: finite and integral *)
Definition f_is_int (x : float) : bool :=
  negb (f_is_nan x) && negb (f_is_inf x) &&
  (let y := PrimFloat.abs x in
   if PrimFloat.leb two52 y then true
   else PrimFloat.eqb (PrimFloat.sub (PrimFloat.add y two52) two52) y).
(* Go == on float64 *)
Definition f_eqb (x y : float) : bool := PrimFloat.eqb x y.
(* same JSON text under encoding/json: same value and same sign of zero *)
Definition f_same_text (x y : float) : bool :=
  PrimFloat.eqb x y && PrimFloat.eqb (PrimFloat.div 1 x) (PrimFloat.div 1 y).
Definition f_is_negzero (x : float) : bool :=
  PrimFloat.eqb x 0 && PrimFloat.ltb (PrimFloat.div 1 x) 0.

Section EQ.
  Variable num_eq : float -> float -> bool.
  Fixpoint json_eq_gen (a b : json) {struct a} : bool :=
    match a, b with
    | JNull, JNull => true
    | JBool x, JBool y => Bool.eqb x y
    | JNum x, JNum y => num_eq x y
    | JStr x, JStr y => String.eqb x y
    | JArr l, JArr m =>
        (fix go (l m : list json) {struct l} : bool :=
           match l, m with
           | [], [] => true
           | x :: l', y :: m' => json_eq_gen x y && go l' m'
           | _, _ => false
           end) l m
    | JObj l, JObj m =>
        (fix go (l : list (string * json)) (m : list (string * json)) {struct l} : bool :=
           match l, m with
           | [], [] => true
           | (k, x) :: l', (k', y) :: m' => String.eqb k k' && json_eq_gen x y && go l' m'
           | _, _ => false
           end) l m
    | _, _ => false
    end.
End EQ.
(* reflect.DeepEqual on decoded JSON (numbers by ==) *)
Definition json_eqb : json -> json -> bool := json_eq_gen f_eqb.
(* equality of the encoding/json text (what the uniqueItems check compares) *)
Definition json_text_eqb : json -> json -> bool := json_eq_gen f_same_text.

Fixpoint json_in (eq : json -> json -> bool) (x : json) (l : list json) : bool :=
  match l with [] => false | y :: r => eq x y || json_in eq x r end.
Fixpoint json_nodup (eq : json -> json -> bool) (l : list json) : bool :=
  match l with [] => true | x :: r => negb (json_in eq x r) && json_nodup eq r end.

(* number of characters: UTF-8 lead bytes (the harness only produces valid UTF-8) *)
Fixpoint ulen (s : string) : N :=
  match s with
  | EmptyString => 0
  | String c r =>
      let n := N_of_ascii c in
      (if (N.leb 128 n && N.ltb n 192)%bool then 0 else 1) + ulen r
  end%N.

Definition is_null (v : json) : bool := match v with JNull => true | _ => false end.

(* JSON pointer lookup (tokens already unescaped); array tokens are decimal indices *)
Fixpoint digits_to_N (s : string) (acc : N) : option N :=
  match s with
  | EmptyString => Some acc
  | String c r =>
      let n := N_of_ascii c in
      if (N.leb 48 n && N.leb n 57)%bool then digits_to_N r (acc * 10 + (n - 48))%N else None
  end.
Definition parse_index (s : string) : option N :=
  match s with EmptyString => None | _ => digits_to_N s 0 end.

Fixpoint jlookup (v : json) (p : list string) {struct p} : option json :=
  match p with
  | [] => Some v
  | t :: r =>
      match v with
      | JObj l => match assoc t l with Some x => jlookup x r | None => None end
      | JArr l => match parse_index t with
                  | Some i => match nth_error l (N.to_nat i) with Some x => jlookup x r | None => None end
                  | None => None
                  end
      | _ => None
      end
  end.

Fixpoint has_negzero (v : json) : bool :=
  match v with
  | JNum x => f_is_negzero x
  | JArr l => existsb has_negzero l
  | JObj l => existsb (fun kv => has_negzero (snd kv)) l
  | _ => false
  end.

Fixpoint all_finite (v : json) : bool :=
  match v with
  | JNum x => negb (f_is_nan x) && negb (f_is_inf x)
  | JArr l => forallb all_finite l
  | JObj l => forallb (fun kv => all_finite (snd kv)) l
  | _ => true
  end.
