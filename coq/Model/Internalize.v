(* InternalizeRefs (openapi3/internalize_refs.go): the name DefaultRefNameResolver derives for an
   external target, as a string function over clean paths, and the add-to-components step applied
   to every reference position in traversal order.  The descent itself (which positions are
   visited, with which parent-is-external flag) is exercised on the Go side only. *)
From KV Require Import Model.Base Model.DocValidate.
Local Open Scope list_scope.
Local Open Scope string_scope.

(* ---- strings ---- *)
Fixpoint drop (n : nat) (s : string) : string :=
  match n, s with O, _ => s | S n', String _ r => drop n' r | _, EmptyString => "" end.
(* strings.Cut *)
Fixpoint cut (sep s : string) : option (string * string) :=
  if String.prefix sep s then Some ("", drop (String.length sep) s)
  else match s with
       | EmptyString => None
       | String c r => match cut sep r with Some (b, a) => Some (String c b, a) | None => None end
       end.
Definition trim_prefix (p s : string) : string := if String.prefix p s then drop (String.length p) s else s.
(* strings.TrimLeft(s, "./") *)
Fixpoint trim_left_dots (s : string) : string :=
  match s with
  | String c r => if Ascii.eqb c "." || Ascii.eqb c "/" then trim_left_dots r else s
  | EmptyString => ""
  end.
Fixpoint collapse (s : string) : string :=
  match s with
  | String "/" (String "/" r as t) => collapse t
  | String c r => String c (collapse r)
  | EmptyString => ""
  end.
Fixpoint drop_last_slash (s : string) : string :=
  match s with
  | String "/" EmptyString => ""
  | String c r => String c (drop_last_slash r)
  | EmptyString => ""
  end.
(* path.Join of two already clean pieces *)
Definition join2 (a b : string) : string :=
  let j := collapse (a ++ "/" ++ b) in
  if String.eqb j "/" then "/" else drop_last_slash j.

Fixpoint last_slash_split (s : string) (accdir cur : string) : string * string :=
  match s with
  | EmptyString => (accdir, cur)
  | String c r => if Ascii.eqb c "/" then last_slash_split r (accdir ++ cur ++ "/") "" else last_slash_split r accdir (cur ++ String c "")
  end.
(* the final element cut at its first dot: what repeated removal of path.Ext leaves *)
Fixpoint before_dot (s : string) : string :=
  match s with EmptyString => "" | String c r => if Ascii.eqb c "." then "" else String c (before_dot r) end.
Definition strip_exts (p : string) : string :=
  let '(d, f) := last_slash_split p "" "" in d ++ before_dot f.
(* path.Dir of a clean path *)
Definition dir_of (p : string) : string :=
  let '(d, _) := last_slash_split p "" "" in
  if String.eqb d "" then "." else if String.eqb d "/" then "/" else drop_last_slash d.
Fixpoint trim_right_slash (s : string) : string :=
  match s with
  | EmptyString => ""
  | String c r => let t := trim_right_slash r in if Ascii.eqb c "/" && String.eqb t "" then "" else String c t
  end.

Definition sanitize (s : string) : string :=
  (fix go (s : string) : string :=
     match s with
     | EmptyString => ""
     | String c r =>
         let n := N_of_ascii c in
         if (N.leb 128 n && N.ltb n 192)%bool then go r     (* a continuation byte: the regexp replaces per character *)
         else String (if ident_char c then c else "_"%char) (go r)
     end) s.

(* DefaultRefNameResolver for a target outside the root's components *)
Definition name_of (root file frag coll : string) : string :=
  let comp := match cut ("components/" ++ coll) frag with Some (b, a) => join2 b a | None => frag end in
  let fp :=
    if String.eqb file "" then ""
    else
      let f1 := if negb (String.eqb root "") && String.eqb file root then "" else file in
      let f2 := strip_exts f1 in
      if String.eqb root "" then f2
      else let d := dir_of root in
           if String.eqb d "." || String.eqb f2 "" then f2 else trim_prefix (trim_right_slash d) (trim_right_slash f2) in
  let n1 := if String.eqb fp "" then "" else trim_left_dots fp in
  let n2 := if String.eqb comp "" then n1
            else (if String.eqb n1 "" then "" else n1 ++ "_") ++ trim_left_dots comp in
  sanitize n2.

(* ---- the add-to-components step ---- *)
Record xref := mkX { x_coll : string; x_text : string; x_name : string; x_val : N; x_parent_ext : bool }.
Definition is_external (x : xref) : bool :=
  negb (String.eqb (x_text x) "") && (negb (String.prefix "#/components/" (x_text x)) || x_parent_ext x).
Definition ckey := (string * string)%type.
Definition ckey_eqb (a b : ckey) : bool := String.eqb (fst a) (fst b) && String.eqb (snd a) (snd b).
Fixpoint clookup (k : ckey) (l : list (ckey * N)) : option N :=
  match l with [] => None | (k', v) :: r => if ckey_eqb k k' then Some v else clookup k r end.
Definition new_text (x : xref) : string := "#/components/" ++ x_coll x ++ "/" ++ x_name x.
(* add*ToSpec: an existing component of that name is reused, whatever it holds *)
Definition add_to_spec (comps : list (ckey * N)) (x : xref) : list (ckey * N) * string :=
  if is_external x then
    match clookup (x_coll x, x_name x) comps with
    | Some _ => (comps, new_text x)
    | None => ((comps ++ [((x_coll x, x_name x), x_val x)])%list, new_text x)
    end
  else (comps, x_text x).
Fixpoint internalize (comps : list (ckey * N)) (xs : list xref) : list (ckey * N) * list string :=
  match xs with
  | [] => (comps, [])
  | x :: r => let '(c1, t) := add_to_spec comps x in let '(c2, ts) := internalize c1 r in (c2, t :: ts)
  end.
