(* C13: default injection.
   (1) body properties: the mutation visitJSONObject performs on the decoded body when read as a
       request with DefaultsSet (schema.go l.1910-1926), along allOf / properties / items /
       additionalProperties (oneOf / anyOf / not: not modelled here, exercised by the harness's direct
       oracle);
   (2) parameters: ValidateParameter's population of absent query / header / cookie parameters
       (validate_request.go l.172-202) - fmt.Sprint is an oracle [sprint];
   (3) the request-body stream across ValidateRequest (security phase, body phase). *)
From KV Require Import Model.Base Model.Json Model.Schema Model.Request Model.ParamCodec.
Local Open Scope list_scope.

Definition has_default (c : score) : option json :=
  match c_default c with Some JNull => None | d => d end.

(* value[propName] == nil : absent or null *)
Definition lacks (l : list (string * json)) (k : string) : bool :=
  match assoc k l with None | Some JNull => true | Some _ => false end.

Fixpoint set_member (k : string) (v : json) (l : list (string * json)) : list (string * json) :=
  match l with
  | [] => [(k, v)]
  | (k', v') :: r =>
      if String.eqb k k' then (k, v) :: r
      else if String.ltb k k' then (k, v) :: (k', v') :: r    (* keep members sorted *)
      else (k', v') :: set_member k v r
  end.

(* defaults of the declared properties (in sorted order) that the value lacks; read-only ones are
   skipped unless the read-only exclusion is on *)
Fixpoint add_defaults (roOff : bool) (props : list (string * score)) (l : list (string * json)) : list (string * json) :=
  match props with
  | [] => l
  | (k, pc) :: r =>
      let l' := match has_default pc with
                | Some d => if lacks l k && negb (c_readOnly pc && negb roOff) then set_member k d l else l
                | None => l
                end in
      add_defaults roOff r l'
  end.

Fixpoint inject (roOff : bool) (s : schema) (v : json) {struct s} : json :=
  match s with
  | Sch c n one any all it props ap =>
      let v1 := (fix go (l : list schema) (acc : json) : json :=
                   match l with [] => acc | x :: r => go r (inject roOff x acc) end) all v in
      match v1 with
      | JObj l =>
          if permits c "object" then
            let l1 := add_defaults roOff (map (fun kp => (fst kp, core_of (snd kp))) props) l in
            let fs := map (fun kp => (fst kp, inject roOff (snd kp))) props in
            JObj (map (fun kx => match assoc (fst kx) fs with
                                 | Some f => (fst kx, f (snd kx))
                                 | None => match ap with
                                           | Some a => (fst kx, inject roOff a (snd kx))
                                           | None => kx
                                           end
                                 end) l1)
          else v1
      | JArr l =>
          if permits c "array" then
            match it with Some i => JArr (map (inject roOff i) l) | None => v1 end
          else v1
      | _ => v1
      end
  end.

(* ---- parameters ---- *)
Section PDEF.
  Variable sprint : json -> string.     (* fmt.Sprint of a decoded default (scalars) *)

  (* the default in effect: the schema's, overridden by the first allOf member that has one *)
  Definition param_default (s : schema) : option json :=
    match s with
    | Sch c _ _ _ all _ _ _ =>
        match flat_map (fun x => match has_default (core_of x) with Some d => [d] | None => [] end) all with
        | d :: _ => Some d
        | [] => has_default c
        end
    end.

  Definition join_texts (l : list json) : string := join "," (map sprint l).
  (* an object default: its members' texts (members in the object's - sorted - order) *)
  Definition member_texts (l : list (string * json)) : list (string * string) := map (fun kv => (fst kv, sprint (snd kv))) l.
  Definition flat_pairs (kvs : list (string * string)) : string := join "," (flat_map (fun kv => [fst kv; snd kv]) kvs).
  Definition eq_pairs (kvs : list (string * string)) : string := join "," (map (fun kv => (fst kv ++ "=" ++ snd kv)%string) kvs).

  (* the request fragment after population (nothing happens for path parameters) *)
  Definition populate (p : pdef) (f : fragment) (d : json) : fragment :=
    match pd_in p with
    | LPath => f
    | LQuery =>
        (* written the way the parameter's serialization method reads it back: exploded or joined by the
           style's delimiter (before the repair in /repo: `Explode != nil && *Explode`, always ",") *)
        let explode := eff_explode p in
        let st := eff_style p in
        let delim := if String.eqb st "spaceDelimited" then " " else if String.eqb st "pipeDelimited" then "|" else "," in
        let entries := match d with
                       | JArr l => [(pd_name p, if explode then map sprint l else [join delim (map sprint l)])]
                       | JObj l =>
                           (* an object default, member by member (repaired in /repo d5e631d; it was fmt.Sprint of the map) *)
                           if String.eqb st "deepObject" then
                             map (fun kv => ((pd_name p ++ "[" ++ fst kv ++ "]")%string, [snd kv])) (member_texts l)
                           else if explode then map (fun kv => (fst kv, [snd kv])) (member_texts l)
                           else [(pd_name p, [flat_pairs (member_texts l)])]
                       | _ => [(pd_name p, [sprint d])]
                       end in
        mkFrag (f_path f) (f_query f ++ entries) (f_header f) (f_cookie f)
    | LHeader =>
        let t := match d with
                 | JArr l => join_texts l
                 | JObj l => if eff_explode p then eq_pairs (member_texts l) else flat_pairs (member_texts l)
                 | _ => sprint d
                 end in
        mkFrag (f_path f) (f_query f) (f_header f ++ [(pd_name p, [t])]) (f_cookie f)
    | LCookie =>
        let t := match d with JArr l => join_texts l | JObj l => flat_pairs (member_texts l) | _ => sprint d end in
        mkFrag (f_path f) (f_query f) (f_header f) (f_cookie f ++ [(pd_name p, t)])
    end.

  (* ValidateParameter's default-setting step: a default stands in for a parameter the request does
     not carry - not found, no value, no decoding error (a parameter that is present with an empty
     text is found, and left as it is: the repair 0d07618 in /repo) *)
  Definition set_param_default (pi64 pi32 : string -> option Z) (pf : string -> option float)
             (skip : bool) (p : pdef) (f : fragment) : fragment :=
    if skip then f else
    match decode_param pi64 pi32 pf p f with
    | DRes PNil false None =>
        match param_default (pd_schema p) with Some d => populate p f d | None => f end
    | _ => f
    end.
End PDEF.

(* ---- the request body as a stream across ValidateRequest ---- *)
Inductive stream := SFresh (data : string) | SDrained.
Definition read_all (s : stream) : string * stream :=
  match s with SFresh d => (d, SDrained) | SDrained => (EmptyString, SDrained) end.

(* one security requirement: [cb_reads] lists, per scheme call, whether the callback consumes the
   body; outcome: the stream left behind (after the fix: commit, restored on every path) *)
Definition security_requirement (body : stream) (declared_all : bool) (cb_reads : list bool) (has_body : bool) : stream :=
  if has_body then
    let '(data, _) := read_all body in SFresh data     (* restored (deferred) whatever happened in between *)
  else body.

Fixpoint security_phase (body : stream) (reqs : list (bool * list bool)) (has_body : bool) : stream :=
  match reqs with
  | [] => body
  | (decl, cbs) :: r => security_phase (security_requirement body decl cbs has_body) r has_body
  end.

(* ValidateRequestBody: reads, restores; rewrites when defaults were set and validation passed *)
Definition body_phase (body : stream) (has_body : bool) (valid defaults_set : bool) (rewritten : string) : stream :=
  if has_body then
    let '(data, _) := read_all body in
    if valid && defaults_set then SFresh rewritten else SFresh data
  else body.

Definition request_stream (data : string) (has_body : bool) (reqs : list (bool * list bool))
           (body_checked valid defaults_set : bool) (rewritten : string) : stream :=
  let s0 := if has_body then SFresh data else SDrained in
  let s1 := security_phase s0 reqs has_body in
  if body_checked then body_phase s1 has_body valid defaults_set rewritten else s1.
