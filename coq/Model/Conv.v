(* C17: the v2 <-> v3 converter (openapi2conv/openapi2_conv.go).
   (1) reference rewriting ToV3Ref / FromV3Ref as string functions, with the map iteration order
       as a parameter; (2) field-copy tables of the conversion sites (Gen/ConvTables.v) with an
       abstract record copy. *)
From KV Require Import Model.Base Model.Json Model.ParamCodec.
Local Open Scope list_scope.

(* ---- references ---- *)
Definition ref_pairs : list (string * string) :=
  [("#/definitions/", "#/components/schemas/"); ("#/responses/", "#/components/responses/");
   ("#/parameters/", "#/components/parameters/")].

(* strings.Replace(ref, old, new, 1) when strings.HasPrefix(ref, old) *)
Definition swap_prefix (old new ref : string) : string :=
  if String.prefix old ref then (new ++ drop (String.length old) ref)%string else ref.

(* for old, new := range ref2To3 { if HasPrefix(ref, old) { ref = Replace(...) } } in the given order *)
Definition to_v3_ref (order : list (string * string)) (ref : string) : string :=
  fold_left (fun acc p => swap_prefix (fst p) (snd p) acc) order ref.

(* for new, old := range ref2To3 { if HasPrefix(ref, old) {...} else if HasPrefix(ref, requestBodies) {...} } *)
Definition from_v3_ref (order : list (string * string)) (ref : string) : string :=
  fold_left (fun acc p =>
               if String.prefix (snd p) acc then swap_prefix (snd p) (fst p) acc
               else swap_prefix "#/components/requestBodies/" "#/parameters/" acc) order ref.

(* the six orders in which Go may iterate the three-entry map *)
Definition orders : list (list (string * string)) :=
  match ref_pairs with
  | [a; b; c] => [[a; b; c]; [a; c; b]; [b; a; c]; [b; c; a]; [c; a; b]; [c; b; a]]
  | _ => []
  end.

Definition is_v2_ref (r : string) : bool := existsb (fun p => String.prefix (fst p) r) ref_pairs.

(* ---- field copies ---- *)
Record csite := mkCSite {
  cs_fn : string; cs_type : string; cs_n : nat;
  cs_copies : list (string * string)    (* destination field, source field ("" / "(assigned)" otherwise) *)
}.

Definition copies (s : csite) (dst : string) : bool := existsb (fun c => String.eqb (fst c) dst) (cs_copies s).
Definition copies_from (s : csite) (dst src : string) : bool :=
  existsb (fun c => String.eqb (fst c) dst && String.eqb (snd c) src) (cs_copies s).

Fixpoint find_site (fn typ : string) (n : nat) (l : list csite) : option csite :=
  match l with
  | [] => None
  | s :: r => if String.eqb (cs_fn s) fn && String.eqb (cs_type s) typ && Nat.eqb (cs_n s) n then Some s else find_site fn typ n r
  end.

(* an abstract record and the copy a site performs on it (plain field selections only) *)
Definition arecord := list (string * json).
Definition convert (s : csite) (src : arecord) : arecord :=
  flat_map (fun c => match assoc (snd c) src with Some v => [(fst c, v)] | None => [] end) (cs_copies s).

(* the constraint-carrying fields of a schema that exist in both versions *)
Definition schema_constraints : list string :=
  ["Type"; "Format"; "Enum"; "Default"; "Min"; "Max"; "ExclusiveMin"; "ExclusiveMax"; "MultipleOf";
   "MinLength"; "MaxLength"; "Pattern"; "MinItems"; "MaxItems"; "UniqueItems"; "Required"; "MinProps"; "MaxProps";
   "Properties"; "Items"; "AllOf"; "AdditionalProperties"; "ReadOnly"; "Title"; "Description"].
Definition param_constraints_v3 : list string :=   (* ToV3Parameter: openapi2.Schema literal built from the parameter *)
  ["Type"; "Format"; "Enum"; "Default"; "Min"; "Max"; "ExclusiveMin"; "ExclusiveMax"; "MultipleOf";
   "MinLength"; "MaxLength"; "Pattern"; "MinItems"; "MaxItems"; "UniqueItems"; "Items"].
Definition param_fields : list string := ["In"; "Name"; "Required"; "Description"].
Definition param_constraints_v2 : list string :=   (* FromV3Parameter: constraints assigned from the schema *)
  ["Type"; "Format"; "Enum"; "Default"; "Minimum"; "Maximum"; "ExclusiveMin"; "ExclusiveMax"; "MultipleOf";
   "MinLength"; "MaxLength"; "Pattern"; "MinItems"; "MaxItems"; "UniqueItems"; "Items"].

Definition covers (s : option csite) (required : list string) (known_missing : list string) : bool :=
  match s with
  | None => false
  | Some s => forallb (fun f => copies s f || str_in f known_missing) required &&
              forallb (fun f => negb (copies s f)) known_missing
  end.
