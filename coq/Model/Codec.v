(* C03: the record codec every marshalled type of openapi3/ and openapi2/ follows, over a table
   extracted from the Go source (Gen/Marshal.v):
     unmarshal: tagged keys go to fields, everything not explicitly deleted stays in Extensions;
     marshal:   Extensions first, then every key the marshaller writes (conditional ones only when
                the field is non-zero). *)
From KV Require Import Model.Base Model.Json.
Local Open Scope list_scope.

Record tyinfo := mkTyInfo {
  ti_name : string;
  ti_tags : list string;       (* JSON keys of the struct tags *)
  ti_marshal : list string;    (* keys written by MarshalYAML / MarshalJSON *)
  ti_cond : list string;       (* those written only under an `if` (omitted when zero) *)
  ti_deleted : list string     (* keys removed from Extensions by UnmarshalJSON *)
}.

(* `$ref` is marshalled by the reference wrapper, `__origin__` is bookkeeping that is never written *)
Definition special (k : string) : bool := String.eqb k "$ref" || String.eqb k "__origin__".
Definition norm (l : list string) : list string := filter (fun k => negb (special k)) l.
Definition subset (a b : list string) : bool := forallb (fun k => str_in k b) a.
Definition same_set (a b : list string) : bool := subset a b && subset b a.
Fixpoint nodup_l (l : list string) : bool :=
  match l with [] => true | x :: r => negb (str_in x r) && nodup_l r end.

Definition tbl_ok (ti : tyinfo) : bool :=
  nodup_l (ti_tags ti) && nodup_l (ti_marshal ti) && nodup_l (ti_deleted ti) &&
  same_set (norm (ti_tags ti)) (norm (ti_marshal ti)) &&
  same_set (norm (ti_tags ti)) (norm (ti_deleted ti)) &&
  subset (ti_cond ti) (ti_marshal ti).

(* the zero value of a Go field, seen through its JSON encoding *)
Definition jzero (v : json) : bool :=
  match v with
  | JNull => true | JBool false => true | JStr "" => true | JArr [] => true | JObj [] => true
  | JNum x => PrimFloat.eqb x 0
  | _ => false
  end.

Record record := mkRecord { r_fields : list (string * json); r_ext : list (string * json) }.

Definition unmarshal (ti : tyinfo) (j : list (string * json)) : record :=
  mkRecord (filter (fun kv => str_in (fst kv) (ti_tags ti)) j)
           (filter (fun kv => negb (str_in (fst kv) (ti_deleted ti))) j).

Definition emit (ti : tyinfo) (r : record) (k : string) : list (string * json) :=
  match assoc k (r_fields r) with
  | Some v => if str_in k (ti_cond ti) && jzero v then [] else [(k, v)]
  | None => []
  end.
Definition marshal (ti : tyinfo) (r : record) : list (string * json) :=
  r_ext r ++ flat_map (emit ti r) (ti_marshal ti).

(* normal form: no explicitly written zero value for a key the marshaller omits when zero, and no
   `$ref` sibling business at this level *)
Definition normal (ti : tyinfo) (j : list (string * json)) : bool :=
  forallb (fun kv => negb (str_in (fst kv) (ti_cond ti) && jzero (snd kv))) j &&
  forallb (fun kv => negb (special (fst kv))) j.
