(* Content.Get (openapi3/content.go l.62-105) and Responses.Status (openapi3/response.go l.64-77)
   as pure string functions over association lists (maps with unique keys). *)
From KV Require Import Model.Base.
Local Open Scope list_scope.

Definition semicolon : ascii := ascii_of_N 59.
Definition slash : ascii := ascii_of_N 47.

(* prefix of s before the first occurrence of c; the whole of s when c does not occur *)
Fixpoint before (c : ascii) (s : string) : string :=
  match s with
  | EmptyString => EmptyString
  | String a r => if Ascii.eqb a c then EmptyString else String a (before c r)
  end.
Fixpoint has_char (c : ascii) (s : string) : bool :=
  match s with
  | EmptyString => false
  | String a r => Ascii.eqb a c || has_char c r
  end.

Section CONTENT.
  Context {A : Type}.
  Variable content : list (string * A).

  Definition content_get (mime : string) : option A :=
    if String.eqb mime "" then assoc "*/*" content else
    match assoc mime content with
    | Some v => Some v
    | None =>
        let m1 := before semicolon mime in
        match assoc m1 content with
        | Some v => Some v
        | None =>
            if negb (has_char slash m1) then None else
            match assoc (before slash m1 ++ "/*") content with
            | Some v => Some v
            | None => assoc "*/*" content
            end
        end
    end.
End CONTENT.

(* decimal text of a non-negative status code *)
Fixpoint pos_digits (fuel : nat) (n : N) (acc : string) : string :=
  match fuel with
  | O => acc
  | S f => let d := String (ascii_of_N (48 + N.modulo n 10)) acc in
           if N.ltb n 10 then d else pos_digits f (N.div n 10) d
  end.
Definition status_text (n : N) : string := pos_digits 25 n "".

Section STATUS.
  Context {A : Type}.
  Variable responses : list (string * A).

  Definition class_key (n : N) : string :=
    String (ascii_of_N (48 + N.div n 100)) "XX".

  (* Responses.Status *)
  Definition status_lookup (n : N) : option A :=
    match assoc (status_text n) responses with
    | Some r => Some r
    | None => if N.ltb 99 n && N.ltb n 600 then assoc (class_key n) responses else None
    end.

  (* what ValidateResponse selects: Status, then Default *)
  Definition select_response (n : N) : option A :=
    match status_lookup n with
    | Some r => Some r
    | None => assoc "default" responses
    end.
End STATUS.

(* decodeBody (req_resp_decoder.go l.1238): the decoder is chosen by the Content-Type text cut at
   the first ';' (no trimming, no case folding) among the registered decoders.  JSON text parsing
   itself is an oracle: [parsed] is what encoding/json yields for the body (None: syntax error). *)
Inductive dkind := DJson | DPlain | DOtherRegistered | DUnsupported.
Definition json_types : list string :=
  ["application/json"; "application/json-patch+json"; "application/ld+json"; "application/hal+json";
   "application/vnd.api+json"; "application/problem+json"].
Definition other_types : list string :=
  ["application/octet-stream"; "application/x-www-form-urlencoded"; "application/x-yaml"; "application/yaml";
   "multipart/form-data"; "text/csv"].
Definition decoder_kind (ct : string) : dkind :=
  let mt := before semicolon ct in
  if str_in mt json_types then DJson
  else if String.eqb mt "text/plain" then DPlain
  else if str_in mt other_types then DOtherRegistered
  else DUnsupported.
