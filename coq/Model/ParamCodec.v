(* Model of the styled-parameter decoder of openapi3filter/req_resp_decoder.go:
   decodeStyledParameter -> decodeValue -> {path,query,header,cookie} x {primitive,array,object}
   -> cutPrefix / strings.Split / propsFromString / parseArray / parsePrimitive / makeObject (flat),
   and the presence logic of ValidateParameter (validate_request.go l.142-232).
   Not modelled (the harness does not generate them): deepObject nesting, allOf/anyOf/oneOf on
   parameter schemas, content-defined parameters.  strconv.ParseInt/ParseFloat are oracles. *)
From KV Require Import Model.Base Model.Json Model.Schema Model.Request.
Local Open Scope list_scope.

(* decoded values, with the Go dynamic type of numbers *)
Inductive pval :=
| PNil | PI64 (z : Z) | PI32 (z : Z) | PF (x : float) | PB (b : bool) | PS (s : string)
| PA (l : list pval) | PO (l : list (string * pval)).

Inductive derr := DParse | DOther.
Inductive dres := DRes (v : pval) (found : bool) (e : option derr) | DPanic (w : string).

(* ---- strings.Split with a non-empty separator: leftmost non-overlapping matches ---- *)
Fixpoint split_aux (d : string) (s : string) (skip : nat) (cur : string) : list string :=
  match s with
  | EmptyString => [cur]
  | String c r =>
      match skip with
      | S k => split_aux d r k cur
      | O => if String.prefix d s
             then cur :: split_aux d r (String.length d - 1) EmptyString
             else split_aux d r 0 (cur ++ String c EmptyString)%string
      end
  end.
Definition split (d s : string) : list string := split_aux d s 0 EmptyString.

Fixpoint join (d : string) (l : list string) : string :=
  match l with
  | [] => EmptyString
  | [x] => x
  | x :: r => (x ++ d ++ join d r)%string
  end.

(* cutPrefix *)
Fixpoint drop (n : nat) (s : string) : string :=
  match n, s with
  | O, _ => s
  | S k, String _ r => drop k r
  | S _, EmptyString => EmptyString
  end.
Definition cut_prefix (raw p : string) : option string :=
  if String.prefix p raw then Some (drop (String.length p) raw) else None.

(* map[string]string built by assignment: later bindings overwrite earlier ones *)
Fixpoint upd {A} (k : string) (v : A) (l : list (string * A)) : list (string * A) :=
  match l with
  | [] => [(k, v)]
  | (k', v') :: r => if String.eqb k k' then (k, v) :: r else (k', v') :: upd k v r
  end.

Fixpoint pairs_even (l : list string) (acc : list (string * string)) : list (string * string) :=
  match l with
  | k :: v :: r => pairs_even r (upd k v acc)
  | _ => acc
  end.

(* propsFromString: None = ParseError *)
Definition props_from_string (src pd vd : string) : option (list (string * string)) :=
  let ps := split pd src in
  if String.eqb pd vd then
    if Nat.even (List.length ps) then Some (pairs_even ps []) else None
  else
    fold_left (fun acc pair =>
                 match acc with
                 | None => None
                 | Some m => match split vd pair with
                             | [k; v] => Some (upd k v m)
                             | _ => None
                             end
                 end) ps (Some []).

Section CODEC.
  Variable parse_int64 parse_int32 : string -> option Z.
  Variable parse_float : string -> option float.

  Definition parse_bool (s : string) : option bool :=
    if str_in s ["1"; "t"; "T"; "TRUE"; "true"; "True"] then Some true
    else if str_in s ["0"; "f"; "F"; "FALSE"; "false"; "False"] then Some false else None.

  Inductive pres := PROk (v : pval) | PRErr (e : derr).

  Definition parse_case (raw fmt typ : string) : pres :=
    if String.eqb typ "integer" then
      if String.eqb fmt "int32" then
        match parse_int32 raw with Some z => PROk (PI32 z) | None => PRErr DParse end
      else match parse_int64 raw with Some z => PROk (PI64 z) | None => PRErr DParse end
    else if String.eqb typ "number" then
      match parse_float raw with Some x => PROk (PF x) | None => PRErr DParse end
    else if String.eqb typ "boolean" then
      match parse_bool raw with Some b => PROk (PB b) | None => PRErr DParse end
    else if String.eqb typ "string" then PROk (PS raw)
    else PRErr DParse.  (* "schema has non primitive type": a ParseError of kind other *)

  (* parsePrimitive: first type that parses; the last error otherwise; nil for "" or no type *)
  Fixpoint parse_types (raw fmt : string) (types : list string) (last : pres) : pres :=
    match types with
    | [] => last
    | t :: r => match parse_case raw fmt t with
                | PROk v => PROk v
                | e => parse_types raw fmt r e
                end
    end.
  Definition parse_primitive (raw : string) (c : score) : pres :=
    if String.eqb raw "" then PROk PNil
    else parse_types raw (c_format c) (match c_types c with Some l => l | None => [] end) (PROk PNil).

  (* parseArray: an item that parses to nil makes the whole array nil *)
  Fixpoint parse_array (raw : list string) (item : score) (acc : list pval) : pres :=
    match raw with
    | [] => PROk (PA acc)
    | x :: r => match parse_primitive x item with
                | PROk PNil => PROk PNil
                | PROk v => parse_array r item (acc ++ [v])
                | PRErr e => PRErr e
                end
    end.

  (* makeObject + buildResObj for a flat object: declared primitive properties, then the
     additionalProperties schema for every key that is not declared; without such a schema
     undeclared keys are dropped *)
  Definition build_prop (props : list (string * string)) (k : string) (c : score) : option pres :=
    match assoc k props with
    | None => None
    | Some raw => Some (parse_primitive raw c)
    end.
  Fixpoint build_props (props : list (string * string)) (decl : list (string * score)) (acc : list (string * pval))
    : option (list (string * pval)) :=   (* None = ParseError *)
    match decl with
    | [] => Some acc
    | (k, c) :: r =>
        match build_prop props k c with
        | None => build_props props r acc
        | Some (PROk PNil) => build_props props r acc
        | Some (PROk v) => build_props props r (upd k v acc)
        | Some (PRErr _) => None
        end
    end.
  Definition make_object (props : list (string * string)) (decl : list (string * score)) (ap : option score)
    : option (list (string * pval)) :=
    match build_props props decl [] with
    | None => None
    | Some m =>
        match ap with
        | None => Some m
        | Some c =>
            (* an empty member name makes buildResObj look at the whole map: ParseError *)
            if existsb (fun kv => String.eqb (fst kv) "") props then None
            else build_props props (map (fun kv => (fst kv, c))
                                        (filter (fun kv => negb (str_in (fst kv) (map fst decl))) props)) m
        end
    end.

  Definition is_type (c : score) (t : string) : bool :=
    match c_types c with Some [x] => String.eqb x t | _ => false end.

  Inductive shape := ShPrim | ShArr (item : option score) | ShObj (decl : list (string * score)) (ap : option score) | ShNoType.
  Definition shape_of (s : schema) : shape :=
    match s with
    | Sch c _ _ _ _ it props ap =>
        match c_types c with
        | None => ShNoType
        | Some _ =>
            if is_type c "array" then ShArr (option_map core_of it)
            else if is_type c "object" then ShObj (map (fun kp => (fst kp, core_of (snd kp))) props) (option_map core_of ap)
            else ShPrim
        end
    end.

  Definition of_pres (found : bool) (r : pres) : dres :=
    match r with PROk v => DRes v found None | PRErr e => DRes PNil found (Some e) end.
  (* decodeValue wraps DecodeArray: an empty result is nil *)
  Definition arr_result (found : bool) (r : pres) : dres :=
    match r with
    | PROk (PA []) => DRes PNil found None
    | PROk v => DRes v found None
    | PRErr e => DRes PNil found (Some e)
    end.
  Definition obj_result (found : bool) (o : option (list (string * pval))) : dres :=
    match o with Some m => DRes (PO m) found None | None => DRes PNil found (Some DParse) end.

  Definition decode_array_from (found : bool) (parts : list string) (item : option score) : dres :=
    match item with
    | None => DPanic "array schema without items"
    | Some ic => arr_result found (parse_array parts ic [])
    end.

  (* ---------------- path ---------------- *)
  Definition semi := String (ascii_of_N 59) EmptyString.
  Definition path_decode (name style : string) (explode : bool) (s : schema) (pp : list (string * string)) : dres :=
    match pp with [] => DRes PNil false None | _ =>
    let c := core_of s in
    let raw_of (k : string -> dres) :=
        match assoc name pp with
        | None => DRes PNil false None
        | Some raw => if String.eqb raw "" then DRes PNil false None else k raw
        end in
    let bad := DRes PNil false (Some DOther) in
    match shape_of s with
    | ShNoType => DRes PNil (match assoc name pp with Some _ => true | None => false end) None
    | ShPrim =>
        let go prefix := raw_of (fun raw =>
            match cut_prefix raw prefix with
            | None => DRes PNil true (Some DParse)
            | Some src => of_pres true (parse_primitive src c)
            end) in
        if String.eqb style "simple" then go ""
        else if String.eqb style "label" then go "."
        else if String.eqb style "matrix" then go (semi ++ name ++ "=")%string
        else bad
    | ShArr item =>
        let go prefix delim := raw_of (fun raw =>
            match cut_prefix raw prefix with
            | None => DRes PNil true (Some DParse)
            | Some src => decode_array_from true (split delim src) item
            end) in
        if String.eqb style "simple" then go "" ","
        else if String.eqb style "label" then (if explode then go "." "." else go "." ",")
        else if String.eqb style "matrix" then
          (if explode then go (semi ++ name ++ "=")%string (semi ++ name ++ "=")%string else go (semi ++ name ++ "=")%string ",")
        else bad
    | ShObj decl ap =>
        let go prefix pd vd := raw_of (fun raw =>
            match cut_prefix raw prefix with
            | None => DRes PNil true (Some DParse)
            | Some src =>
                match props_from_string src pd vd with
                | None => DRes PNil true (Some DParse)
                | Some props => obj_result true (make_object props decl ap)
                end
            end) in
        if String.eqb style "simple" then (if explode then go "" "," "=" else go "" "," ",")
        else if String.eqb style "label" then (if explode then go "." "." "=" else go "." "," ",")
        else if String.eqb style "matrix" then (if explode then go semi semi "=" else go (semi ++ name ++ "=")%string "," ",")
        else bad
    end end.

  (* ---------------- query ---------------- *)
  Definition first_of (l : list string) : string := match l with x :: _ => x | [] => "" end.
  Definition query_decode (name style : string) (explode : bool) (s : schema) (q : list (string * list string)) : dres :=
    match q with [] => DRes PNil false None | _ =>
    let c := core_of s in
    let ok := match assoc name q with Some _ => true | None => false end in
    let values := match assoc name q with Some l => l | None => [] end in
    match shape_of s with
    | ShNoType =>
        if negb (String.eqb (c_pattern c) "") then
          (if negb (String.eqb style "form") then DRes PNil false (Some DOther)
           else match values with [] => DRes PNil ok None | v :: _ => DRes (PS v) ok None end)
        else DRes PNil ok None
    | ShPrim =>
        if negb (String.eqb style "form") then DRes PNil false (Some DOther)
        else match values with
             | [] => DRes PNil ok None
             | v :: _ => of_pres ok (parse_primitive v c)
             end
    | ShArr item =>
        if String.eqb style "deepObject" then DRes PNil false (Some DOther)
        else match values with
             | [] => DRes PNil ok None
             | v :: _ =>
                 let parts :=
                   if explode then values
                   else if String.eqb style "form" then split "," v
                   else if String.eqb style "spaceDelimited" then split " " v
                   else if String.eqb style "pipeDelimited" then split "|" v
                   else [v] (* other styles: strings.Split(v, "") - not generated *) in
                 decode_array_from ok parts item
             end
    | ShObj decl ap =>
        if String.eqb style "form" then
          let props :=
            if explode then Some (map (fun kv => (fst kv, first_of (snd kv))) q)
            else match values with
                 | [] => Some []     (* nil props: not found *)
                 | v :: _ => props_from_string v "," ","
                 end in
          match props with
          | None => DRes PNil false (Some DParse)
          | Some [] => DRes PNil false None
          | Some ps =>
              match make_object ps decl ap with
              | None => DRes PNil false (Some DParse)
              | Some m =>
                  (* found: some declared property name is a key of props, or (for a declared
                     property) some key of props is a key of the built object *)
                  let found := match decl with
                               | [] => false
                               | _ => existsb (fun kc => match assoc (fst kc) ps with Some _ => true | None => false end) decl
                                      || existsb (fun kv => match assoc (fst kv) m with Some _ => true | None => false end) ps
                               end in
                  (* an exploded form object none of whose members is in the query is absent *)
                  if explode && negb found && is_nil m then DRes PNil false None
                  else DRes (PO m) found None
              end
          end
        else DRes PNil false (Some DOther)   (* deepObject: not modelled; other styles: invalid *)
    end end.

  (* ---------------- header / cookie ---------------- *)
  Definition header_decode (name style : string) (explode : bool) (s : schema) (h : list (string * list string)) : dres :=
    let c := core_of s in
    let ok := match assoc name h with Some _ => true | None => false end in
    match shape_of s with
    | ShNoType => DRes PNil ok None
    | sh =>
      if negb (String.eqb style "simple") then DRes PNil false (Some DOther) else
      match assoc name h with
      | None | Some [] => DRes PNil ok None
      | Some (raw :: _) =>
          match sh with
          | ShPrim => of_pres true (parse_primitive raw c)
          | ShArr item => decode_array_from true (split "," raw) item
          | ShObj decl ap =>
              match props_from_string raw "," (if explode then "=" else ",") with
              | None => DRes PNil true (Some DParse)
              | Some props => obj_result true (make_object props decl ap)
              end
          | ShNoType => DRes PNil ok None
          end
      end
    end.

  Definition cookie_decode (name style : string) (explode : bool) (s : schema) (ck : list (string * string)) : dres :=
    let c := core_of s in
    let found := match assoc name ck with Some _ => true | None => false end in
    match shape_of s with
    | ShNoType => DRes PNil found None
    | sh =>
      let bad := match sh with ShPrim => negb (String.eqb style "form") | _ => negb (String.eqb style "form") || explode end in
      if bad then DRes PNil false (Some DOther) else
      match assoc name ck with
      | None => DRes PNil false None
      | Some raw =>
          match sh with
          | ShPrim => of_pres true (parse_primitive raw c)
          | ShArr item => decode_array_from true (split "," raw) item
          | ShObj decl ap =>
              match props_from_string raw "," "," with
              | None => DRes PNil true (Some DParse)
              | Some props => obj_result true (make_object props decl ap)
              end
          | ShNoType => DRes PNil found None
          end
      end
    end.
End CODEC.

(* ---------------- decodeStyledParameter and ValidateParameter ---------------- *)
Record pdef := mkPDef {
  pd_in : loc; pd_name : string;
  pd_style : string;              (* "" = not given *)
  pd_explode : option bool;
  pd_required : bool; pd_allow_empty : bool;
  pd_schema : schema
}.
Record fragment := mkFrag {
  f_path : list (string * string);
  f_query : list (string * list string);
  f_header : list (string * list string);   (* canonical header names *)
  f_cookie : list (string * string)
}.

(* Parameter.SerializationMethod (openapi3/parameter.go l.285) *)
Definition eff_style (p : pdef) : string :=
  if negb (String.eqb (pd_style p) "") then pd_style p
  else match pd_in p with LPath | LHeader => "simple" | LQuery | LCookie => "form" end.
Definition eff_explode (p : pdef) : bool :=
  match pd_explode p with
  | Some b => b
  | None =>
      (* "When style is form, the default value is true. For all other styles, the default value is
         false" - deepObject, only defined exploded, counts as true (before the repair in /repo:
         true for every query and cookie style) *)
      match pd_in p with
      | LPath | LHeader => false
      | LQuery | LCookie => String.eqb (eff_style p) "form" || String.eqb (eff_style p) "deepObject"
      end
  end.

(* the 17 (in, style, explode) cells Parameter.Validate accepts *)
Definition allowed_cell (l : loc) (style : string) (explode : bool) : bool :=
  match l with
  | LPath => str_in style ["simple"; "label"; "matrix"]
  | LQuery => str_in style ["form"; "spaceDelimited"; "pipeDelimited"] || (String.eqb style "deepObject" && explode)
  | LHeader => String.eqb style "simple"
  | LCookie => String.eqb style "form"
  end.

Definition z_to_float (z : Z) : float :=
  if (z <? 0)%Z then
    if (z =? -9223372036854775808)%Z then (-0x1p+63)%float
    else PrimFloat.opp (PrimFloat.of_uint63 (Uint63.of_Z (- z)))
  else PrimFloat.of_uint63 (Uint63.of_Z z).

Fixpoint json_of (v : pval) : json :=
  match v with
  | PNil => JNull
  | PI64 z | PI32 z => JNum (z_to_float z)
  | PF x => JNum x
  | PB b => JBool b
  | PS s => JStr s
  | PA l => JArr (map json_of l)
  | PO l => JObj (map (fun kv => (fst kv, json_of (snd kv))) l)
  end.
Fixpoint has_int (v : pval) : bool :=
  match v with
  | PI64 _ | PI32 _ => true
  | PA l => existsb has_int l
  | PO l => existsb (fun kv => has_int (snd kv)) l
  | _ => false
  end.
Definition is_nil_val (v : pval) : bool := match v with PNil => true | _ => false end.

Inductive vres := VOk | VMissing | VEmpty | VDecode (e : derr) | VSchema | VPanic (w : string).

(* some int32-typed number meets a schema that has an enum (flat shapes) *)
Definition is_i32 (v : pval) : bool := match v with PI32 _ => true | _ => false end.
Definition int32_conflict (s : schema) (v : pval) : bool :=
  match s with
  | Sch c _ _ _ _ it props ap =>
      match v with
      | PI32 _ => negb (is_nil (c_enum c))
      | PA l => match it with
                | Some i => negb (is_nil (c_enum (core_of i))) && existsb is_i32 l
                | None => false
                end
      | PO l => existsb (fun kv => is_i32 (snd kv) &&
                                   match assoc (fst kv) props with
                                   | Some ps => negb (is_nil (c_enum (core_of ps)))
                                   | None => match ap with Some a => negb (is_nil (c_enum (core_of a))) | None => false end
                                   end) l
      | _ => false
      end
  end.

Section PARAM.
  Variable parse_int64 parse_int32 : string -> option Z.
  Variable parse_float : string -> option float.
  Variable rc : string -> bool.
  Variable rm : string -> string -> bool.
  Variable fo : string -> string -> json -> option bool.

  Definition decode_param (p : pdef) (f : fragment) : dres :=
    let st := eff_style p in
    let ex := eff_explode p in
    match pd_in p with
    | LPath => path_decode parse_int64 parse_int32 parse_float (pd_name p) st ex (pd_schema p) (f_path f)
    | LQuery => query_decode parse_int64 parse_int32 parse_float (pd_name p) st ex (pd_schema p) (f_query f)
    | LHeader => header_decode parse_int64 parse_int32 parse_float (pd_name p) st ex (pd_schema p) (f_header f)
    | LCookie => cookie_decode parse_int64 parse_int32 parse_float (pd_name p) st ex (pd_schema p) (f_cookie f)
    end.

  (* sorted object members, as the schema model expects *)
  Fixpoint insert_sorted (kv : string * json) (l : list (string * json)) : list (string * json) :=
    match l with
    | [] => [kv]
    | x :: r => if String.leb (fst kv) (fst x) then kv :: x :: r else x :: insert_sorted kv r
    end.
  Fixpoint sort_obj (v : json) : json :=
    match v with
    | JObj l => JObj (fold_right insert_sorted [] l)    (* flat objects only: members are primitives *)
    | _ => v
    end.

  Definition validate_param (multi : bool) (p : pdef) (f : fragment) : vres :=
    match decode_param p f with
    | DPanic w => VPanic w
    | DRes _ _ (Some e) => VDecode e
    | DRes v found None =>
        if pd_required p && negb found then VMissing
        else if is_nil_val v then (if negb (pd_allow_empty p) && found then VEmpty else VOk)
        else
          (* (an int32 value used never to equal a float64 enum member: repaired in /repo, the decoded int32 is
             compared by value like an int64) *)
          match v with
          | _ =>
              match visit rc rm fo (mkSt false multi false false false false (has_int v)) (pd_schema p) (sort_obj (json_of v)) with
              | Ok => VOk
              | Err _ => VSchema
              | Panic w => VPanic w
              end
          end
    end.
End PARAM.
