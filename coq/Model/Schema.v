(* Model of openapi3/schema.go: IsEmpty and visitJSON with its per-type visitors, in the three
   validation modes and the request/response readings.  Executable, no proofs.
   Anchors: schema.go IsEmpty (l.862), visitJSON (l.1138), visitEnumOperation, visitNotOperation,
   visitXOFOperations, visitJSONNull/Boolean/Number/String/Array/Object, expectedType,
   markSchemaErrorKey.  Not modelled here: discriminator, default injection, $ref cycles
   (schemas are trees), json.Number / int / map[any]any inputs. *)
From KV Require Import Model.Base Model.Json.
Local Open Scope list_scope.

Record score := mkCoreD {
  c_types : option (list string);
  c_enum : list json;
  c_nullable : bool; c_readOnly : bool; c_writeOnly : bool; c_allowEmpty : bool;
  c_format : string;
  c_unique : bool; c_exMin : bool; c_exMax : bool;
  c_min : option float; c_max : option float; c_mult : option float;
  c_minLen : N; c_maxLen : option N; c_pattern : string;
  c_minItems : N; c_maxItems : option N;
  c_required : list string;
  c_minProps : N; c_maxProps : option N;
  c_apHas : option bool;
  c_default : option json     (* `default` (nil and JSON null are both "no default") *)
}.
(* a core without default *)
Definition mkCore a1 a2 a3 a4 a5 a6 a7 a8 a9 a10 a11 a12 a13 a14 a15 a16 a17 a18 a19 a20 a21 a22 : score :=
  mkCoreD a1 a2 a3 a4 a5 a6 a7 a8 a9 a10 a11 a12 a13 a14 a15 a16 a17 a18 a19 a20 a21 a22 None.

Inductive schema :=
| Sch (c : score) (not_ : option schema) (oneOf anyOf allOf : list schema)
      (items : option schema) (props : list (string * schema)) (ap : option schema).

Definition core_of (s : schema) : score := match s with Sch c _ _ _ _ _ _ _ => c end.

Record settings := mkSt {
  st_failfast : bool; st_multi : bool; st_asreq : bool; st_asrep : bool;
  st_roOff : bool; st_woOff : bool;
  st_usenum : bool    (* the value was decoded with json.Decoder.UseNumber (request/response bodies):
                         its numbers are json.Number, which reflect.DeepEqual never equates with the
                         float64 numbers of an enum member *)
}.
Definition st_default := mkSt false false false false false false false.
Definition st_failfast_ := mkSt true false false false false false false.
Definition st_multi_ := mkSt false true false false false false false.

(* error construction sites: one per SchemaField/Reason pair of schema.go *)
Inductive site :=
| S_type_int | S_type_expected | S_enum | S_not | S_oneOf_many (idx : list nat) | S_oneOf_none
| S_anyOf | S_allOf | S_nullable | S_format (kind : string)
| S_exMin | S_exMax | S_min | S_max | S_mult
| S_minLen | S_maxLen | S_pattern | S_badpattern
| S_minItems | S_maxItems | S_unique
| S_minProps | S_maxProps | S_unsupported (k : string) | S_required (k : string).

Definition field_of (s : site) : string :=
  match s with
  | S_type_int | S_type_expected => "type"
  | S_enum => "enum" | S_not => "not" | S_oneOf_many _ | S_oneOf_none => "oneOf"
  | S_anyOf => "anyOf" | S_allOf => "allOf" | S_nullable => "nullable" | S_format _ => "format"
  | S_exMin => "exclusiveMinimum" | S_exMax => "exclusiveMaximum" | S_min => "minimum"
  | S_max => "maximum" | S_mult => "multipleOf" | S_minLen => "minLength" | S_maxLen => "maxLength"
  | S_pattern | S_badpattern => "pattern" | S_minItems => "minItems" | S_maxItems => "maxItems"
  | S_unique => "uniqueItems" | S_minProps => "minProperties" | S_maxProps => "maxProperties"
  | S_unsupported _ => "properties" | S_required _ => "required"
  end.

Inductive plain := PFailfast | PNaN | PInf | PReadOnly (k : string) | PWriteOnly (k : string) | PBadPattern.

Inductive err :=
| ESchema (s : site) (c : score) (rpath : list string) (v : json) (origin : list err)
| EMulti (l : list err)
| EPlain (p : plain).

Inductive outcome := Ok | Err (e : err) | Panic (w : string).
Definition accepts (o : outcome) : bool := match o with Ok => true | _ => false end.

(* markSchemaErrorKey: append the key to the reverse path of a schema error / of every member
   of a multi-error (paths inside Origin chains are not tracked by this model) *)
Fixpoint mark (k : string) (e : err) : err :=
  match e with
  | ESchema s c p v o => ESchema s c (p ++ [k]) v o
  | EMulti l => EMulti (map (mark k) l)
  | EPlain p => EPlain p
  end.
Definition errs_of (e : err) : list err := match e with EMulti (x :: l) => x :: l | _ => [e] end.

(* ---- keyword helpers ---- *)
Definition permits (c : score) (t : string) : bool :=
  match c_types c with None => true | Some l => str_in t l end.
Definition permits_null (c : score) : bool :=
  c_nullable c || match c_types c with Some l => str_in "null" l | None => false end.

Definition is_none {A} (o : option A) : bool := match o with None => true | Some _ => false end.
Definition is_nil {A} (l : list A) : bool := match l with [] => true | _ => false end.

Definition core_empty (c : score) : bool :=
  is_none (c_types c) && String.eqb (c_format c) "" && is_nil (c_enum c) &&
  negb (c_unique c) && negb (c_exMin c) && negb (c_exMax c) &&
  negb (c_nullable c) && negb (c_readOnly c) && negb (c_writeOnly c) && negb (c_allowEmpty c) &&
  is_none (c_min c) && is_none (c_max c) && is_none (c_mult c) &&
  N.eqb (c_minLen c) 0 && is_none (c_maxLen c) && String.eqb (c_pattern c) "" &&
  N.eqb (c_minItems c) 0 && is_none (c_maxItems c) && is_nil (c_required c) &&
  N.eqb (c_minProps c) 0 && is_none (c_maxProps c).

Definition opt_all {A} (f : A -> bool) (o : option A) : bool :=
  match o with None => true | Some x => f x end.

Fixpoint is_empty (s : schema) : bool :=
  match s with
  | Sch c n one any all it props ap =>
      core_empty c && opt_all is_empty n && opt_all is_empty ap &&
      negb (match c_apHas c with Some false => true | _ => false end) &&
      opt_all is_empty it &&
      forallb (fun kp => is_empty (snd kp)) props &&
      forallb is_empty one && forallb is_empty any && forallb is_empty all
  end.

(* uint64 -> int64 conversion the code performs on length bounds *)
Definition to_i64 (n : N) : Z :=
  let z := Z.of_N n in if (z <? 9223372036854775808)%Z then z else (z - 18446744073709551616)%Z.

(* ---- check lists of the per-type visitors ---- *)
Inductive chk :=
| COk
| CFail (e : err) (ffplain : bool)  (* ffplain: the site has an `if failfast return errSchema` *)
| CAcc (e : err)                    (* appended to the multi-error in every mode, never returned *)
| CReturn (e : err)                 (* returned at once in every mode *)
| CPanic (w : string).

Fixpoint run_checks (st : settings) (cs : list chk) (acc : list err) : outcome :=
  match cs with
  | [] => match acc with [] => Ok | _ => Err (EMulti acc) end
  | COk :: r => run_checks st r acc
  | CPanic w :: _ => Panic w
  | CReturn e :: _ => Err e
  | CAcc e :: r => run_checks st r (acc ++ [e])
  | CFail e ffp :: r =>
      if st_failfast st && ffp then Err (EPlain PFailfast)
      else if st_multi st then run_checks st r (acc ++ errs_of e)
      else Err e
  end.

Definition fail (st : settings) (s : site) (c : score) (v : json) : err :=
  if st_failfast st then EPlain PFailfast else ESchema s c [] v [].

Definition expected_type (st : settings) (c : score) (v : json) : err := fail st S_type_expected c v.

Section ORACLES.
  (* third-party engines, supplied as oracles (DESIGN.md section 2):
     regexp compilation and matching, registered format validators *)
  Variable re_compiles : string -> bool.
  Variable re_match : string -> string -> bool.
  Variable fmt_ok : string -> string -> json -> option bool.  (* kind, format, value *)

  Definition fmt_chk (c : score) (kind : string) (v : json) : chk :=
    if String.eqb (c_format c) "" then COk else
    match fmt_ok kind (c_format c) v with
    | Some false => CFail (ESchema (S_format kind) c [] v []) false
    | _ => COk
    end.

  Definition num_checks (st : settings) (c : score) (x : float) : list chk :=
    let v := JNum x in
    let req_int := permits c "integer" && negb (permits c "number") in
    [ if req_int then (if f_is_int x then COk else CFail (ESchema S_type_int c [] v []) true)
      else if permits c "integer" || permits c "number" then COk
      else CReturn (expected_type st c v);
      fmt_chk c (if req_int then "integer" else "number") v;
      if c_exMin c then
        match c_min c with
        | None => COk     (* the flag alone constrains nothing *)
        | Some m => if PrimFloat.ltb m x then COk else CFail (ESchema S_exMin c [] v []) true
        end
      else COk;
      if c_exMax c then
        match c_max c with
        | None => COk
        | Some m => if PrimFloat.ltb x m then COk else CFail (ESchema S_exMax c [] v []) true
        end
      else COk;
      match c_min c with
      | Some m => if PrimFloat.leb m x then COk else CFail (ESchema S_min c [] v []) true
      | None => COk
      end;
      match c_max c with
      | Some m => if PrimFloat.leb x m then COk else CFail (ESchema S_max c [] v []) true
      | None => COk
      end;
      match c_mult c with
      | Some m => let q := PrimFloat.div x m in
                  if f_is_int q then COk else CFail (ESchema S_mult c [] v []) true   (* NaN and Inf are not integers *)
      | None => COk
      end ].

  Definition str_checks (st : settings) (c : score) (s : string) : list chk :=
    let v := JStr s in
    let len := Z.of_N (ulen s) in
    [ if permits c "string" then COk else CReturn (expected_type st c v);
      if negb (N.eqb (c_minLen c) 0) && (len <? to_i64 (c_minLen c))%Z
      then CFail (ESchema S_minLen c [] v []) true else COk;
      match c_maxLen c with
      | Some m => if (to_i64 m <? len)%Z then CFail (ESchema S_maxLen c [] v []) true else COk
      | None => COk
      end;
      if String.eqb (c_pattern c) "" then COk
      else if negb (re_compiles (c_pattern c)) then
             (* the compile error is returned, or appended in multi-error mode (no match is attempted) *)
             CFail (ESchema S_badpattern c [] JNull []) false
      else if re_match (c_pattern c) s then COk
      else CFail (ESchema S_pattern c [] v []) false;
      fmt_chk c "string" v ].

  Definition child_chk (o : outcome) (key : string) (ffp : bool) : chk :=
    match o with
    | Ok => COk
    | Err e => CFail (mark key e) ffp
    | Panic w => CPanic w
    end.

  (* decimal rendering of an index, for the JSON pointer token *)
  Fixpoint N_digits (fuel : nat) (n : N) (acc : string) : string :=
    match fuel with
    | O => acc
    | S f => let d := String (ascii_of_N (48 + N.modulo n 10)) acc in
             if N.ltb n 10 then d else N_digits f (N.div n 10) d
    end.
  Definition N_to_string (n : N) : string := N_digits 25 n "".

  Fixpoint index_from (i : N) (l : list outcome) : list (string * outcome) :=
    match l with [] => [] | o :: r => (N_to_string i, o) :: index_from (N.succ i) r end.

  Definition arr_checks (st : settings) (c : score) (l : list json)
             (has_items : bool) (r_items : list outcome) : list chk :=
    let v := JArr l in
    let len := Z.of_nat (List.length l) in
    [ if permits c "array" then COk else CReturn (expected_type st c v);
      if negb (N.eqb (c_minItems c) 0) && (len <? to_i64 (c_minItems c))%Z
      then CFail (ESchema S_minItems c [] v []) true else COk;
      match c_maxItems c with
      | Some m => if (to_i64 m <? len)%Z then CFail (ESchema S_maxItems c [] v []) true else COk
      | None => COk
      end;
      if c_unique c && negb (json_nodup json_text_eqb l)
      then CFail (ESchema S_unique c [] v []) true else COk ]
    ++ (if has_items then map (fun ko => child_chk (snd ko) (fst ko) false) (index_from 0 r_items) else []).

  Definition keys_of {A} (l : list (string * A)) : list string := map fst l.

  (* visitJSONObject; [props] carries, per declared property, its core (for readOnly/writeOnly);
     r_props: outcome of visiting each declared property that is present in the value;
     r_ap: outcome of visiting each undeclared member with the additionalProperties schema *)
  Definition key_chk (c : score) (v : json) (has_ap : bool) (r_props r_ap : list (string * outcome))
             (kv : string * json) : chk :=
    let k := fst kv in
    match assoc k r_props with
    | Some o => child_chk o k true
    | None =>
        match c_apHas c with
        | Some false => CFail (ESchema (S_unsupported k) c [] v []) true
        | _ => if has_ap then
                 match assoc k r_ap with Some o => child_chk o k true | None => COk end
               else COk
        end
    end.

  Definition req_chk (st : settings) (c : score) (v : json) (l : list (string * json))
             (props : list (string * score)) (k : string) : chk :=
    match assoc k l with
    | Some _ => COk
    | None =>
        match assoc k props with
        | Some pc => if (c_readOnly pc && st_asreq st) || (c_writeOnly pc && st_asrep st) then COk
                     else CFail (ESchema (S_required k) c [k] v []) true
        | None => CFail (ESchema (S_required k) c [k] v []) true
        end
    end.

  Definition rw_chks (st : settings) (l : list (string * json)) (props : list (string * score)) : list chk :=
    let present_nonnull k := match assoc k l with Some x => negb (is_null x) | None => false end in
    if st_asreq st || st_asrep st then
      flat_map (fun kp =>
        let reqRO := st_asreq st && c_readOnly (snd kp) && negb (st_roOff st) in
        let repWO := st_asrep st && c_writeOnly (snd kp) && negb (st_woOff st) in
        if present_nonnull (fst kp) then
          if reqRO then [CAcc (EPlain (PReadOnly (fst kp)))]
          else if repWO then [CAcc (EPlain (PWriteOnly (fst kp)))] else []
        else []) props
    else [].

  Definition obj_checks (st : settings) (c : score) (l : list (string * json))
             (props : list (string * score)) (has_ap : bool)
             (r_props r_ap : list (string * outcome)) : list chk :=
    let v := JObj l in
    let len := Z.of_nat (List.length l) in
    [ if permits c "object" then COk else CReturn (expected_type st c v) ]
    ++ rw_chks st l props
    ++ [ if negb (N.eqb (c_minProps c) 0) && (len <? to_i64 (c_minProps c))%Z
         then CFail (ESchema S_minProps c [] v []) true else COk;
         match c_maxProps c with
         | Some m => if (to_i64 m <? len)%Z then CFail (ESchema S_maxProps c [] v []) true else COk
         | None => COk
         end ]
    ++ map (key_chk c v has_ap r_props r_ap) l
    ++ map (req_chk st c v l props) (c_required c).

  (* ---- visitNotOperation / visitXOFOperations / visitEnumOperation on sub-results ---- *)
  Definition seq (o : outcome) (k : outcome) : outcome := match o with Ok => k | _ => o end.

  Definition not_step (st : settings) (c : score) (v : json) (r : option outcome) : outcome :=
    match r with
    | Some Ok => Err (fail st S_not c v)
    | Some (Panic w) => Panic w
    | _ => Ok
    end.

  (* scan of the oneOf results: (matched indices, errors) or a panic *)
  Fixpoint one_scan (i : nat) (rs : list outcome) (idx : list nat) (es : list err)
    : option (list nat * list err) :=
    match rs with
    | [] => Some (idx, es)
    | Ok :: r => one_scan (S i) r (idx ++ [i]) es
    | Err e :: r => one_scan (S i) r idx (es ++ [e])
    | Panic _ :: _ => None
    end.
  Fixpoint first_panic (rs : list outcome) : string :=
    match rs with Panic w :: _ => w | _ :: r => first_panic r | [] => "" end.

  Definition one_step (st : settings) (c : score) (v : json) (rs : list outcome) : outcome :=
    match rs with
    | [] => Ok
    | _ =>
        match one_scan 0 rs [] [] with
        | None => Panic (first_panic rs)
        | Some (idx, es) =>
            if Nat.eqb (List.length idx) 1 then Ok
            else if st_failfast st then Err (EPlain PFailfast)
            else if Nat.ltb 1 (List.length idx) then Err (ESchema (S_oneOf_many idx) c [] v [])
            else Err (ESchema S_oneOf_none c [] v [EMulti es])
        end
    end.

  (* anyOf: stop at the first success; a panic before it propagates *)
  Fixpoint any_scan (rs : list outcome) : outcome :=
    match rs with
    | [] => Err (EPlain PFailfast)       (* placeholder: no member matched *)
    | Ok :: _ => Ok
    | Err _ :: r => any_scan r
    | Panic w :: _ => Panic w
    end.
  Definition any_step (st : settings) (c : score) (v : json) (rs : list outcome) : outcome :=
    match rs with
    | [] => Ok
    | _ => match any_scan rs with
           | Ok => Ok
           | Panic w => Panic w
           | Err _ => Err (fail st S_anyOf c v)
           end
    end.

  Fixpoint all_step (st : settings) (c : score) (v : json) (rs : list outcome) : outcome :=
    match rs with
    | [] => Ok
    | Ok :: r => all_step st c v r
    | Err e :: _ => Err (if st_failfast st then EPlain PFailfast else ESchema S_allOf c [] v [e])
    | Panic w :: _ => Panic w
    end.

  (* visitEnumOperation: a top-level number is compared numerically; anything else by
     reflect.DeepEqual, for which a json.Number inside the value equals no float64 *)
  Definition enum_eq (st : settings) (v m : json) : bool :=
    if st_usenum st then
      match v with
      | JNum _ => json_eqb v m
      | _ => json_eq_gen (fun _ _ => false) v m
      end
    else json_eqb v m.
  Definition enum_step (st : settings) (c : score) (v : json) : outcome :=
    match c_enum c with
    | [] => Ok
    | en => if json_in (enum_eq st) v en then Ok else Err (fail st S_enum c v)
    end.

  Definition null_step (st : settings) (c : score) : outcome :=
    if permits_null c then Ok else Err (fail st S_nullable c JNull).

  Definition pre_check (c : score) (v : json) : option outcome :=
    match v with
    | JNull => if permits_null c then Some Ok else None
    | JNum x => if f_is_nan x then Some (Err (EPlain PNaN))
                else if f_is_inf x then Some (Err (EPlain PInf)) else None
    | _ => None
    end.

  Fixpoint visit (st : settings) (s : schema) (v : json) {struct s} : outcome :=
    match s with
    | Sch c n one any all it props ap =>
        match pre_check c v with
        | Some o => o
        | None =>
            if is_empty (Sch c n one any all it props ap) then
              (if is_null v then null_step st c else Ok)
            else
              let r_not := option_map (fun x => visit st x v) n in
              let r_one := map (fun x => visit st x v) one in
              let r_any := map (fun x => visit st x v) any in
              let r_all := map (fun x => visit st x v) all in
              seq (not_step st c v r_not)
              (seq (one_step st c v r_one)
              (seq (any_step st c v r_any)
              (seq (all_step st c v r_all)
              (if (negb (is_nil one) || negb (is_nil any) || negb (is_nil all)) && is_null v then Ok
               else
               seq (enum_step st c v)
               (match v with
                | JNull => null_step st c
                | JBool _ => if permits c "boolean" then Ok else Err (expected_type st c v)
                | JNum x => run_checks st (num_checks st c x) []
                | JStr x => run_checks st (str_checks st c x) []
                | JArr l =>
                    let r_items := match it with
                                   | Some its => map (fun x => visit st its x) l
                                   | None => []
                                   end in
                    run_checks st (arr_checks st c l (negb (is_none it)) r_items) []
                | JObj l =>
                    let r_props :=
                      flat_map (fun kp => match assoc (fst kp) l with
                                          | Some x => [(fst kp, visit st (snd kp) x)]
                                          | None => []
                                          end) props in
                    let r_ap := match ap with
                                | Some a => map (fun kv => (fst kv, visit st a (snd kv))) l
                                | None => []
                                end in
                    run_checks st (obj_checks st c l (map (fun kp => (fst kp, core_of (snd kp))) props)
                                              (negb (is_none ap)) r_props r_ap) []
                end)))))
        end
    end.
End ORACLES.
