(* The reference-resolution walk of openapi3.Loader (loader.go), as a fuelled state-passing
   interpreter.  One generic [resolve] stands for the near-identical resolve*Ref routines; what
   differs per kind is the table of children each routine walks.

   Files hold trees of nodes: a node is a reference or an object carrying a unique id and its
   reference-capable children (slot class, key, kind).  Objects live in "instances": a document
   loaded through loadFromURIInternal is one instance per URI (visitedDocuments); every
   single-element load and every map[string]any re-decode creates a fresh instance.  A cell is a
   reference position inside an instance; the loader's effect is the partial map cell -> value.

   Modelled: shouldVisitRef/visitRef/unvisitRef keyed by the raw reference text with backtrack
   callbacks and their type assertions; Value-already-set shortcut; single-element loads (guard,
   path resolution, read, documentPath update - except for security schemes); resolveComponent
   (guard, document load with full ResolveRefsIn, typed drill-down to components, kind check,
   extension areas and the raw re-read fallback decoded as the expected kind); the second walk
   of the children under the outer document/path; every call of readURL.
   Not modelled: JSON pointers below a component (reflective drill-down), path-item $ref,
   callbacks, url.Parse failures. *)
From KV Require Import Model.Base.
Local Open Scope list_scope.

Inductive kind := KSchema | KParameter | KHeader | KRequestBody | KResponse | KExample | KSecScheme | KLink
                | KMedia | KMediaP | KPathItem | KOperation.
Definition kind_code (k : kind) : N :=
  match k with KSchema => 0 | KParameter => 1 | KHeader => 2 | KRequestBody => 3 | KResponse => 4 | KExample => 5
             | KSecScheme => 6 | KLink => 7 | KMedia => 8 | KMediaP => 9 | KPathItem => 10 | KOperation => 11 end.
Definition kind_eqb (a b : kind) : bool := N.eqb (kind_code a) (kind_code b).

Inductive node :=
| NRef (ref : string)
| NObj (id : N) (kids : list (string * string * kind * node)).   (* slot class, key, kind, child *)

Record file := mkFile {
  f_cells : list (list string * kind * bool * node);  (* pointer, kind, traversed by ResolveRefsIn, content; in traversal order *)
  f_exts : list (list string * node);                 (* objects under extension members: reachable as raw maps only *)
  f_single : option (kind * node)                     (* the file read as one element (its own kind, for the guards only) *)
}.

Definition cellkey := (N * list string)%type.
Record tval := mkTV { tv_inst : N; tv_path : list string; tv_node : node; tv_kind : kind }.

Record lstate := mkLS {
  vals : list (cellkey * tval);
  inprog : list string;
  back : list (string * option cellkey * kind);
  docs : list (string * N);
  next : N;
  reads : list string;
  origin : list (N * string)      (* where the content of an instance came from *)
}.

Inductive res (A : Type) := ROk (a : A) | RErr (rd : list string) | RPanic | RFuel.   (* an error keeps the read log *)
Arguments ROk {A}. Arguments RErr {A}. Arguments RPanic {A}. Arguments RFuel {A}.

Definition bind {A B} (r : res A) (f : A -> res B) : res B :=
  match r with ROk a => f a | RErr rd => RErr rd | RPanic => RPanic | RFuel => RFuel end.

Fixpoint path_eqb (a b : list string) : bool :=
  match a, b with
  | [], [] => true
  | x :: a', y :: b' => String.eqb x y && path_eqb a' b'
  | _, _ => false
  end.
Definition key_eqb (a b : cellkey) : bool := N.eqb (fst a) (fst b) && path_eqb (snd a) (snd b).

Fixpoint val_of (c : cellkey) (l : list (cellkey * tval)) : option tval :=
  match l with [] => None | (c', v) :: r => if key_eqb c c' then Some v else val_of c r end.

(* ---- reference text ---- *)
Fixpoint has_hash (s : string) : bool :=
  match s with EmptyString => false | String c r => Ascii.eqb c "#" || has_hash r end.
Fixpoint before_hash (s : string) : string :=
  match s with EmptyString => "" | String c r => if Ascii.eqb c "#" then "" else String c (before_hash r) end.
Fixpoint after_hash (s : string) : string :=
  match s with EmptyString => "" | String c r => if Ascii.eqb c "#" then r else after_hash r end.
Fixpoint split_slash (s : string) (cur : string) : list string :=
  match s with
  | EmptyString => [cur]
  | String c r => if Ascii.eqb c "/" then cur :: split_slash r "" else split_slash r (cur ++ String c "")
  end.
(* "~1" -> "/", then "~0" -> "~" (unescapeRefString) *)
Fixpoint unesc1 (s : string) : string :=
  match s with
  | String "~" (String "1" r) => String "/" (unesc1 r)
  | String c r => String c (unesc1 r)
  | EmptyString => ""
  end.
Fixpoint unesc0 (s : string) : string :=
  match s with
  | String "~" (String "0" r) => String "~" (unesc0 r)
  | String c r => String c (unesc0 r)
  | EmptyString => ""
  end.
(* fragment "/a/b" -> Some [a; b]; "" stands for "/" ; anything else is rejected *)
Definition frag_segments (frag : string) : option (list string) :=
  match frag with
  | EmptyString => Some [""]
  | String "/" r => Some (map (fun x => unesc0 (unesc1 x)) (split_slash r ""))
  | _ => None
  end.

(* ---- the children each routine walks, in code order ---- *)
Definition walked (k : kind) : list string :=
  match k with
  | KSchema => ["items"; "properties"; "additionalProperties"; "not"; "allOf"; "anyOf"; "oneOf"]
  | KParameter => ["content"; "schema"]
  | KHeader => ["schema"]
  | KRequestBody => ["content"]
  | KResponse => ["headers"; "content"; "links"]
  | KMedia => ["examples"; "schema"]
  | KMediaP => ["schema"]
  | KPathItem => ["parameters"; "operations"]
  | KOperation => ["parameters"; "requestBody"; "responses"]
  | KExample | KSecScheme | KLink => []
  end.

Definition label (cls key : string) : string := (cls ++ ":" ++ key)%string.

Section LOAD.
  Variable allow : bool.                                 (* Loader.IsExternalRefsAllowed *)
  Variable files : string -> option file.                (* what readURL finds *)
  Variable rpath : option string -> string -> string.    (* resolvePath: location of [ref's url part] seen from a document location *)

  Definition do_read (uri : string) (s : lstate) : res (lstate * file) :=
    let s' := mkLS (vals s) (inprog s) (back s) (docs s) (next s) (reads s ++ [uri]) (origin s) in
    match files uri with Some f => ROk (s', f) | None => RErr (reads s') end.

  Definition set_val (c : option cellkey) (v : tval) (s : lstate) : lstate :=
    match c with
    | Some c => mkLS ((c, v) :: vals s) (inprog s) (back s) (docs s) (next s) (reads s) (origin s)
    | None => s
    end.
  Definition fresh (uri : string) (s : lstate) : N * lstate :=
    (next s, mkLS (vals s) (inprog s) (back s) (docs s) (N.succ (next s)) (reads s) ((next s, uri) :: origin s)).

  Definition single_of (f : file) : node := match f_single f with Some kn => snd kn | None => NObj 0 [] end.

  Fixpoint find_cell (p : list string) (l : list (list string * kind * bool * node)) : option (kind * node) :=
    match l with
    | [] => None
    | (p', k, _, n) :: r => if path_eqb p p' then Some (k, n) else find_cell p r
    end.
  Fixpoint find_ext (p : list string) (l : list (list string * node)) : option node :=
    match l with [] => None | (p', n) :: r => if path_eqb p p' then Some n else find_ext p r end.

  (* unvisitRef: run the callbacks registered under the reference text (each asserts the type of
     the value), forget the text *)
  Fixpoint run_back (ref : string) (v : tval) (l : list (string * option cellkey * kind)) (s : lstate) : res lstate :=
    match l with
    | [] => ROk s
    | (r, c, k) :: rest =>
        if String.eqb r ref then
          if kind_eqb k (tv_kind v) then run_back ref v rest (set_val c v s) else RPanic
        else run_back ref v rest s
    end.
  Definition unvisit (ref : string) (v : option tval) (s : lstate) : res lstate :=
    bind (match v with Some v => run_back ref v (back s) s | None => ROk s end) (fun s1 =>
    ROk (mkLS (vals s1) (filter (fun r => negb (String.eqb r ref)) (inprog s1))
              (filter (fun e => negb (String.eqb (fst (fst e)) ref)) (back s1)) (docs s1) (next s1) (reads s1) (origin s1))).

  (* what resolveComponent found *)
  Inductive found :=
  | FTyped (inst : N) (p : list string) (k : kind) (n : node)   (* a *Ref of the typed document *)
  | FRaw (n : node) (from : string).                            (* a raw map: decoded as the expected kind *)

  (* the type of the resolve routine (one fuel level down) *)
  Definition resolver := kind -> option cellkey -> node -> N -> list string -> N -> option file -> option string -> lstate
                         -> res (lstate * option tval).

  Section BODY.
    Variable rec : resolver.

    (* the children of one slot class, in order *)
    Fixpoint walk_class (cls : string) (l : list (string * string * kind * node)) (vinst : N) (vpath : list string)
             (doc : N) (docfile : option file) (docpath : option string) (s : lstate) : res lstate :=
      match l with
      | [] => ROk s
      | (c, key, k', child) :: l' =>
          if String.eqb c cls then
            let p := vpath ++ [label c key] in
            bind (rec k' (Some (vinst, p)) child vinst p doc docfile docpath s)
                 (fun r => walk_class cls l' vinst vpath doc docfile docpath (fst r))
          else walk_class cls l' vinst vpath doc docfile docpath s
      end.
    Fixpoint walk (classes : list string) (kids : list (string * string * kind * node)) (vinst : N) (vpath : list string)
             (doc : N) (docfile : option file) (docpath : option string) (s : lstate) : res lstate :=
      match classes with
      | [] => ROk s
      | cls :: rest =>
          bind (walk_class cls kids vinst vpath doc docfile docpath s)
               (fun s1 => walk rest kids vinst vpath doc docfile docpath s1)
      end.
    Definition walk_value (k : kind) (v : option tval) (doc : N) (docfile : option file) (docpath : option string) (s : lstate) : res lstate :=
      match v with
      | Some v => match tv_node v with
                  | NObj _ kids => walk (walked k) kids (tv_inst v) (tv_path v) doc docfile docpath s
                  | NRef _ => ROk s
                  end
      | None => ROk s
      end.

    (* ResolveRefsIn: the traversed top-level positions of a document *)
    Fixpoint resolve_cells (i : N) (f : file) (loc : option string) (l : list (list string * kind * bool * node)) (s : lstate) : res lstate :=
      match l with
      | [] => ROk s
      | (p, k, trav, n) :: l' =>
          if trav then bind (rec k (Some (i, p)) n i p i (Some f) loc s) (fun r => resolve_cells i f loc l' (fst r))
          else resolve_cells i f loc l' s
      end.

    (* loadFromURIInternal: read, then the visited-documents cache, then ResolveRefsIn *)
    Definition load_doc (uri : string) (s : lstate) : res (lstate * N * file) :=
      bind (do_read uri s) (fun sf =>
      let '(s1, f) := sf in
      match assoc uri (docs s1) with
      | Some i => ROk (s1, i, f)
      | None =>
          let '(i, s2) := fresh uri s1 in
          let s3 := mkLS (vals s2) (inprog s2) (back s2) ((uri, i) :: docs s2) (next s2) (reads s2) (origin s2) in
          bind (resolve_cells i f (Some uri) (f_cells f) s3) (fun s4 => ROk (s4, i, f))
      end).

    (* the drill-down of resolveComponent in a typed document, then the raw re-read *)
    Definition drill (segs : list string) (cdoc : N) (cfile : option file) (cpath docpath : option string) (s1 : lstate) : res (lstate * found) :=
      let typed := match cfile with
                   | Some f => match find_cell segs (f_cells f) with
                               | Some (kc, n) => Some (FTyped cdoc segs kc n)
                               | None => match find_ext segs (f_exts f) with
                                         | Some n => Some (FRaw n (match cpath with Some u => u | None => "" end))
                                         | None => None end
                               end
                   | None => None
                   end in
      match typed with
      | Some fd => ROk (s1, fd)
      | None =>
          match docpath with
          | None => RErr (reads s1)
          | Some u =>
              bind (do_read u s1) (fun sf =>
              let '(s2, f) := sf in
              match find_cell segs (f_cells f) with
              | Some (_, n) => ROk (s2, FRaw n u)
              | None => match find_ext segs (f_exts f) with Some n => ROk (s2, FRaw n u) | None => RErr (reads s2) end
              end)
          end
      end.

    Definition resolve_body (k : kind) (dest : option cellkey) (nd : node) (inst : N) (path : list string)
               (doc : N) (docfile : option file) (docpath : option string) (s : lstate) : res (lstate * option tval) :=
      match nd with
      | NObj _ _ =>
          let v := mkTV inst path nd k in
          bind (walk_value k (Some v) doc docfile docpath s) (fun s1 => ROk (s1, Some v))
      | NRef ref =>
          match (match dest with Some c => val_of c (vals s) | None => None end) with
          | Some v => ROk (s, Some v)                                  (* component.Value != nil *)
          | None =>
              if str_in ref (inprog s) then                             (* shouldVisitRef: register a callback *)
                ROk (mkLS (vals s) (inprog s) (back s ++ [(ref, dest, k)]) (docs s) (next s) (reads s) (origin s), None)
              else
                let s0 := mkLS (vals s) (ref :: inprog s) (back s) (docs s) (next s) (reads s) (origin s) in
                if negb (has_hash ref) then
                  (* loadSingleElementFromURI *)
                  if negb allow then RErr (reads s0) else
                  let loc := rpath docpath ref in
                  bind (do_read loc s0) (fun sf =>
                  let '(s1, f) := sf in
                  let '(i, s2) := fresh loc s1 in
                  let v := mkTV i [] (single_of f) k in
                  let s3 := set_val dest v s2 in
                  let docpath' := if kind_eqb k KSecScheme then docpath else Some loc in
                  bind (walk_value k (Some v) doc docfile docpath' s3) (fun s4 =>
                  bind (unvisit ref (Some v) s4) (fun s5 => ROk (s5, Some v))))
                else
                  (* resolveComponent *)
                  let url := before_hash ref in
                  bind (if String.eqb url "" then ROk (s0, doc, docfile, docpath)
                        else if negb allow then RErr (reads s0)
                        else let loc := rpath docpath url in
                             bind (load_doc loc s0) (fun r => let '(s1, i, f) := r in ROk (s1, i, Some f, Some loc)))
                       (fun r =>
                  let '(s1, cdoc, cfile, cpath) := r in
                  match frag_segments (after_hash ref) with
                  | None => RErr (reads s1)
                  | Some segs =>
                      bind (drill segs cdoc cfile cpath docpath s1) (fun r2 =>
                      let '(s2, fd) := r2 in
                      bind (match fd with
                            | FTyped ci p kc n =>
                                if negb (kind_eqb kc k) then RErr (reads s2)          (* bad data: expecting ... *)
                                else match n with
                                     | NObj _ _ => rec k None n ci p cdoc cfile cpath s2
                                     | NRef _ =>
                                         match val_of (ci, p) (vals s2) with
                                         | Some v => ROk (s2, Some v)                 (* the copy carries the target's Value *)
                                         | None => rec k None n ci p cdoc cfile cpath s2
                                         end
                                     end
                            | FRaw n from =>
                                let '(i, s3) := fresh from s2 in
                                rec k None n i [] cdoc cfile cpath s3
                            end) (fun r3 =>
                      let '(s3, v) := r3 in
                      let v := option_map (fun v => mkTV (tv_inst v) (tv_path v) (tv_node v) k) v in
                      let s4 := match v with Some v => set_val dest v s3 | None => s3 end in
                      bind (walk_value k v doc docfile docpath s4) (fun s5 =>
                      bind (unvisit ref v s5) (fun s6 => ROk (s6, v)))))
                  end)
          end
      end.
  End BODY.

  Fixpoint resolve (fuel : nat) : resolver :=
    match fuel with
    | O => fun _ _ _ _ _ _ _ _ _ => RFuel
    | S fuel' => resolve_body (resolve fuel')
    end.

  (* ---- entry points ---- *)
  Definition empty_state (root : string) : lstate := mkLS [] [] [] [] 1 [] [(0%N, root)].

  (* 0: LoadFromFile / LoadFromURI (the root is read); 1: LoadFromData; 2: LoadFromDataWithPath *)
  Definition load (fuel : nat) (entry : N) (root : string) (rootfile : file) : res lstate :=
    if N.eqb entry 0 then
      bind (do_read root (empty_state root)) (fun sf =>
      let '(s1, f) := sf in
      let s2 := mkLS (vals s1) (inprog s1) (back s1) [(root, 0%N)] (next s1) (reads s1) (origin s1) in
      resolve_cells (resolve fuel) 0 f (Some root) (f_cells f) s2)
    else if N.eqb entry 1 then
      resolve_cells (resolve fuel) 0 rootfile None (f_cells rootfile) (empty_state "")
    else
      let s2 := mkLS [] [] [] [(root, 0%N)] 1 [] [(0%N, root)] in
      resolve_cells (resolve fuel) 0 rootfile (Some root) (f_cells rootfile) s2.
End LOAD.
