(* Model of openapi3/schema_pattern.go intoGoRegexp: the ECMA 262 code point escape \uXXXX is
   rewritten as Go's \x{XXXX}; every other escape - an escaped backslash included - is copied as a
   whole.  Executable, no proofs. *)
From KV Require Import Model.Base.
Local Open Scope string_scope.

Definition bslash : ascii := ascii_of_N 92.
Definition is_hex (c : ascii) : bool :=
  let n := N_of_ascii c in
  ((48 <=? n) && (n <=? 57) || (65 <=? n) && (n <=? 70) || (97 <=? n) && (n <=? 102))%N.

Fixpoint into_go (s : string) : string :=
  match s with
  | EmptyString => EmptyString
  | String c r =>
      if Ascii.eqb c bslash then
        match r with
        | EmptyString => String c EmptyString
        | String e r' =>
            if Ascii.eqb e "u" then
              match r' with
              | String a (String b (String c' (String d r'')) ) =>
                  if is_hex a && is_hex b && is_hex c' && is_hex d
                  then String bslash (String "x" (String "{" (String a (String b (String c' (String d (String "}" (into_go r''))))))))
                  else String c (String e (into_go r'))
              | _ => String c (String e (into_go r'))
              end
            else String c (String e (into_go r'))
        end
      else String c (into_go r)
  end.
