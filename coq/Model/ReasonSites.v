(* C19: reason construction sites as data.  A site is a format template plus, per argument, the
   class of data it is built from (computed by the translator xlate/reasons.go from the Go
   source).  [render] instantiates a site from three pools: strings derived from the schema,
   member names/indices of the value, and string leaves of the value. *)
From KV Require Import Model.Base.
Local Open Scope list_scope.

Inductive asrc := ALit | ASchema | AIdx | AType | AKey | AValidator | AValue.

Record rsite := mkRSite {
  rs_loc : string;      (* file:function:field#n *)
  rs_field : string;    (* SchemaField *)
  rs_format : string;   (* format string / literal *)
  rs_args : list asrc
}.

Definition arg_ok (a : asrc) : bool := match a with AValue => false | _ => true end.
Definition site_ok (s : rsite) : bool := forallb arg_ok (rs_args s).
Definition sites_ok (l : list rsite) : bool := forallb site_ok l.

(* pools from which arguments are drawn *)
Record pools := mkPools {
  p_schema : nat -> string;     (* anything computed from the schema (bounds, pattern, enum text, ...) *)
  p_keys : nat -> string;       (* member names and indices of the value *)
  p_types : nat -> string;      (* Go type names *)
  p_validator : nat -> string;  (* text produced by a format validator site (itself a site) *)
  p_leaves : nat -> string      (* string leaves of the rejected value *)
}.

Definition arg_text (p : pools) (i : nat) (a : asrc) : string :=
  match a with
  | ALit => ""
  | ASchema => p_schema p i
  | AIdx | AKey => p_keys p i
  | AType => p_types p i
  | AValidator => p_validator p i
  | AValue => p_leaves p i
  end.

Fixpoint args_text (p : pools) (i : nat) (l : list asrc) : list string :=
  match l with [] => [] | a :: r => arg_text p i a :: args_text p (S i) r end.

(* the rendered reason: the template and the argument texts (the exact interleaving performed by
   fmt.Sprintf is irrelevant for the leak question, so it is kept abstract as an oracle) *)
Definition render (sprintf : string -> list string -> string) (p : pools) (s : rsite) : string :=
  sprintf (rs_format s) (args_text p 0 (rs_args s)).

Definition fields_of (l : list rsite) : list string := map rs_field l.
