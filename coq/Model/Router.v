(* Models of the two routers (documents without servers, or with one relative base path).
   Legacy: routers/legacy/pathpattern/node.go (CreateNode, Match, matchRemaining) + the lookup of
   routers/legacy/router.go FindRoute.  Gorilla: routers/gorillamux/router.go FindRoute over the
   route list in Paths.InMatchingOrder, with gorilla/mux's default variable pattern [^/]+ for
   templates whose segments are whole literals or whole variables. *)
From KV Require Import Model.Base Model.Lookup Model.ParamCodec.
Local Open Scope list_scope.

Inductive tok := TC (s : string) | TV | TE.
Inductive trie := T (names : list string) (value : option nat) (sufs : list (tok * trie)).

Definition t_value (t : trie) : option nat := match t with T _ v _ => v end.
Definition t_names (t : trie) : list string := match t with T n _ _ => n end.
Definition t_sufs (t : trie) : list (tok * trie) := match t with T _ _ s => s end.
Definition has_value (t : trie) : bool := match t_value t with Some _ => true | None => false end.

(* the segment up to the next '/' and the rest (which starts with '/' or is empty) *)
Fixpoint cut_seg (s : string) : string * string :=
  match s with
  | EmptyString => (EmptyString, EmptyString)
  | String c r => if Ascii.eqb c "/"%char then (EmptyString, s)
                  else let '(a, b) := cut_seg r in (String c a, b)
  end.

Fixpoint strip_slashes_rev (s : string) : string :=   (* on the reversed string *)
  match s with String c r => if Ascii.eqb c "/"%char then strip_slashes_rev r else s | _ => s end.
Fixpoint srev (s acc : string) : string := match s with EmptyString => acc | String c r => srev r (String c acc) end.
(* for strings.HasSuffix(path, "/") { path = path[:len(path)-1] } *)
Definition strip_trailing_slashes (s : string) : string := srev (strip_slashes_rev (srev s "")) "".

Fixpoint tmatch (t : trie) (rem : string) (vals : list string) {struct t} : option (trie * list string) :=
  match t with
  | T names value sufs =>
      if String.eqb rem "" && (match value with Some _ => true | None => false end) then Some (t, vals)
      else
        (fix scan (l : list (tok * trie)) : option (trie * list string) :=
           match l with
           | [] => None
           | (k, child) :: r =>
               let res :=
                 match k with
                 | TC p =>
                     if String.prefix p rem then tmatch child (drop (String.length p) rem) vals
                     else if String.eqb rem "" && String.eqb p "/" then tmatch child rem vals
                     else None
                 | TV => let '(seg, rest) := cut_seg rem in tmatch child rest (vals ++ [seg])
                 | TE => Some (child, vals ++ [rem])
                 end in
               match res with
               | Some (n, vs) => if has_value n then Some (n, vs) else scan r
               | None => scan r
               end
           end) sufs
  end.

(* ---- CreateNode: tokenisation and insertion with the suffix ordering ---- *)
Fixpoint take_const (s : string) : string * string :=   (* up to the next '/' or '{' *)
  match s with
  | EmptyString => (EmptyString, EmptyString)
  | String c r => if Ascii.eqb c "/"%char || Ascii.eqb c "{"%char then (EmptyString, s)
                  else let '(a, b) := take_const r in (String c a, b)
  end.
Fixpoint until_brace (s : string) : option (string * string) :=  (* name, rest after '}' *)
  match s with
  | EmptyString => None
  | String c r => if Ascii.eqb c "}"%char then Some (EmptyString, r)
                  else match until_brace r with Some (a, b) => Some (String c a, b) | None => None end
  end.
Fixpoint ends_with_star (s : string) : bool :=
  match s with
  | EmptyString => false
  | String c EmptyString => Ascii.eqb c "*"%char
  | String _ r => ends_with_star r
  end.

(* tokens and variable names of a path pattern (fuel = its length + 1); None: missing '}' *)
Fixpoint tokenize (fuel : nat) (s : string) : option (list tok * list string) :=
  match fuel with
  | O => Some ([], [])
  | S f =>
      match s with
      | EmptyString => Some ([], [])
      | String c r =>
          if Ascii.eqb c "/"%char then
            match tokenize f r with Some (ts, ns) => Some (TC "/" :: ts, ns) | None => None end
          else if Ascii.eqb c "{"%char then
            match until_brace r with
            | None => None
            | Some (name, rest) =>
                match tokenize f rest with
                | Some (ts, ns) => Some ((if ends_with_star name then TE else TV) :: ts, name :: ns)
                | None => None
                end
            end
          else
            let '(cst, rest) := take_const s in
            match tokenize f rest with Some (ts, ns) => Some (TC cst :: ts, ns) | None => None end
      end
  end.
Definition tokens_of (path : string) : option (list tok * list string) :=
  let p := strip_trailing_slashes path in tokenize (S (String.length p)) p.

Definition tok_kind (k : tok) : nat := match k with TC _ => 0 | TV => 2 | TE => 3 end.
Definition tok_pat (k : tok) : string := match k with TC p => p | _ => EmptyString end.
Definition tok_eqb (a b : tok) : bool := Nat.eqb (tok_kind a) (tok_kind b) && String.eqb (tok_pat a) (tok_pat b).
(* SuffixList.Less: kind ascending, then pattern descending *)
Definition tok_less (a b : tok) : bool :=
  if Nat.ltb (tok_kind a) (tok_kind b) then true
  else if Nat.ltb (tok_kind b) (tok_kind a) then false
  else String.ltb (tok_pat b) (tok_pat a).

Fixpoint insert_suf (k : tok) (child : trie) (l : list (tok * trie)) : list (tok * trie) :=
  match l with
  | [] => [(k, child)]
  | (k', c') :: r => if tok_less k k' then (k, child) :: l else (k', c') :: insert_suf k child r
  end.

Fixpoint chain (toks : list tok) (names : list string) (v : nat) : trie :=
  match toks with
  | [] => T names (Some v) []
  | k :: r => T [] None [(k, chain r names v)]
  end.

(* insertion needs recursion on the token list with the trie as an accumulator argument *)
Fixpoint tinsert (toks : list tok) (names : list string) (v : nat) (t : trie) {struct toks} : trie :=
  match toks with
  | [] => match t with T _ _ sufs => T names (Some v) sufs end
  | k :: r =>
      match t with
      | T n val sufs =>
          let fix upd (l : list (tok * trie)) : option (list (tok * trie)) :=
              match l with
              | [] => None
              | (k', c') :: l' =>
                  if tok_eqb k' k then Some ((k', tinsert r names v c') :: l')
                  else match upd l' with Some l'' => Some ((k', c') :: l'') | None => None end
              end in
          match upd sufs with
          | Some sufs' => T n val sufs'
          | None => T n val (insert_suf k (chain r names v) sufs)
          end
      end
  end.

(* ---- legacy FindRoute for a document without servers ---- *)
Inductive rres := RFound (route : nat) (params : list (string * string)) | RNotFound | RMethodNotAllowed | RPanicR (w : string).

Fixpoint zip_params (names vals : list string) : list (string * string) :=
  match names, vals with
  | n :: ns, v :: vs => upd (if ends_with_star n then srev (match srev n "" with String _ r => r | e => e end) "" else n) v (zip_params ns vs)
  | _, _ => []
  end.

(* literal_ops: the methods declared for a path equal (as a string) to the request path, None if no
   such path; known_method: the method is one of the nine HTTP methods GetOperation knows *)
Definition legacy_find (root : trie) (method path : string)
           (literal_ops : option (list string)) (known_method : bool) : rres :=
  match tmatch root (strip_trailing_slashes (method ++ " " ++ path)) [] with
  | Some (n, vals) =>
      match t_value n with
      | Some r => RFound r (zip_params (t_names n) vals)
      | None => RNotFound
      end
  | None =>
      match literal_ops with
      | None => RNotFound
      | Some ops =>
          (* Operations()[method]: an unknown method has no operation *)
          (* declared literally with this method, but the pattern does not match its own text: no node *)
          if known_method && str_in method ops then RNotFound else RMethodNotAllowed
      end
  end.

(* ---- gorilla/mux: ordered route list; a segment is a literal, a variable, or a variable between a
   literal prefix and suffix ("report.{ext}": the regexp prefix([^/]+)suffix inside the segment) ---- *)
Inductive seg := SLit (s : string) | SVar (name : string) | SMix (pre name suf : string).
Fixpoint take (n : nat) (s : string) : string :=
  match n, s with
  | S k, String c r => String c (take k r)
  | _, _ => EmptyString
  end.
(* the non-empty middle of x between pre and suf *)
Definition strip_affixes (pre suf x : string) : option string :=
  if String.prefix pre x then
    let y := drop (String.length pre) x in
    let k := String.length y - String.length suf in
    if Nat.ltb (String.length suf) (String.length y) && String.eqb (drop k y) suf then Some (take k y) else None
  else None.
Fixpoint split_slash (s : string) (cur : string) : list string :=
  match s with
  | EmptyString => [cur]
  | String c r => if Ascii.eqb c "/"%char then cur :: split_slash r EmptyString
                  else split_slash r (cur ++ String c EmptyString)%string
  end.

Fixpoint segs_match (t : list seg) (p : list string) : option (list (string * string)) :=
  match t, p with
  | [], [] => Some []
  | SLit l :: t', x :: p' => if String.eqb l x then segs_match t' p' else None
  | SVar n :: t', x :: p' =>
      if String.eqb x "" then None            (* [^/]+ needs one character *)
      else match segs_match t' p' with Some m => Some (upd n x m) | None => None end
  | SMix pre n suf :: t', x :: p' =>
      match strip_affixes pre suf x with
      | Some v => match segs_match t' p' with Some m => Some (upd n v m) | None => None end
      | None => None
      end
  | _, _ => None
  end.

Record groute := mkGRoute { gr_template : list seg; gr_methods : list string; gr_id : nat }.

Inductive gres := GFound (route : nat) (params : list (string * string)) | GNotFound | GMethodNotAllowed.

(* FindRoute: the first route whose path matches decides: its method set either contains the
   request method (found) or not (method not allowed - the search stops) *)
Fixpoint gorilla_find (routes : list groute) (method : string) (path : list string) : gres :=
  match routes with
  | [] => GNotFound
  | r :: rest =>
      match segs_match (gr_template r) path with
      | Some m => if str_in method (gr_methods r) then GFound (gr_id r) m else GMethodNotAllowed
      | None => gorilla_find rest method path
      end
  end.

(* templates in Paths.InMatchingOrder: number of '}' ascending, then descending lexicographic *)
Fixpoint count_rbrace (s : string) : nat :=
  match s with EmptyString => 0 | String c r => (if Ascii.eqb c "}"%char then 1 else 0) + count_rbrace r end.
Definition order_before (a b : string) : bool :=
  if Nat.ltb (count_rbrace a) (count_rbrace b) then true
  else if Nat.ltb (count_rbrace b) (count_rbrace a) then false
  else String.ltb b a.
Fixpoint insert_ordered (x : string * list string) (l : list (string * list string)) :=
  match l with
  | [] => [x]
  | y :: r => if order_before (fst x) (fst y) then x :: l else y :: insert_ordered x r
  end.
Definition in_matching_order (paths : list (string * list string)) := fold_right insert_ordered [] paths.

