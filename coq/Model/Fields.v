(* Field discovery of openapi3gen (field_info.go appendFields, type_info.go getTypeInfo, the struct
   case of generateWithoutSaving): the tagged fields of a struct and of the structs it embeds are
   collected depth first in declaration order, sorted by (JSON name, deeper first), and written one
   after the other into the properties map - the last field of a name is the one the schema keeps.
   Names are abstracted to their rank in byte order (N), field types to an identifier (N). *)
From Coq Require Import List NArith Bool Arith.
Import ListNotations.
Local Open Scope list_scope.

Inductive fdecl :=
| FField (name : N) (ty : N)        (* a field with a json tag *)
| FEmbed (fs : list fdecl).          (* an embedded struct without a tag: its fields are promoted *)

Record entry := mkEntry { e_name : N; e_depth : nat; e_ty : N }.

Fixpoint flat1 (d : nat) (f : fdecl) : list entry :=
  match f with
  | FField n t => [mkEntry n d t]
  | FEmbed l => (fix go (l : list fdecl) : list entry :=
                   match l with [] => [] | x :: r => flat1 (S d) x ++ go r end) l
  end.
Definition flatten (fs : list fdecl) : list entry := flat_map (flat1 1) fs.

(* sortableFieldInfos.Less, as a non-strict order: by name, deeper first *)
Definition key_leb (a b : entry) : bool :=
  N.ltb (e_name a) (e_name b) || (N.eqb (e_name a) (e_name b) && Nat.leb (e_depth b) (e_depth a)).

Fixpoint insert (x : entry) (l : list entry) : list entry :=
  match l with
  | [] => [x]
  | y :: r => if key_leb x y then x :: y :: r else y :: insert x r
  end.
Fixpoint isort (l : list entry) : list entry :=
  match l with [] => [] | x :: r => insert x (isort r) end.

(* schema.WithPropertyRef(name, ref) in list order: the last entry of a name stays *)
Definition pick (n : N) (l : list entry) : option N :=
  fold_left (fun acc e => if N.eqb (e_name e) n then Some (e_ty e) else acc) l None.

Definition gen_property (fs : list fdecl) (n : N) : option N := pick n (isort (flatten fs)).

(* the rule of encoding/json among tagged fields (typeFields / dominantField): of the fields of a
   name the one of least depth is written, when it is the only one of that depth; else none is *)
Definition named (n : N) (l : list entry) : list entry := filter (fun e => N.eqb (e_name e) n) l.
Definition least_depth (l : list entry) : nat := fold_right (fun e m => Nat.min (e_depth e) m) (match l with [] => 0 | e :: _ => e_depth e end) l.
Definition json_field (fs : list fdecl) (n : N) : option (option N) :=
  let c := named n (flatten fs) in
  match filter (fun e => Nat.eqb (e_depth e) (least_depth c)) c with
  | [] => Some None                 (* no field of that name *)
  | [e] => Some (Some (e_ty e))     (* the dominant field *)
  | _ => None                       (* several at the least depth: encoding/json writes none of them *)
  end.
