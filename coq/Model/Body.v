(* Model of openapi3filter.ValidateRequestBody (validate_request.go l.240-370), without default
   injection (C13 owns it): presence, media-type selection, decoder choice, schema check as a
   request. *)
From KV Require Import Model.Base Model.Json Model.Schema Model.Lookup Model.Response.
Local Open Scope list_scope.

Record bopts := mkBOpts { b_multi : bool; b_excl_ro : bool }.

Inductive berr := BRequired | BContentType | BDecode | BSchema.
Inductive bres := BOk | BErr (e : berr) | BPanic (w : string).

Definition decode_body (ct raw : string) (parsed : option json) : option json :=
  match decoder_kind ct with
  | DJson => parsed
  | DPlain => Some (JStr raw)
  | _ => None
  end.

Section BODY.
  Variable rc : string -> bool.
  Variable rm : string -> string -> bool.
  Variable fo : string -> string -> json -> option bool.

  Definition req_settings (o : bopts) : settings := mkSt false (b_multi o) true false (b_excl_ro o) false true.

  Definition validate_body (o : bopts) (required : bool) (content : list (string * media))
             (ct raw : string) (parsed : option json) : bres :=
    if String.eqb raw "" then (if required then BErr BRequired else BOk) else
    match content with
    | [] => BOk
    | _ =>
        match content_get content ct with
        | None => BErr BContentType
        | Some m =>
            match m_schema m with
            | None => BOk
            | Some s =>
                match decode_body ct raw parsed with
                | None => BErr BDecode
                | Some v =>
                    match visit rc rm fo (req_settings o) s v with
                    | Ok => BOk
                    | Err _ => BErr BSchema
                    | Panic w => BPanic w
                    end
                end
            end
        end
    end.
End BODY.
