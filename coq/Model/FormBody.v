(* Model of the application/x-www-form-urlencoded request body decoder
   (openapi3filter/req_resp_decoder.go UrlencodedBodyDecoder, decodeSchemaConstructs, decodeProperty):
   every declared property is decoded from the parsed form as a query parameter of style form,
   explode true (the default Encoding); a property that fails to decode or is not carried is left
   out.  Not modelled: allOf/anyOf/oneOf in the body schema; of the per-property Encoding Object only
   the serialisation method it stands for (enc_method below). *)
From KV Require Import Model.Base Model.Json Model.Schema Model.Request Model.ParamCodec.
Local Open Scope list_scope.

Section FORM.
  Variable parse_int64 parse_int32 : string -> option Z.
  Variable parse_float : string -> option float.

  Definition prim_item (s : schema) : bool :=
    is_type (core_of s) "string" || is_type (core_of s) "integer" || is_type (core_of s) "number" || is_type (core_of s) "boolean".

  (* the schemas the decoder refuses: an object property, an array whose items are not primitives *)
  Definition bad_prop (ps : schema) : bool :=
    match ps with
    | Sch c _ _ _ _ it _ _ =>
        if is_type c "object" then true
        else if is_type c "array" then match it with Some i => negb (prim_item i) | None => true end
        else false
    end.

  Definition form_decode (s : schema) (q : list (string * list string)) : option (list (string * pval)) :=
    match s with
    | Sch c _ _ _ _ _ props _ =>
        if negb (is_type c "object") then None
        else if existsb (fun kp => bad_prop (snd kp)) props then None
        else
          Some (fold_left (fun acc kp =>
                             match query_decode parse_int64 parse_int32 parse_float (fst kp) "form" true (snd kp) q with
                             | DRes v _ None => if is_nil_val v then acc else upd (fst kp) v acc
                             | _ => acc      (* a decoding error is swallowed: the property is left out *)
                             end) props [])
    end.
End FORM.

(* Encoding.SerializationMethod (openapi3/encoding.go): the style and explode flag one property of a
   form body is decoded with - style form when none is written, explode true when none is written *)
Definition enc_method (style : string) (explode : option bool) : string * bool :=
  (if String.eqb style "" then "form" else style, match explode with Some b => b | None => true end).

(* the Encoding Object of the specification: "style ... default form"; "explode ... When style is
   form, the default value is true. For all other styles, the default value is false." *)
Definition enc_method_spec (style : string) (explode : option bool) : string * bool :=
  let st := if String.eqb style "" then "form" else style in
  (st, match explode with Some b => b | None => String.eqb st "form" end).
