(* Model of openapi3filter.ValidateResponse / validateResponseHeader (validate_response.go).
   Header decoding is an input (its codec is C05's); body values are validated by the schema
   model itself (Model/Schema.visit read as a response). *)
From KV Require Import Model.Base Model.Json Model.Schema Model.Lookup.
Local Open Scope list_scope.

Record hdr := mkHdr {
  h_name : string;
  h_required : bool;
  h_schema : option schema;          (* None: the header is defined by `content`, not `schema` *)
  h_found : bool;                    (* the response carries the header *)
  h_decoded : option json            (* None: its text is not a serialisation of the declared type *)
}.

Record media := mkMedia { m_schema : option schema }.

Record rdef := mkRDef {
  r_headers : list hdr;              (* sorted by name, Content-Type excluded *)
  r_content : list (string * media)
}.

Record vopts := mkVOpts {
  v_include_status : bool; v_excl_body : bool; v_excl_wo : bool; v_multi : bool
}.

Inductive body_state := BUntouched | BRestored | BLost.

Inductive rerr :=
| RStatus | RHeaderDecode (n : string) | RHeaderSchema (n : string) | RHeaderMissing (n : string)
| RContentType | RBodyDecode | RBodySchema.

Inductive rres := ROk | RErr (e : rerr) | RPanic (w : string).

Section RESP.
  Variable rc : string -> bool.
  Variable rm : string -> string -> bool.
  Variable fo : string -> string -> json -> option bool.

  Definition resp_settings (o : vopts) (asrep : bool) : settings :=
    mkSt false (v_multi o) false asrep false (v_excl_wo o) asrep.   (* bodies are decoded with UseNumber, headers are not *)

  Definition header_check (o : vopts) (h : hdr) : rres :=
    match h_schema h with
    | None =>   (* defined by `content`: only its presence is checked *)
        if h_required h && negb (h_found h) then RErr (RHeaderMissing (h_name h)) else ROk
    | Some s =>
        if h_found h then
          match h_decoded h with
          | None => RErr (RHeaderDecode (h_name h))
          | Some v =>
              match visit rc rm fo (resp_settings o false) s v with
              | Ok => ROk
              | Err _ => RErr (RHeaderSchema (h_name h))
              | Panic w => RPanic w
              end
          end
        else if h_required h then RErr (RHeaderMissing (h_name h)) else ROk
    end.

  Fixpoint headers_check (o : vopts) (hs : list hdr) : rres :=
    match hs with
    | [] => ROk
    | h :: r => match header_check o h with ROk => headers_check o r | e => e end
    end.

  (* ValidateResponse: (result, what happened to input.Body) *)
  Definition validate_response (o : vopts) (is_head : bool) (status : N)
             (responses : list (string * rdef)) (ct : string) (body : option json) : rres * body_state :=
    if is_head then (ROk, BUntouched) else
    if N.eqb status 304 || N.eqb status 308 || N.eqb status 307 || N.eqb status 301 then (ROk, BUntouched) else
    match responses with
    | [] => (ROk, BUntouched)
    | _ =>
      match select_response responses status with
      | None => (if v_include_status o then RErr RStatus else ROk, BUntouched)
      | Some d =>
          match headers_check o (r_headers d) with
          | ROk =>
              if v_excl_body o then (ROk, BUntouched) else
              match r_content d with
              | [] => (ROk, BUntouched)
              | _ =>
                  match content_get (r_content d) ct with
                  | None => (RErr RContentType, BUntouched)
                  | Some m =>
                      match m_schema m with
                      | None => (ROk, BUntouched)
                      | Some s =>
                          match body with
                          | None => (RErr RBodyDecode, BRestored)
                          | Some v =>
                              match visit rc rm fo (resp_settings o true) s v with
                              | Ok => (ROk, BRestored)
                              | Err _ => (RErr RBodySchema, BRestored)
                              | Panic w => (RPanic w, BRestored)
                              end
                          end
                      end
                  end
              end
          | e => (e, BUntouched)
          end
      end
    end.
End RESP.
