(* C15: the footprint abstraction of concurrent validation.  Shared state = package-level variables
   and the loaded document; an API call is a list of accesses.  Two things are modelled:
   (1) data-race freedom as a property of the footprints (no two threads touch one cell, one of them
       writing, unless both accesses are synchronised);
   (2) caches whose content is a function of the key (compiled patterns, type infos): the result of
       every call is the result it has when run alone, whatever the interleaving. *)
From KV Require Import Model.Base.
Local Open Scope list_scope.

(* ---- the table read from the source by xlate (Gen/Writes.v) ---- *)
Record pwrite := mkWrite { w_pkg : string; w_var : string; w_class : string; w_func : string; w_how : string; w_locked : bool }.

(* functions that configure the library (documented as not for concurrent use with validation) *)
Definition registration (f : string) : bool :=
  String.prefix "Register" f || String.prefix "Unregister" f || String.prefix "Define" f || String.eqb f "init".
Definition write_synchronised (w : pwrite) : bool :=
  w_locked w || String.eqb (w_class w) "syncmap" || String.eqb (w_class w) "lock".
Definition traffic_writes (l : list pwrite) : list (string * string * string) :=
  map (fun w => (w_pkg w, w_var w, w_func w)) (filter (fun w => negb (registration (w_func w)) && negb (write_synchronised w)) l).

(* ---- (1) footprints ---- *)
(* a cell is shared (a package variable, a field of the loaded document or of the router) or owned
   by one call (its request, settings, error list, response writer) *)
Inductive cell := Sh (name : string) | Pr (owner : nat) (name : string).
Definition cell_eqb (a b : cell) : bool :=
  match a, b with
  | Sh x, Sh y => String.eqb x y
  | Pr i x, Pr j y => Nat.eqb i j && String.eqb x y
  | _, _ => false
  end.
Inductive access := Rd (c : cell) (sync : bool) | Wr (c : cell) (sync : bool).
Definition cell_of (a : access) : cell := match a with Rd c _ | Wr c _ => c end.
Definition is_write (a : access) : bool := match a with Wr _ _ => true | _ => false end.
Definition synced (a : access) : bool := match a with Rd _ s | Wr _ s => s end.
(* a data race: same cell, at least one write, not both synchronised *)
Definition conflict (a b : access) : bool :=
  cell_eqb (cell_of a) (cell_of b) && (is_write a || is_write b) && negb (synced a && synced b).
(* the discipline: a shared cell is either synchronised (every access goes through the lock or the
   sync.Map) or immutable while validations run; a call only touches its own private cells *)
Definition respects (synchronised : string -> bool) (t : nat) (a : access) : bool :=
  match cell_of a with
  | Pr o _ => Nat.eqb o t
  | Sh n => if synchronised n then synced a else negb (is_write a)
  end.

(* ---- (2) functional caches ---- *)
Section CACHE.
  Variable V : Type.
  Variable f : string -> V.                       (* what a miss computes: regexp.Compile, the field table of a type *)

  Definition cache := list (string * V).
  Definition cache_ok (c : cache) : Prop := forall k v, assoc k c = Some v -> v = f k.

  (* one lookup: a hit returns the stored value, a miss computes and stores *)
  Definition lookup (c : cache) (k : string) : cache * V :=
    match assoc k c with Some v => (c, v) | None => ((k, f k) :: c, f k) end.

  (* an interleaving of any number of threads is a sequence of (thread, key) lookups *)
  Fixpoint run (c : cache) (sched : list (nat * string)) : cache * list (nat * V) :=
    match sched with
    | [] => (c, [])
    | (t, k) :: r => let '(c1, v) := lookup c k in let '(c2, out) := run c1 r in (c2, (t, v) :: out)
    end.
End CACHE.
