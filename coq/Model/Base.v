(* Shared basics: strings as Go byte strings, association lists, outcome codes. No proofs of
   properties here; only small utility lemmas. *)
From Coq Require Export List Bool Arith ZArith NArith String Ascii Lia.
Export ListNotations.
Open Scope string_scope.

(* bytes -> string, used by the harness printer for non-printable content *)
Definition bs (l : list N) : string :=
  fold_right (fun n acc => String (ascii_of_N n) acc) EmptyString l.

Fixpoint concat_str (l : list string) : string :=
  match l with [] => "" | x :: r => x ++ concat_str r end.

Fixpoint assoc {A} (k : string) (l : list (string * A)) : option A :=
  match l with
  | [] => None
  | (k', v) :: r => if String.eqb k k' then Some v else assoc k r
  end.

Fixpoint str_in (s : string) (l : list string) : bool :=
  match l with [] => false | x :: r => String.eqb s x || str_in s r end.

Definition opt_eqb {A} (eqb : A -> A -> bool) (a b : option A) : bool :=
  match a, b with
  | None, None => true
  | Some x, Some y => eqb x y
  | _, _ => false
  end.

Fixpoint list_eqb {A} (eqb : A -> A -> bool) (a b : list A) : bool :=
  match a, b with
  | [], [] => true
  | x :: a', y :: b' => eqb x y && list_eqb eqb a' b'
  | _, _ => false
  end.

Lemma list_eqb_refl {A} (eqb : A -> A -> bool) :
  (forall x, eqb x x = true) -> forall l, list_eqb eqb l l = true.
Proof. intros H l; induction l as [|x l IH]; simpl; [reflexivity|]. now rewrite H, IH. Qed.

Lemma app_str_assoc (a b c : string) : (a ++ b) ++ c = a ++ (b ++ c).
Proof. induction a as [|ch a IH]; simpl; [reflexivity|]. now rewrite IH. Qed.

Lemma app_str_nil_r (a : string) : a ++ "" = a.
Proof. induction a as [|ch a IH]; simpl; [reflexivity|]. now rewrite IH. Qed.

(* Judgement codes returned by the Exec/ drivers for one case:
   0 ok; 2 violation (implementation disagrees with the Spec);
   3 correspondence drift (implementation satisfies the Spec on this input but differs from
     the model although no guard is falsified);
   4 note (a recorded defect no longer reproduces);
   100+k known-finding class k (implementation = model, both disagree with the Spec, and the
     input falsifies named guard k). *)
Definition J_OK : N := 0.
Definition J_VIOL : N := 2.
Definition J_DRIFT : N := 3.
Definition J_NOTE : N := 4.
Definition J_KNOWN (k : N) : N := 100 + k.

(* flatten (index, code) pairs for the non-zero codes: easy to parse from coqc's output *)
Fixpoint judge_all_from {C} (judge : C -> N) (i : N) (cs : list C) : list N :=
  match cs with
  | [] => []
  | c :: r =>
      let j := judge c in
      if N.eqb j 0 then judge_all_from judge (N.succ i) r
      else i :: j :: judge_all_from judge (N.succ i) r
  end.
Definition judge_all {C} (judge : C -> N) (cs : list C) : list N := judge_all_from judge 0 cs.
