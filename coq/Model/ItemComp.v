(* Elements of an array parameter whose items schema is a composition
   (openapi3filter/req_resp_decoder.go parseValue, used by both array parsers since a22c443):
   allOf - every member reads the text, a member that yields nil (no type: only constraints) leaves
   the value of the others; anyOf - the first member that reads it; oneOf - exactly one member must
   read it; not - not implemented; otherwise parsePrimitive on the schema itself. *)
From Coq Require Import List String ZArith Bool.
From KV Require Import Model.Base Model.Json Model.Schema Model.ParamCodec.
Import ListNotations.
Local Open Scope list_scope.

Section ITEMCOMP.
  Variable parse_int64 parse_int32 : string -> option Z.
  Variable parse_float : string -> option float.

  Notation prim := (parse_primitive parse_int64 parse_int32 parse_float).

  Fixpoint parse_value (raw : string) (s : schema) {struct s} : pres :=
    match s with
    | Sch c nt oo ao al _ _ _ =>
        match al with
        | _ :: _ =>
            (fix all (l : list schema) (acc : pval) {struct l} : pres :=
               match l with
               | [] => PROk acc
               | m :: r => match parse_value raw m with
                           | PRErr e => PRErr e
                           | PROk PNil => all r acc
                           | PROk v => all r v
                           end
               end) al PNil
        | [] =>
            match ao with
            | _ :: _ =>
                (fix any (l : list schema) (last : pres) {struct l} : pres :=
                   match l with
                   | [] => last
                   | m :: r => match parse_value raw m with
                               | PROk v => PROk v
                               | PRErr e => any r (PRErr e)
                               end
                   end) ao (PROk PNil)
            | [] =>
                match oo with
                | _ :: _ =>
                    (fix one (l : list schema) (n : nat) (v : pval) {struct l} : pres :=
                       match l with
                       | [] => if Nat.eqb n 1 then PROk v else PRErr DOther
                       | m :: r => match parse_value raw m with
                                   | PROk w => one r (S n) w
                                   | PRErr _ => one r n v
                                   end
                       end) oo 0 PNil
                | [] =>
                    match nt with
                    | Some _ => PRErr DOther
                    | None => prim raw c
                    end
                end
            end
        end
    end.

  (* parseArray over parseValue: an element that reads as nil makes the whole array nil *)
  Fixpoint parse_array_v (raw : list string) (item : schema) (acc : list pval) : pres :=
    match raw with
    | [] => PROk (PA acc)
    | x :: r => match parse_value x item with
                | PROk PNil => PROk PNil
                | PROk v => parse_array_v r item (acc ++ [v])
                | PRErr e => PRErr e
                end
    end.
End ITEMCOMP.
