(* openapi3gen (generateWithoutSaving) for non-recursive Go types, and the image of encoding/json
   on values of those types, as a checkable relation.  Types are finite trees: recursion through
   named types (component references, cycle cutting) is exercised on the Go side only. *)
From KV Require Import Model.Base Model.Json Model.Schema.
Local Open Scope list_scope.

Inductive gty :=
| TBool
| TInt (lo hi : option float) (fmt : string)    (* the bounds and format the generator emits for the kind *)
| TFloat (fmt : string)
| TString
| TBytes
| TTime
| TAny                                          (* interface{}, json.RawMessage, arrays, untagged structs: empty schema *)
| TPtr (t : gty)
| TSlice (t : gty)
| TMap (t : gty)
| TStruct (fields : list (string * bool * gty)). (* tagged fields sorted by JSON name: name, omitempty, type *)

Definition core0 : score := mkCore None [] false false false false "" false false false None None None 0 None "" 0 None [] 0 None None.
Definition with_types (c : score) (ts : list string) : score :=
  mkCoreD (Some ts) (c_enum c) (c_nullable c) (c_readOnly c) (c_writeOnly c) (c_allowEmpty c) (c_format c) (c_unique c) (c_exMin c) (c_exMax c)
          (c_min c) (c_max c) (c_mult c) (c_minLen c) (c_maxLen c) (c_pattern c) (c_minItems c) (c_maxItems c) (c_required c) (c_minProps c)
          (c_maxProps c) (c_apHas c) (c_default c).
Definition mk_core (ts : option (list string)) (nullable : bool) (fmt : string) (lo hi : option float) : score :=
  mkCore ts [] nullable false false false fmt false false false lo hi None 0 None "" 0 None [] 0 None None.

(* generateWithoutSaving: [nullable] = the type was reached through a pointer below the root *)
Fixpoint gen (nullable : bool) (t : gty) {struct t} : schema :=
  match t with
  | TBool => Sch (mk_core (Some ["boolean"]) nullable "" None None) None [] [] [] None [] None
  | TInt lo hi fmt => Sch (mk_core (Some ["integer"]) nullable fmt lo hi) None [] [] [] None [] None
  | TFloat fmt => Sch (mk_core (Some ["number"]) nullable fmt None None) None [] [] [] None [] None
  | TString => Sch (mk_core (Some ["string"]) nullable "" None None) None [] [] [] None [] None
  | TBytes => Sch (mk_core (Some ["string"]) nullable "byte" None None) None [] [] [] None [] None
  | TTime => Sch (mk_core (Some ["string"]) nullable "date-time" None None) None [] [] [] None [] None
  | TAny => Sch (mk_core None nullable "" None None) None [] [] [] None [] None
  | TPtr t' => gen true t'
  | TSlice t' => Sch (mk_core (Some ["array"]) nullable "" None None) None [] [] [] (Some (gen false t')) [] None
  | TMap t' => Sch (mk_core (Some ["object"]) nullable "" None None) None [] [] [] None [] (Some (gen false t'))
  | TStruct fields =>
      Sch (mk_core (match fields with [] => None | _ => Some ["object"] end) nullable "" None None) None [] [] [] None
          ((fix go (l : list (string * bool * gty)) : list (string * schema) :=
              match l with [] => [] | (n, _, ft) :: r => (n, gen false ft) :: go r end) fields) None
  end.
(* the root: pointers at the root are not nullable *)
Fixpoint gen_root (t : gty) : schema := match t with TPtr t' => gen_root t' | _ => gen false t end.

(* what json.Marshal can produce for a value of the type (slices and maps non-nil) *)
Fixpoint encb (t : gty) (j : json) {struct t} : bool :=
  match t with
  | TBool => match j with JBool _ => true | _ => false end
  | TInt lo hi _ =>
      match j with
      | JNum x => f_is_int x && match lo with Some m => PrimFloat.leb m x | None => true end
                  && match hi with Some m => PrimFloat.leb x m | None => true end
      | _ => false
      end
  | TFloat _ => match j with JNum x => negb (f_is_nan x) && negb (f_is_inf x) | _ => false end
  | TString | TBytes | TTime => match j with JStr _ => true | _ => false end
  | TAny => negb (is_null j)      (* a nil interface encodes as null: only the IsEmpty shortcut accepts it (C01 class 1) *)
  | TPtr t' => match j with JNull => true | _ => encb t' j end
  | TSlice t' => match j with JArr l => forallb (encb t') l | _ => false end
  | TMap t' => match j with JObj l => forallb (fun kv => encb t' (snd kv)) l | _ => false end
  | TStruct fields =>
      match j with
      | JObj l =>
          (fix go (fs : list (string * bool * gty)) : bool :=
             match fs with
             | [] => true
             | (n, omit, ft) :: r =>
                 match assoc n l with Some x => encb ft x | None => omit end && go r
             end) fields
      | _ => false
      end
  end.

(* a compact rendering, for comparing generated schemas with the Go generator's *)
Definition show_f (o : option float) (name : string) (show : float -> string) : string :=
  match o with Some x => (name ++ show x)%string | None => "" end.
