(* Model of deepObject query parameters (openapi3filter/req_resp_decoder.go): the key parsing of
   urlValuesDecoder.DecodeObject (style deepObject), deepSet / deepGet, makeObject, sliceMapToSlice
   and buildResObj for schemas made of objects (declared properties and an additionalProperties
   schema), arrays and primitives; the `found` computation of DecodeObject.
   Not modelled: anyOf / oneOf / allOf inside a deepObject schema (buildFromSchemas).
   strconv.Atoi and the primitive parsers are oracles. *)
From Coq Require Import DecimalString.
From KV Require Import Model.Base Model.Json Model.Schema Model.Request Model.ParamCodec.
Local Open Scope list_scope.

(* map[string]any holding strings and maps: what deepSet builds *)
Inductive ptree := PLeaf (s : string) | PNode (kids : list (string * ptree)).

(* the schema as buildResObj sees it *)
Inductive dsch :=
| DSPrim (c : score)
| DSArr (items : dsch)
| DSObj (props : list (string * dsch)) (ap : option dsch).

Definition delim : string := String (ascii_of_N 31) EmptyString.   (* urlDecoderDelimiter "\x1F" *)

(* ---- key parsing: name[ ... ][ ... ] ---- *)
Fixpoint until_char (c : ascii) (s : string) : option (string * string) :=
  match s with
  | EmptyString => None
  | String d r => if Ascii.eqb d c then Some (EmptyString, r)
                  else match until_char c r with Some (a, b) => Some (String d a, b) | None => None end
  end.
(* the contents of the bracket pairs of a key, left to right: regexp \[(.*?)\] (keys without line
   breaks): from each '[' to the next ']' *)
Fixpoint brackets (fuel : nat) (s : string) : list string :=
  match fuel with
  | O => []
  | S f =>
      match s with
      | EmptyString => []
      | String c r =>
          if Ascii.eqb c "["%char then
            match until_char "]"%char r with
            | Some (inner, rest) => inner :: brackets f rest
            | None => []
            end
          else brackets f r
      end
  end.
Definition key_path (key : string) : list string := brackets (S (String.length key)) key.

Fixpoint contains (d s : string) : bool :=
  match s with
  | EmptyString => String.eqb d ""
  | String _ r => String.prefix d s || contains d r
  end.

(* props of DecodeObject: the keys that start with name[ and have a bracket pair; the path of
   bracket contents (kept as a list: Join / Split by the delimiter, see [path_clean]) and the
   values joined by the delimiter *)
Definition deep_props (name : string) (q : list (string * list string)) : list (list string * string) :=
  flat_map (fun kv =>
              if String.prefix (name ++ "[") (fst kv) then
                match key_path (fst kv) with
                | [] => []
                | p => [(p, join delim (snd kv))]
                end
              else []) q.

(* ---- deepSet / deepGet ---- *)
Fixpoint deep_set (m : list (string * ptree)) (keys : list string) (value : string) : list (string * ptree) :=
  match keys with
  | [] => m
  | [last] => match assoc last m with
              | Some (PNode _) => m                      (* the nested form wins *)
              | _ => upd last (PLeaf value) m
              end
  | k :: rest =>
      let next := match assoc k m with Some (PNode n) => n | _ => [] end in
      upd k (PNode (deep_set next rest value)) m
  end.

(* a value that is not a map ends the walk, whatever keys remain *)
Fixpoint deep_get (m : list (string * ptree)) (keys : list string) : option ptree :=
  match keys with
  | [] => Some (PNode m)
  | k :: r => match assoc k m with
              | None => None
              | Some (PNode n) => deep_get n r
              | Some (PLeaf s) => Some (PLeaf s)
              end
  end.

(* deepGet on the decoded object (maps, slices, primitives) *)
Fixpoint deep_get_v (m : list (string * pval)) (keys : list string) : bool :=
  match keys with
  | [] => true
  | k :: r => match assoc k m with
              | None => false
              | Some (PO n) => deep_get_v n r
              | Some _ => true
              end
  end.

(* a primitive schema: its type (or none) and format are all parsePrimitive looks at *)
Definition prim_core (types : option (list string)) (fmt : string) : score :=
  mkCore types [] false false false false fmt false false false None None None 0%N None "" 0%N None [] 0%N None None.

Definition itoa (n : nat) : string := NilZero.string_of_uint (Nat.to_uint n).

Definition has_key {A} (k : string) (l : list (string * A)) : bool :=
  match assoc k l with Some _ => true | None => false end.

Section DEEP.
  Variable parse_int64 parse_int32 : string -> option Z.
  Variable parse_float : string -> option float.
  Variable atoi : string -> option Z.               (* strconv.Atoi *)

  (* makeObject, first half: None = "array items must be set with indexes" *)
  Definition mk_tree (props : list (list string * string)) : option (list (string * ptree)) :=
    fold_left (fun acc kv =>
                 match acc with
                 | None => None
                 | Some m => if contains delim (snd kv) then None else Some (deep_set m (fst kv) (snd kv))
                 end) props (Some []).

  (* sliceMapToSlice: only the length of the slice matters; None = an error *)
  Definition slice_len (t : list (string * ptree)) : option nat :=
    let keys := map (fun kv => atoi (fst kv)) t in
    if existsb (fun k => match k with None => true | Some _ => false end) keys then None
    else
      let mx := fold_left (fun acc k => match k with Some z => Z.max acc z | None => acc end) keys (-1)%Z in
      if Z.leb (Z.of_nat (List.length t) + 4096) mx then None
      else Some (Z.to_nat (mx + 1)).

  Inductive bres := BOk (v : pval) | BErr.

  Fixpoint collect (l : list bres) : option (list pval) :=
    match l with
    | [] => Some []
    | BErr :: _ => None
    | BOk v :: r => option_map (cons v) (collect r)
    end.

  Definition child_path (parent : list string) (key : string) : list string :=
    if String.eqb key "" then parent else parent ++ [key].

  (* the loops of the object case: results that are nil are skipped, an error ends the loop *)
  Definition obj_loop {A} (f : string -> A -> bres) : list (string * A) -> list (string * pval) -> option (list (string * pval)) :=
    fix go (l : list (string * A)) (acc : list (string * pval)) : option (list (string * pval)) :=
      match l with
      | [] => Some acc
      | (k, a) :: r =>
          match f k a with
          | BErr => None
          | BOk PNil => go r acc
          | BOk v => go r (upd k v acc)
          end
      end.

  (* buildResObj params parentKeys key schema *)
  Fixpoint build (params : list (string * ptree)) (s : dsch) (parent : list string) (key : string) {struct s} : bres :=
    let mk := child_path parent key in
    match s with
    | DSArr items =>
        match deep_get params mk with
        | None => BOk PNil
        | Some (PLeaf _) => BErr
        | Some (PNode t) =>
            match slice_len t with
            | None => BErr
            | Some n =>
                match collect (map (fun i => build params items mk (itoa i)) (List.seq 0 n)) with
                | Some l => BOk (PA l)
                | None => BErr
                end
            end
        end
    | DSObj props ap =>
        match deep_get params mk with
        | None => BOk PNil
        | Some (PLeaf raw) => BOk (PS raw)            (* not the expected type: returned as it is *)
        | Some (PNode objp) =>
            match obj_loop (fun k ps => build params ps mk k) props [] with
            | None => BErr
            | Some m =>
                match ap with
                | None => BOk (PO m)
                | Some aps =>
                    match obj_loop (fun k (_ : ptree) => if has_key k props then BOk PNil else build params aps mk k) objp m with
                    | Some m' => BOk (PO m')
                    | None => BErr
                    end
                end
            end
        end
    | DSPrim c =>
        match deep_get params mk with
        | None => BOk PNil
        | Some (PNode _) => BErr                       (* "path is not convertible to primitive" *)
        | Some (PLeaf v) =>
            match parse_primitive parse_int64 parse_int32 parse_float v c with
            | PROk p => BOk p
            | PRErr _ => BErr
            end
        end
    end.

  (* DecodeObject for style deepObject, then decodeValue's wrapping: value, found, error *)
  Definition deep_decode (name : string) (s : dsch) (q : list (string * list string)) : dres :=
    match deep_props name q with
    | [] => DRes PNil false None
    | props =>
        match mk_tree props with
        | None => DRes PNil false (Some DParse)
        | Some tree =>
            match build tree s [] "" with
            | BOk (PO m) =>
                let decl := match s with DSObj ps _ => ps | _ => [] end in
                let found :=
                    match decl with
                    | [] => false
                    | _ => existsb (fun kp => existsb (fun pv => match fst pv with [k] => String.eqb k (fst kp) | _ => false end) props) decl
                           || existsb (fun pv => deep_get_v m (fst pv)) props
                    end in
                DRes (PO m) found None
            | _ => DRes PNil false (Some DParse)
            end
        end
    end.
End DEEP.
