(* Model of openapi3filter.ValidateRequest / ValidateSecurityRequirements / validateSecurityRequirement
   (validate_request.go l.33-106, l.375-500): the orchestration only.  The verdict of each part
   (a parameter, the body, the authentication callback per scheme) is an input. *)
From KV Require Import Model.Base.
Local Open Scope list_scope.

Inductive loc := LPath | LQuery | LHeader | LCookie.
Definition loc_eqb (a b : loc) : bool :=
  match a, b with
  | LPath, LPath | LQuery, LQuery | LHeader, LHeader | LCookie, LCookie => true
  | _, _ => false
  end.

Record param := mkParam { p_in : loc; p_name : string; p_ok : bool }.

(* a security requirement: scheme names in the order the code visits them (sorted) *)
Definition requirement := list string.

Record operation := mkOp {
  op_security : option (list requirement);    (* None: the operation declares no security *)
  doc_security : list requirement;
  op_params : list param;
  path_params : list param;
  op_has_body : bool;
  op_body_ok : bool
}.

Record ropts := mkROpts {
  o_multi : bool;
  o_excl_body : bool;
  o_excl_query : bool;
  o_has_auth : bool          (* an AuthenticationFunc is configured *)
}.

Inductive part := PSec | PParam (l : loc) (n : string) | PBody.

Section REQ.
  Variable declared : string -> bool.    (* the scheme is declared in components.securitySchemes *)
  Variable auth : string -> bool.        (* outcome of the authentication callback per scheme *)

  (* validateSecurityRequirement: (satisfied, callback calls) *)
  Fixpoint schemes_ok (names : list string) : bool * list string :=
    match names with
    | [] => (true, [])
    | n :: r =>
        if negb (declared n) then (false, [])
        else if auth n then let '(b, c) := schemes_ok r in (b, n :: c)
        else (false, [n])
    end.
  (* the empty requirement asks for nothing; otherwise no callback means failure *)
  Definition requirement_ok (o : ropts) (r : requirement) : bool * list string :=
    match r with
    | [] => (true, [])
    | _ => if negb (o_has_auth o) then (false, []) else schemes_ok r
    end.

  (* ValidateSecurityRequirements: first satisfied requirement wins *)
  Fixpoint requirements_scan (o : ropts) (rs : list requirement) : bool * list string :=
    match rs with
    | [] => (false, [])
    | r :: rest =>
        let '(b, c) := requirement_ok o r in
        if b then (true, c)
        else let '(b', c') := requirements_scan o rest in (b', c ++ c')
    end.
  Definition security_ok (o : ropts) (rs : list requirement) : bool * list string :=
    match rs with [] => (true, []) | _ => requirements_scan o rs end.

  Definition overridden (ops : list param) (p : param) : bool :=
    existsb (fun q => loc_eqb (p_in q) (p_in p) && String.eqb (p_name q) (p_name p)) ops.

  Definition part_of (p : param) : part := PParam (p_in p) (p_name p).

  (* the parts ValidateRequest checks, in order, each with its verdict *)
  Definition checked_parts (o : ropts) (op : operation) : list (part * bool) :=
    let sec := match op_security op with Some l => l | None => doc_security op end in
    [(PSec, fst (security_ok o sec))]
    ++ map (fun p => (part_of p, p_ok p))
           (filter (fun p => negb (overridden (op_params op) p))
                   (filter (fun p => negb (o_excl_query o && loc_eqb (p_in p) LQuery)) (path_params op)))
    ++ map (fun p => (part_of p, p_ok p))
           (filter (fun p => negb (o_excl_query o && loc_eqb (p_in p) LQuery)) (op_params op))
    ++ (if op_has_body op && negb (o_excl_body o) then [(PBody, op_body_ok op)] else []).

  Definition auth_calls (o : ropts) (op : operation) : list string :=
    let sec := match op_security op with Some l => l | None => doc_security op end in
    snd (security_ok o sec).

  (* result: None = nil error; Some l = the error(s) returned: in multi mode every failing part in
     order, otherwise the first one *)
  Definition validate_request (o : ropts) (op : operation) : option (list part) :=
    let failing := map fst (filter (fun pb => negb (snd pb)) (checked_parts o op)) in
    match failing with
    | [] => None
    | f :: r => Some (if o_multi o then f :: r else [f])
    end.
End REQ.
