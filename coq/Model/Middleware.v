(* Model of openapi3filter/middleware.go: Validator.Middleware, warnResponseWrapper,
   strictResponseWrapper, and a reference model of the client-side http.ResponseWriter
   (net/http/httptest.ResponseRecorder semantics: first WriteHeader wins, implicit 200 on first
   Write/Flush, WriteHeader outside 100..999 panics). Executable; no proofs here. *)
From KV Require Import Model.Base.

Inductive hop :=
| HSetHeader (k v : string)
| HWriteHeader (n : Z)
| HWrite (b : string)
| HFlush.

(* ---- client reference writer ---- *)
Record client := mkClient {
  c_wrote : bool;       (* header written *)
  c_code : Z;           (* status the client sees (recorder starts at 200) *)
  c_body : string;      (* bytes the client received, in order *)
  c_panic : bool        (* the writer panicked (invalid WriteHeader code) *)
}.
Definition client0 : client := mkClient false 200 "" false.

Definition code_valid (n : Z) : bool := (100 <=? n)%Z && (n <=? 999)%Z.

Definition cl_write_header (c : client) (n : Z) : client :=
  if c_panic c then c else
  if c_wrote c then c else
  if code_valid n then mkClient true n (c_body c) false
  else mkClient (c_wrote c) (c_code c) (c_body c) true.

Definition cl_write (c : client) (b : string) : client :=
  if c_panic c then c else
  let c1 := if c_wrote c then c else mkClient true 200 (c_body c) false in
  mkClient (c_wrote c1) (c_code c1) (c_body c1 ++ b) false.

Definition cl_flush (c : client) : client :=
  if c_panic c then c else
  if c_wrote c then c else mkClient true 200 (c_body c) false.

(* a handler (or error callback) talking to the client writer directly *)
Definition cl_step (c : client) (h : hop) : client :=
  match h with
  | HSetHeader _ _ => c
  | HWriteHeader n => cl_write_header c n
  | HWrite b => cl_write c b
  | HFlush => cl_flush c
  end.
Definition cl_run (c : client) (hs : list hop) : client := fold_left cl_step hs c.

(* ---- the two wrappers ---- *)
Record wrap := mkWrap {
  w_hw : bool;          (* headerWritten *)
  w_status : Z;         (* status, 0 if not set *)
  w_body : string;      (* buffered body *)
  w_cl : client         (* the wrapped writer *)
}.
Definition wrap0 (c : client) : wrap := mkWrap false 0 "" c.

(* warnResponseWrapper.WriteHeader *)
Definition warn_write_header (w : wrap) (n : Z) : wrap :=
  let st := if w_hw w then w_status w else n in
  mkWrap true st (w_body w) (cl_write_header (w_cl w) st).

Definition warn_step (w : wrap) (h : hop) : wrap :=
  if c_panic (w_cl w) then w else
  match h with
  | HSetHeader _ _ => w
  | HWriteHeader n => warn_write_header w n
  | HWrite b =>
      let w1 := if w_hw w then w else warn_write_header w 200 in
      (* io.MultiWriter(w, &body): client first, then the buffer *)
      mkWrap (w_hw w1) (w_status w1) (w_body w1 ++ b) (cl_write (w_cl w1) b)
  | HFlush => mkWrap (w_hw w) (w_status w) (w_body w) (cl_flush (w_cl w))
  end.

(* strictResponseWrapper: nothing reaches the client before flushBodyContents; it does not
   implement http.Flusher, so a handler's Flush attempt is a no-op *)
Definition strict_step (w : wrap) (h : hop) : wrap :=
  match h with
  | HSetHeader _ _ => w
  | HWriteHeader n => if w_hw w then w else mkWrap true n (w_body w) (w_cl w)
  | HWrite b =>
      let w1 := if w_hw w then w else mkWrap true 200 (w_body w) (w_cl w) in
      mkWrap (w_hw w1) (w_status w1) (w_body w1 ++ b) (w_cl w1)
  | HFlush => w
  end.

(* statusCode(): the status the handler set, or 200 if it set none *)
Definition w_code (w : wrap) : Z := if w_hw w then w_status w else 200%Z.

Definition strict_flush (w : wrap) : client :=
  cl_write (cl_write_header (w_cl w) (w_code w)) (w_body w).

(* ---- Validator.Middleware ---- *)
Inductive errcode := ECNotFound | ECBadRequest | ECRespInvalid.
Inductive logkind := LRoute | LRequest | LResponse.

Record outcome := mkOut {
  o_client : client;
  o_called : bool;                       (* the wrapped handler ran *)
  o_errs : list (Z * errcode);           (* calls of the error callback *)
  o_logs : list logkind;                 (* calls of the log callback *)
  o_vstatus : Z;                         (* status handed to response validation *)
  o_vbody : string                       (* body handed to response validation *)
}.

Section MW.
  (* outcome of routing / request validation / response validation: oracles (their own
     properties are C09, C07, C08) *)
  Variable route_ok req_ok : bool.
  Variable resp_ok : Z -> string -> bool.
  (* the error callback, as the script of writer calls it performs (default: http.Error) *)
  Variable ef : Z -> errcode -> list hop.
  Variable strict : bool.

  Definition run (hs : list hop) : outcome :=
    if negb route_ok then
      mkOut (cl_run client0 (ef 404 ECNotFound)) false [(404%Z, ECNotFound)] [LRoute] 0 ""
    else if negb req_ok then
      mkOut (cl_run client0 (ef 400 ECBadRequest)) false [(400%Z, ECBadRequest)] [LRequest] 0 ""
    else
      let w := fold_left (if strict then strict_step else warn_step) hs (wrap0 client0) in
      if c_panic (w_cl w) then mkOut (w_cl w) true [] [] 0 "" else
      if negb (resp_ok (w_code w) (w_body w)) then
        if strict then
          mkOut (cl_run (w_cl w) (ef 500 ECRespInvalid)) true [(500%Z, ECRespInvalid)] [LResponse]
                (w_code w) (w_body w)
        else mkOut (w_cl w) true [] [LResponse] (w_code w) (w_body w)
      else
        mkOut (if strict then strict_flush w else w_cl w) true [] [] (w_code w) (w_body w).
End MW.

(* the default error callback: http.Error(w, text, status) *)
Definition default_ef (status : Z) (code : errcode) : list hop :=
  let text := match code with
              | ECNotFound => "not found"
              | ECBadRequest => "bad request"
              | ECRespInvalid => "server error"
              end in
  [HSetHeader "Content-Type" "text/plain; charset=utf-8";
   HSetHeader "X-Content-Type-Options" "nosniff";
   HWriteHeader status; HWrite (text ++ String (ascii_of_N 10) "")].
