(* Judge for C18: the Go generator's schema against gen_root, json.Marshal's output against encb,
   and the validation verdict of every encoded value. *)
From KV Require Import Model.Base Model.Json Model.Schema Model.GoTypes.
Local Open Scope list_scope.

Definition optf_eqb (a b : option float) : bool := opt_eqb f_same_text a b.
Definition optN_eqb (a b : option N) : bool := opt_eqb N.eqb a b.
Definition core_eqb (a b : score) : bool :=
  opt_eqb (list_eqb String.eqb) (c_types a) (c_types b) && list_eqb json_eqb (c_enum a) (c_enum b) &&
  Bool.eqb (c_nullable a) (c_nullable b) && Bool.eqb (c_readOnly a) (c_readOnly b) && Bool.eqb (c_writeOnly a) (c_writeOnly b) &&
  Bool.eqb (c_allowEmpty a) (c_allowEmpty b) && String.eqb (c_format a) (c_format b) && Bool.eqb (c_unique a) (c_unique b) &&
  Bool.eqb (c_exMin a) (c_exMin b) && Bool.eqb (c_exMax a) (c_exMax b) && optf_eqb (c_min a) (c_min b) && optf_eqb (c_max a) (c_max b) &&
  optf_eqb (c_mult a) (c_mult b) && N.eqb (c_minLen a) (c_minLen b) && optN_eqb (c_maxLen a) (c_maxLen b) &&
  String.eqb (c_pattern a) (c_pattern b) && N.eqb (c_minItems a) (c_minItems b) && optN_eqb (c_maxItems a) (c_maxItems b) &&
  list_eqb String.eqb (c_required a) (c_required b) && N.eqb (c_minProps a) (c_minProps b) && optN_eqb (c_maxProps a) (c_maxProps b) &&
  opt_eqb Bool.eqb (c_apHas a) (c_apHas b) && opt_eqb json_eqb (c_default a) (c_default b).

Fixpoint schema_eqb (a b : schema) {struct a} : bool :=
  match a, b with
  | Sch ca na oa ya la ia pa aa, Sch cb nb ob yb lb ib pb ab =>
      core_eqb ca cb &&
      match na, nb with None, None => true | Some x, Some y => schema_eqb x y | _, _ => false end &&
      (fix go (l m : list schema) {struct l} : bool :=
         match l, m with [], [] => true | x :: l', y :: m' => schema_eqb x y && go l' m' | _, _ => false end) oa ob &&
      (fix go (l m : list schema) {struct l} : bool :=
         match l, m with [], [] => true | x :: l', y :: m' => schema_eqb x y && go l' m' | _, _ => false end) ya yb &&
      (fix go (l m : list schema) {struct l} : bool :=
         match l, m with [], [] => true | x :: l', y :: m' => schema_eqb x y && go l' m' | _, _ => false end) la lb &&
      match ia, ib with None, None => true | Some x, Some y => schema_eqb x y | _, _ => false end &&
      (fix go (l m : list (string * schema)) {struct l} : bool :=
         match l, m with
         | [], [] => true
         | (k, x) :: l', (k', y) :: m' => String.eqb k k' && schema_eqb x y && go l' m'
         | _, _ => false end) pa pb &&
      match aa, ab with None, None => true | Some x, Some y => schema_eqb x y | _, _ => false end
  end.

Record gcase := mkGC {
  gc_ty : gty;
  gc_schema : schema;                  (* what openapi3gen produced (component references inlined) *)
  gc_values : list (json * bool)       (* json.Marshal of a value of the type (decoded), VisitJSON accepted *)
}.

Definition judge_C18 (c : gcase) : N :=
  if existsb (fun jv => negb (snd jv) && negb (is_null (fst jv))) (gc_values c) then J_VIOL      (* an encoding is rejected *)
  else if negb (schema_eqb (gen_root (gc_ty c)) (gc_schema c)) then J_DRIFT                     (* generator model *)
  else if negb (forallb (fun jv => is_null (fst jv) || encb (gc_ty c) (fst jv)) (gc_values c)) then J_DRIFT  (* encoder image *)
  else J_OK.
