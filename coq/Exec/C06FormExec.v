(* Judge of the urlencoded form bodies of C06: UrlencodedBodyDecoder on the real code against
   Model/FormBody.v, and against the object the form stands for (Proofs/FormProofs.form_value). *)
From KV Require Import Model.Base Model.Json Model.Schema Model.Request Model.ParamCodec Model.FormBody Proofs.FormProofs Exec.SchemaExec Exec.C05Exec.
Local Open Scope list_scope.

Record c06form := mkForm {
  ff_schema : schema;
  ff_query : list (string * list string);        (* url.Values of the body, keys sorted *)
  ff_fields : list (string * field);             (* the same, per key: one text or the texts of an array *)
  ff_int64 : list (string * option Z);
  ff_int32 : list (string * option Z);
  ff_float : list (string * option float);
  gf_err : bool;                                  (* the decoder returned an error *)
  gf_val : pval                                   (* the decoded object *)
}.

Definition judge_form (k : c06form) : N :=
  let pi64 := lk_opt (ff_int64 k) in
  let pi32 := lk_opt (ff_int32 k) in
  let pf := lk_opt (ff_float k) in
  let model := form_decode pi64 pi32 pf (ff_schema k) (ff_query k) in
  let same := match model with
              | None => gf_err k
              | Some m => negb (gf_err k) && pval_eqb (PO m) (gf_val k)
              end in
  let props := match ff_schema k with Sch _ _ _ _ _ _ props _ => props end in
  match ff_fields k with
  | [] => if same then J_OK else J_DRIFT
  | _ =>
    match form_value pi64 pi32 pf props (ff_fields k) with
    | Some m =>
        (* every carried declared property is a value of its schema: the decoder returns them, read at their types *)
        let ok := negb (gf_err k) && pval_eqb (PO m) (gf_val k) in
        if ok then (if same then J_OK else J_DRIFT) else if same then J_KNOWN 9 else J_VIOL
    | None => if same then J_OK else J_DRIFT
    end
  end.

(* the serialisation method of an Encoding Object: what Encoding.SerializationMethod returned against enc_method *)
Record c06enc := mkEnc { en_style : string; en_explode : option bool; gn_style : string; gn_explode : bool }.
Definition judge_enc (k : c06enc) : N :=
  let m := enc_method (en_style k) (en_explode k) in
  if String.eqb (fst m) (gn_style k) && Bool.eqb (snd m) (gn_explode k) then J_OK else J_DRIFT.
