(* Judge of the server-matching cases of C09: Server.MatchRawURL, Server.ParameterNames and
   Servers.MatchURL on the real code against the model (Model/Server.v) and the specification
   (Spec/ServerSpec.v). *)
From KV Require Import Model.Base Model.Lookup Model.ParamCodec Model.Router.
From KV Require Import Model.Server Spec.ServerSpec.
Local Open Scope list_scope.

Record c09srv := mkC09S {
  s9_patterns : list string;                      (* the declared server URLs, in order *)
  s9_url : string;                                (* the text handed to MatchRawURL *)
  s9_go : list (bool * (list string * string));   (* per server: ok, values, remainder *)
  s9_names : list (option (list string));         (* per server: ParameterNames (None: error) *)
  s9_full : string;                               (* parsedURL.String() of the request, query included *)
  s9_idx : option (nat * (list string * string))  (* Servers.MatchURL: index of the server, values, remainder *)
}.

Definition is_space (c : ascii) : bool :=
  let n := nat_of_ascii c in Nat.eqb n 32 || (Nat.leb 9 n && Nat.leb n 13).
Fixpoint trim_left (s : string) : string :=
  match s with String c r => if is_space c then trim_left r else s | EmptyString => s end.
Definition trim_space (s : string) : string := srev (trim_left (srev (trim_left s) "")) "".

Definition cut_query (u : string) : string :=
  match index_byte "?"%char u with Some i => take i u | None => u end.

Definition obs_of (r : mres) : bool * (list string * string) :=
  match r with MYes ps rest => (true, (ps, rest)) | _ => (false, ([], "")) end.
Definition obs_eqb (a b : bool * (list string * string)) : bool :=
  Bool.eqb (fst a) (fst b) && list_eqb String.eqb (fst (snd a)) (fst (snd b)) && String.eqb (snd (snd a)) (snd (snd b)).

Fixpoint all2 {A B} (f : A -> B -> bool) (a : list A) (b : list B) : bool :=
  match a, b with
  | [], [] => true
  | x :: a', y :: b' => f x y && all2 f a' b'
  | _, _ => false
  end.

Definition judge_srv (k : c09srv) : N :=
  let url := s9_url k in
  let model := map (fun p => obs_of (match_raw_url p url)) (s9_patterns k) in
  let same_match := all2 obs_eqb model (s9_go k) in
  let same_names := all2 (fun p g => opt_eqb (list_eqb String.eqb) (option_map (map trim_space) (parameter_names p)) g)
                         (s9_patterns k) (s9_names k) in
  let same_idx := match match_url (s9_patterns k) (cut_query (s9_full k)), s9_idx k with
                  | None, None => true
                  | Some (i, ps, rest), Some (j, (ps', rest')) => Nat.eqb i j && list_eqb String.eqb ps ps' && String.eqb rest rest'
                  | _, _ => false
                  end in
  let same := same_match && same_names && same_idx in
  (* the property on the observation *)
  let sound := all2 (fun p g => negb (fst g) || reproduces p url (fst (snd g)) (snd (snd g))) (s9_patterns k) (s9_go k) in
  let complete := all2 (fun p g => negb (under_server p url) || fst g) (s9_patterns k) (s9_go k) in
  (* values and names go together: as many values as variables *)
  let arity := all2 (fun g n => negb (fst g) || match n with Some ns => Nat.eqb (List.length ns) (List.length (fst (snd g))) | None => false end)
                    (s9_go k) (s9_names k) in
  let no_fuel := forallb (fun p => match match_raw_url p url with MFuel => false | _ => true end) (s9_patterns k) in
  if negb no_fuel then J_DRIFT
  else if sound && complete && arity then (if same then J_OK else J_DRIFT)
  else if same && sound && arity then J_KNOWN 4    (* a URL under the server that MatchRawURL does not find *)
  else J_VIOL.
