(* C10 has no per-case Coq judgement: its theorems are universal (Props/C10.v) and the traffic is
   judged on the Go side (any panic is the violation). *)
From KV Require Import Model.Base.
Definition judge_C10 (c : N) : N := J_OK.
