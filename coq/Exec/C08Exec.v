From KV Require Import Model.Base Model.Json Model.Schema Model.Lookup Model.Response
     Spec.SchemaSpec Spec.SchemaGuards Spec.SchemaGuardsRW Spec.ResponseSpec Exec.SchemaExec.
Local Open Scope list_scope.

Record c08case := mkC08 {
  k8_opts : vopts;
  k8_head : bool;
  k8_status : N;
  k8_responses : list (string * rdef);
  k8_ct : string;
  k8_raw : string;            (* body bytes *)
  k8_parsed : option json;    (* encoding/json oracle on the body bytes *)
  k8_compiles : list (string * bool);
  k8_matches : list (string * string * bool);
  k8_formats : list (string * string * json * bool);
  g8_class : N;         (* 0 nil, 1 error, 2 panic *)
  g8_kind : N;          (* error kind, 0 if none *)
  g8_body_ok : bool     (* the body could be read in full afterwards *)
}.

Definition kind_of (r : rres) : N :=
  match r with
  | ROk => 0 | RPanic _ => 0
  | RErr RStatus => 1 | RErr (RHeaderDecode _) => 2 | RErr (RHeaderSchema _) => 3
  | RErr (RHeaderMissing _) => 4 | RErr RContentType => 5 | RErr RBodyDecode => 6 | RErr RBodySchema => 7
  end.
Definition rclass (r : rres) : N := match r with ROk => 0 | RErr _ => 1 | RPanic _ => 2 end.

Definition k8_body (k : c08case) : option json :=
  match decoder_kind (k8_ct k) with
  | DJson => k8_parsed k
  | DPlain => Some (JStr (k8_raw k))
  | _ => None
  end.

Definition judge (k : c08case) : N :=
  let rc := lk_compiles (k8_compiles k) in
  let rm := lk_match (k8_matches k) in
  let fo := lk_fmt (k8_formats k) in
  let '(m, bs) := validate_response rc rm fo (k8_opts k) (k8_head k) (k8_status k) (k8_responses k) (k8_ct k) (k8_body k) in
  let sp := response_spec rc rm fo (k8_opts k) (k8_head k) (k8_status k) (k8_responses k) (k8_ct k) (k8_body k) in
  let same := N.eqb (rclass m) (g8_class k) && N.eqb (kind_of m) (g8_kind k) in
  let agree := Bool.eqb (N.eqb (g8_class k) 0) sp && g8_body_ok k in
  (* guard classes: 1 = a found header defined by content; 2 = a schema-level guard of C01 *)
  let hdr_content := existsb (fun rd => existsb (fun h => is_none (h_schema h)) (r_headers (snd rd))) (k8_responses k) in
  let g := g_resp rc rm fo (k8_opts k) (k8_status k) (k8_responses k) (k8_ct k) (k8_body k) in
  let enum_bad := match select_response (k8_responses k) (k8_status k) with
                  | Some d => match content_get (r_content d) (k8_ct k) with
                              | Some m => match m_schema m with Some s => negb (g_enum true s) | None => false end
                              | None => false end
                  | None => false end in
  let gc : N := if enum_bad then 3%N else if negb g then 2%N else 0%N in
  if agree then (if same then J_OK else if N.eqb gc 0 then J_DRIFT else J_NOTE)
  else if same && negb (N.eqb gc 0) then J_KNOWN gc
  else J_VIOL.
