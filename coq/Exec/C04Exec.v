(* Judge for C04: Go verdict of T.Validate against the model and the specification. *)
From KV Require Import Model.Base Model.Json Model.DocValidate Spec.DocSpec.
Local Open Scope list_scope.

Record dcase := mkDC { dc_opts : vopts; dc_doc : dnode; dc_go : bool }.

Definition judge_C04 (c : dcase) : N :=
  let mo := validate_doc (dc_opts c) (dc_doc c) in
  let sp := conforms (dc_opts c) XN (dc_doc c) in
  if Bool.eqb (dc_go c) mo then
    (if Bool.eqb mo sp then J_OK
     else let k := first_class (dc_opts c) MDirect XN (dc_doc c) in
          if N.eqb k 0 then J_VIOL else J_KNOWN k)
  else if Bool.eqb (dc_go c) sp then J_DRIFT else J_VIOL.
