From KV Require Import Model.Base Model.Json Model.Schema Model.Request Model.ParamCodec Model.Defaults.
Local Open Scope list_scope.

(* body part: schema (allOf / properties / items / additionalProperties only), original value,
   value found in the forwarded request (None: validation failed or no rewrite) *)
Record c13case := mkC13 {
  k13_roOff : bool;
  k13_schema : schema;
  k13_orig : json;
  g13_valid : bool;            (* ValidateRequest returned nil *)
  g13_after : json;            (* the body of the forwarded request, parsed *)
  k13_modelled : bool          (* the schema is in the modelled fragment (no oneOf/anyOf/not) *)
}.

(* "nothing else changes": every member that carried a value is still there with (recursively) the
   same content; arrays keep their length *)
Fixpoint extends (a b : json) {struct a} : bool :=
  match a, b with
  | JObj l, JObj m =>
      (fix go (l : list (string * json)) : bool :=
         match l with
         | [] => true
         | (k, x) :: r =>
             (match x with
              | JNull => true
              | _ => match assoc k m with Some y => extends x y | None => false end
              end) && go r
         end) l
  | JArr l, JArr m =>
      (fix go (l m : list json) : bool :=
         match l, m with
         | [], [] => true
         | x :: l', y :: m' => extends x y && go l' m'
         | _, _ => false
         end) l m
  | _, _ => json_text_eqb a b
  end.

Definition judge (k : c13case) : N :=
  if negb (g13_valid k) then
    (* failed validation: the body must be byte-identical (checked on the Go side); here: same value *)
    (if json_text_eqb (k13_orig k) (g13_after k) then J_OK else J_VIOL)
  else
    let m := inject (k13_roOff k) (k13_schema k) (k13_orig k) in
    let rel := extends (k13_orig k) (g13_after k) in
    if negb rel then J_VIOL
    else if negb (k13_modelled k) then J_OK
    else if json_text_eqb m (g13_after k) then J_OK else J_DRIFT.
