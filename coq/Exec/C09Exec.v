From KV Require Import Model.Base Model.Lookup Model.ParamCodec Model.Router.
Local Open Scope list_scope.

Record c09case := mkC09 {
  k9_paths : list (string * list string);    (* template, declared methods (upper case) *)
  k9_method : string;
  k9_path : string;        (* URL.Path: percent-decoded, what the legacy router matches *)
  k9_raw : string;         (* URL.EscapedPath(): what gorilla/mux matches (UseEncodedPath) *)
  (* Go observations: kind 0 found, 1 not found, 2 method not allowed, 3 panic *)
  g9_legacy_kind : N; g9_legacy_template : string; g9_legacy_params : list (string * string);
  g9_gorilla_kind : N; g9_gorilla_template : string; g9_gorilla_params : list (string * string);
  (* documents with servers: [k9_path]/[k9_raw] are what follows the matched server (matching a
     server is specified on the harness side: first declared server, variables over default and
     enum values, prefix at a segment boundary); [k9_noserver]: no declared server matches the URL *)
  k9_noserver : bool
}.

(* route ids: index into the list of (template, method) pairs, sorted as given *)
Fixpoint add_routes (paths : list (string * list string)) (id : nat) (t : trie) : trie * list (nat * (string * string)) :=
  match paths with
  | [] => (t, [])
  | (tpl, ms) :: r =>
      let '(t', tab, id') :=
        fold_left (fun acc m =>
                     let '(tr, tb, i) := acc in
                     match tokens_of (m ++ " " ++ tpl)%string with
                     | Some (toks, names) => (tinsert toks names i tr, tb ++ [(i, (tpl, m))], S i)
                     | None => (tr, tb, S i)
                     end) ms (t, [], id) in
      let '(t'', tab') := add_routes r id' t' in (t'', tab ++ tab')
  end.

Fixpoint lookup_nat {A} (n : nat) (l : list (nat * A)) : option A :=
  match l with [] => None | (k, v) :: r => if Nat.eqb n k then Some v else lookup_nat n r end.

Definition known_methods : list string := ["CONNECT"; "DELETE"; "GET"; "HEAD"; "OPTIONS"; "PATCH"; "POST"; "PUT"; "TRACE"].

Definition last_is_rbrace (r : string) : bool :=
  match srev r "" with String c _ => Ascii.eqb c "}"%char | _ => false end.
Definition drop_last (r : string) : string :=
  match srev r "" with String _ x => srev x "" | e => e end.
(* a segment with one variable: the text before '{', the name, the text after '}' *)
Fixpoint until_lbrace (s : string) : option (string * string) :=
  match s with
  | EmptyString => None
  | String c r => if Ascii.eqb c "{"%char then Some (EmptyString, r)
                  else match until_lbrace r with Some (a, b) => Some (String c a, b) | None => None end
  end.
Definition seg_of (s : string) : seg :=
  match until_lbrace s with
  | None => SLit s
  | Some (pre, r) =>
      match until_brace r with
      | None => SLit s
      | Some (name, suf) => if String.eqb pre "" && String.eqb suf "" then SVar name else SMix pre name suf
      end
  end.
(* "/a/{x}" -> [SLit ""; SLit "a"; SVar "x"] (the leading empty piece included, as for the path) *)
Definition segs_of (tpl : string) : list seg := map seg_of (split_slash tpl "").

Fixpoint groutes (paths : list (string * list string)) (id : nat) : list groute :=
  match paths with
  | [] => []
  | (tpl, ms) :: r => mkGRoute (segs_of tpl) ms id :: groutes r (S id)
  end.

Definition params_eqb (a b : list (string * string)) : bool :=
  Nat.eqb (List.length a) (List.length b) &&
  forallb (fun kv => match assoc (fst kv) b with Some v => String.eqb v (snd kv) | None => false end) a.

(* the property on an observation: a returned route is declared for the method, and substituting
   the returned parameters into its template reproduces the request path *)
Fixpoint fill_segs (t : list seg) (m : list (string * string)) : option (list string) :=
  match t with
  | [] => Some []
  | SLit l :: r => option_map (cons l) (fill_segs r m)
  | SVar n :: r => match assoc n m, fill_segs r m with Some v, Some rest => Some (v :: rest) | _, _ => None end
  | SMix pre n suf :: r => match assoc n m, fill_segs r m with Some v, Some rest => Some ((pre ++ v ++ suf)%string :: rest) | _, _ => None end
  end.
Definition sound (k : c09case) (path : string) (kind : N) (tpl : string) (params : list (string * string)) : bool :=
  if negb (N.eqb kind 0) then true else
  match assoc tpl (k9_paths k) with
  | None => false
  | Some ms =>
      str_in (k9_method k) ms &&
      match fill_segs (segs_of tpl) params with
      | Some pieces => list_eqb String.eqb pieces (split_slash path "")
      | None => false
      end
  end.
(* completeness: a request that fills a declared template with non-empty slash-free values under a
   declared method is routed *)
Definition fills_some (k : c09case) (path : string) : bool :=
  existsb (fun pm => str_in (k9_method k) (snd pm) &&
                     match segs_match (segs_of (fst pm)) (split_slash path "") with Some _ => true | None => false end)
          (k9_paths k).

Definition judge (k : c09case) : N :=
  if k9_noserver k then
    (* a URL matching no server yields a not-found route error, never a route *)
    (if N.eqb (g9_legacy_kind k) 1 && N.eqb (g9_gorilla_kind k) 1 then J_OK else J_VIOL)
  else
  (* models *)
  let '(root, tab) := add_routes (k9_paths k) 0 (T [] None []) in
  let literal := assoc (k9_path k) (k9_paths k) in
  let lm := legacy_find root (k9_method k) (k9_path k) literal (str_in (k9_method k) known_methods) in
  let ordered := in_matching_order (k9_paths k) in
  let gm := gorilla_find (groutes ordered 0) (k9_method k) (split_slash (k9_raw k) "") in
  let legacy_same :=
    match lm with
    | RFound r ps => N.eqb (g9_legacy_kind k) 0 &&
                     match lookup_nat r tab with
                     | Some (tpl, _) => String.eqb tpl (g9_legacy_template k) && params_eqb ps (g9_legacy_params k)
                     | None => false
                     end
    | RNotFound => N.eqb (g9_legacy_kind k) 1
    | RMethodNotAllowed => N.eqb (g9_legacy_kind k) 2
    | RPanicR _ => N.eqb (g9_legacy_kind k) 3
    end in
  let gorilla_same :=
    match gm with
    | GFound r ps => N.eqb (g9_gorilla_kind k) 0 &&
                     String.eqb (fst (nth r ordered ("", []))) (g9_gorilla_template k) && params_eqb ps (g9_gorilla_params k)
    | GNotFound => N.eqb (g9_gorilla_kind k) 1
    | GMethodNotAllowed => N.eqb (g9_gorilla_kind k) 2
    end in
  let same := legacy_same && gorilla_same in
  let snd_l := sound k (k9_path k) (g9_legacy_kind k) (g9_legacy_template k) (g9_legacy_params k) in
  let snd_g := sound k (k9_raw k) (g9_gorilla_kind k) (g9_gorilla_template k) (g9_gorilla_params k) in
  let compl_l := negb (fills_some k (k9_path k)) || N.eqb (g9_legacy_kind k) 0 in
  let compl_g := negb (fills_some k (k9_raw k)) || N.eqb (g9_gorilla_kind k) 0 in
  let no_panic_l := negb (N.eqb (g9_legacy_kind k) 3) in
  let no_panic_g := negb (N.eqb (g9_gorilla_kind k) 3) in
  let legacy_ok := snd_l && compl_l && no_panic_l in
  let gorilla_ok := snd_g && compl_g && no_panic_g in
  (* finding classes, per router. Legacy: 1 a variable matches an empty segment (soundness); 3 panic
     on an unknown method / nil node; 5 a variable followed by literal text inside its segment takes
     the whole segment, so the filled template is not routed (completeness; the package comment says
     so). Gorilla: 2 a path match with a method mismatch ends the search (completeness). *)
  let has_suffixed_var := existsb (fun pm => existsb (fun sg => match sg with SMix _ _ suf => negb (String.eqb suf "") | _ => false end)
                                                     (segs_of (fst pm))) (k9_paths k) in
  let gl : N := if legacy_ok then 0%N else if negb snd_l then 1%N else if negb no_panic_l then 3%N
                else if has_suffixed_var then 5%N else 2%N in     (* 2 here: unexplained, see below *)
  let gg : N := if gorilla_ok then 0%N else if snd_g && no_panic_g then 2%N else 1%N in   (* 1 here: unexplained *)
  let explained_l := legacy_ok || N.eqb gl 1 || N.eqb gl 3 || N.eqb gl 5 in
  let explained_g := gorilla_ok || N.eqb gg 2 in
  if legacy_ok && gorilla_ok then (if same then J_OK else J_DRIFT)
  else if same && explained_l && explained_g then J_KNOWN (if legacy_ok then gg else gl)
  else J_VIOL.
