(* Judge for the embedding stream of C18: struct types with embedded structs (reflect.StructOf),
   the property the generator made for every JSON name, the field encoding/json wrote under it,
   and the validation verdict of the encoding - against Model/Fields.v. *)
From Coq Require Import List NArith Bool.
From KV Require Import Model.Base Model.Fields.
Import ListNotations.
Local Open Scope list_scope.

Record fcase := mkFC {
  fc_decl : list fdecl;
  fc_names : list N;
  fc_gen : list (N * option N);    (* JSON name -> type of the property in the generated schema *)
  fc_json : list (N * option N);   (* JSON name -> type of the field json.Marshal wrote *)
  fc_accepted : bool               (* the encoding validates against the generated schema *)
}.

Definition lk (n : N) (l : list (N * option N)) : option N :=
  match find (fun p => N.eqb (fst p) n) l with Some p => snd p | None => None end.
Definition is_none (o : option N) : bool := match o with None => true | Some _ => false end.

Definition name_ok (c : fcase) (n : N) : bool :=
  match json_field (fc_decl c) n with
  | Some exp => opt_eqb N.eqb exp (lk n (fc_json c)) && opt_eqb N.eqb (gen_property (fc_decl c) n) (lk n (fc_gen c))
  | None => is_none (lk n (fc_json c))    (* several fields at the least depth: none is written; which one the schema keeps is the sort's business *)
  end.

Definition judge_fields (c : fcase) : N :=
  if negb (fc_accepted c) then J_VIOL
  else if forallb (name_ok c) (fc_names c) then J_OK else J_DRIFT.
