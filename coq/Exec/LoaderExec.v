(* Judges for C02 / C11 / C20: one case = a store of files, a root, an entry point, the switch,
   and what the Go loader did (outcome, every reference position reachable from the loaded
   document with the id of the object it was resolved to, the URLs passed to ReadFromURIFunc). *)
From KV Require Import Model.Base Model.Loader Spec.LoaderSpec.
Local Open Scope list_scope.

Record lcase := mkLC {
  lc_allow : bool; lc_entry : N; lc_root : string;
  lc_files : list (string * file);
  lc_rpath : list (string * string * string);     (* base ("" = none), url part, resolved location *)
  g_out : N;                                       (* 0 loaded, 1 error, 2 panic, 3 timeout *)
  g_obs : list (list string * option N);
  g_reads : list string
}.

Definition files_of (c : lcase) (u : string) : option file := assoc u (lc_files c).
Fixpoint rp_find (b u : string) (l : list (string * string * string)) : option string :=
  match l with
  | [] => None
  | (b', u', r) :: rest => if String.eqb b b' && String.eqb u u' then Some r else rp_find b u rest
  end.
Definition rpath_of (c : lcase) (b : option string) (u : string) : string :=
  match rp_find (match b with Some x => x | None => "" end) u (lc_rpath c) with Some r => r | None => u end.

Definition rootfile (c : lcase) : file :=
  match files_of c (lc_root c) with Some f => f | None => mkFile [] [] None end.

(* entry >= 10: a case outside the modelled fragment (path-item references): judged against the
   specification only *)
Definition nomodel (c : lcase) : bool := N.leb 10 (lc_entry c).
Definition entry_of (c : lcase) : N := if nomodel c then (lc_entry c - 10)%N else lc_entry c.
Definition run (c : lcase) : res lstate :=
  load (lc_allow c) (files_of c) (rpath_of c) 400 (entry_of c) (lc_root c) (rootfile c).

Definition model_obs (c : lcase) (s : lstate) : list (list string * option N) :=
  flat_map (fun x : list string * kind * bool * node => match x with (p, k, _, n) => observe 200 s p 0 p n k 2 end) (f_cells (rootfile c)).
Definition spec_obs_all (c : lcase) : list (list string * option N) :=
  flat_map (fun x : list string * kind * bool * node => match x with (p, k, _, n) => spec_obs (files_of c) (rpath_of c) 200 (lc_root c) p n k 2 end)
           (f_cells (rootfile c)).

Definition optN_eqb (a b : option N) : bool := opt_eqb N.eqb a b.
Fixpoint passoc {A} (p : list string) (l : list (list string * A)) : option A :=
  match l with [] => None | (p', v) :: r => if path_eqb p p' then Some v else passoc p r end.
Definition obs_eq (a b : list (list string * option N)) : bool :=
  Nat.eqb (List.length a) (List.length b) &&
  forallb (fun pv => match passoc (fst pv) b with Some v => optN_eqb (snd pv) v | None => false end) a.

(* ---- guards (known deviations of the loader) ---- *)
Fixpoint has_ref (fuel : nat) (nd : node) : bool :=
  match fuel with O => false | S f =>
    match nd with NRef _ => true | NObj _ kids => existsb (fun x : string * string * kind * node => match x with (_, _, _, ch) => has_ref f ch end) kids end end.
(* every reference sits under a slot the loader walks *)
Fixpoint slots_ok (fuel : nat) (k : kind) (nd : node) : bool :=
  match fuel with O => true | S f =>
    match nd with
    | NRef _ => true
    | NObj _ kids => forallb (fun x : string * string * kind * node => match x with (c, _, k', ch) =>
                                if str_in c (walked k) then slots_ok f k' ch else negb (has_ref 64 ch) end) kids
    end end.
Definition file_slots_ok (f : file) : bool :=
  forallb (fun x : list string * kind * bool * node => match x with (_, k, trav, n) => if trav then slots_ok 64 k n else negb (has_ref 64 n) end) (f_cells f)
  && match f_single f with Some kn => slots_ok 64 (fst kn) (snd kn) | None => true end.
Definition g_slots (c : lcase) : bool := forallb (fun uf => file_slots_ok (snd uf)) (lc_files c).

Definition internal (r : string) : bool := String.eqb (before_hash r) "".
Definition g_single (c : lcase) : bool :=
  forallb (fun uf => match f_single (snd uf) with
                     | Some kn => negb (existsb internal (refs_of 64 (snd kn)))
                     | None => true end) (lc_files c).
(* no reference into an extension area (decoded from the raw map as whatever kind is expected) *)
Definition g_exts (c : lcase) : bool :=
  forallb (fun uf => forallb (fun r => match frag_segments (after_hash r) with
                                       | Some segs =>
                                           let url := before_hash r in
                                           let u' := if String.eqb url "" then fst uf else rpath_of c (base (fst uf)) url in
                                           match files_of c u' with
                                           | Some f => negb (has_hash r) || match find_ext segs (f_exts f) with Some _ => false | None => true end
                                           | None => true
                                           end
                                       | None => true end) (file_refs (snd uf))) (lc_files c).
(* the same reference text means the same location and kind wherever it occurs *)
Fixpoint occ (fuel : nat) (u : string) (k : kind) (nd : node) : list (string * string * N) :=
  match fuel with O => [] | S f =>
    match nd with
    | NRef r => [(r, u, kind_code k)]
    | NObj _ kids => flat_map (fun x : string * string * kind * node => match x with (_, _, k', ch) => occ f u k' ch end) kids
    end end.
Definition occs (c : lcase) : list (string * string * N) :=
  flat_map (fun uf =>
              flat_map (fun x : list string * kind * bool * node => match x with (_, k, _, n) => occ 64 (fst uf) k n end) (f_cells (snd uf))
              ++ match f_single (snd uf) with Some kn => occ 64 (fst uf) (fst kn) (snd kn) | None => [] end) (lc_files c).
Definition target_of (c : lcase) (u r : string) : string :=
  let url := before_hash r in
  ((if String.eqb url "" then u else rpath_of c (base u) url) ++ "#" ++ after_hash r)%string.
Definition g_strings (c : lcase) : bool :=
  let l := occs c in
  forallb (fun a => forallb (fun b =>
     match a, b with (r1, u1, k1), (r2, u2, k2) =>
       negb (String.eqb r1 r2) || (String.eqb (target_of c u1 r1) (target_of c u2 r2) && N.eqb k1 k2) end) l) l.

(* no component that is itself a reference is referred to under two different texts: while the
   component's own target is in progress (a cycle, or simply the whole-document pass over a file that
   the target lives in), a reference written with another text is not recognised as in progress,
   resolveComponent copies the still unresolved component, the callback registered for that copy has
   no destination, and the value is lost *)
Definition loc_of (c : lcase) (u r : string) : string * option (list string) :=
  let url := before_hash r in
  (if String.eqb url "" then u else rpath_of c (base u) url,
   if has_hash r then frag_segments (after_hash r) else Some []).
Fixpoint reaches (fuel : nat) (c : lcase) (u : string) (nd : node) (gu : string) (gp : list string) : bool :=
  match fuel with O => false | S f =>
    existsb (fun r =>
       match loc_of c u r with
       | (u2, Some segs) =>
           (String.eqb u2 gu && path_eqb segs gp) ||
           match files_of c u2 with
           | Some fl => match find_cell segs (f_cells fl) with
                        | Some (_, n2) => reaches f c u2 n2 gu gp
                        | None => false end
           | None => false end
       | _ => false end) (refs_of 64 nd)
  end.
(* the distinct reference texts of the store that designate the location (gu, gp) *)
Definition texts_for (c : lcase) (gu : string) (gp : list string) : list string :=
  fold_left (fun acc x => match x with (r, u, _) =>
               match loc_of c u r with
               | (u2, Some segs) => if String.eqb u2 gu && path_eqb segs gp && negb (str_in r acc) then r :: acc else acc
               | _ => acc end end) (occs c) [].
Definition g_refcomp (c : lcase) : bool :=
  forallb (fun uf => forallb (fun x : list string * kind * bool * node => match x with (p, _, _, n) =>
     match n with
     | NRef _ => negb (Nat.ltb 1 (List.length (texts_for c (fst uf) p)))
     | NObj _ _ => true end end) (f_cells (snd uf))) (lc_files c).

Definition guard_class (c : lcase) : N :=
  if negb (g_slots c) then 1 else if negb (g_single c) then 4 else if negb (g_exts c) then 5
  else if negb (g_strings c) then 3 else if negb (g_refcomp c) then 6 else 0.

Definition reads_same (c : lcase) (s : lstate) : bool := list_eqb String.eqb (reads s) (g_reads c).

Definition judge_C02 (c : lcase) : N :=
  if nomodel c then
    (if N.eqb (g_out c) 0 && negb (obs_eq (g_obs c) (spec_obs_all c)) then J_VIOL else J_OK)
  else
  match run c with
  | RFuel => J_DRIFT
  | RPanic => if N.eqb (g_out c) 2 || N.eqb (g_out c) 3 then J_OK else J_DRIFT
  | RErr _ => if N.eqb (g_out c) 1 then J_OK
            else if N.eqb (g_out c) 0 && negb (obs_eq (g_obs c) (spec_obs_all c)) then J_VIOL else J_DRIFT
  | ROk s =>
      if negb (N.eqb (g_out c) 0) then (if N.eqb (g_out c) 1 then J_DRIFT else J_OK)
      else
        let same := obs_eq (g_obs c) (model_obs c s) in
        let good := obs_eq (g_obs c) (spec_obs_all c) in
        if good then (if same then J_OK else J_DRIFT)
        else if same then
          (let gc := guard_class c in
           if negb (N.eqb gc 0) then J_KNOWN gc
           else if existsb (fun pv => match snd pv, passoc (fst pv) (spec_obs_all c) with None, Some None => true | _, _ => false end) (g_obs c)
                then J_KNOWN 2      (* a reference designating no object (cycle of references / dangling) left unresolved, load succeeds *)
                else J_VIOL)
        (* references into extension areas are decoded from the raw map, a fresh copy per reference, and
           resolved again inside the copy: the model follows the loader there only one level deep *)
        else if negb (g_exts c) then J_KNOWN 5
        else J_VIOL
  end.

Definition judge_C11 (c : lcase) : N :=
  let root := lc_root c in
  let start := if N.eqb (entry_of c) 1 then [""] else [root] in
  let allowed := if lc_allow c then reach_uris (files_of c) (rpath_of c) 30 start else start in
  let bad := existsb (fun r => negb (str_in r allowed) || (N.eqb (entry_of c) 1 && String.eqb r "")) (g_reads c) in
  if nomodel c then (if bad then J_VIOL else J_OK) else
  let mreads := match run c with ROk s => Some (reads s) | RErr rd => Some rd | _ => None end in
  let same := match mreads with Some rd => list_eqb String.eqb rd (g_reads c) | None => negb (N.eqb (g_out c) 0) && negb (N.eqb (g_out c) 1) end in
  if bad then (if same && lc_allow c then J_KNOWN 1 else J_VIOL)
  else if same then J_OK
  (* inside a raw-decoded extension area the model follows the loader one level deep only: the read
     sequences may part there; the reads themselves were checked against the property above *)
  else if negb (g_exts c) then J_OK
  else J_DRIFT.

Definition judge_C20 (c : lcase) : N :=
  if nomodel c then (if N.eqb (g_out c) 2 || N.eqb (g_out c) 3 then J_VIOL else J_OK) else
  if N.eqb (g_out c) 2 || N.eqb (g_out c) 3 then
    (match run c with
     | RPanic => J_KNOWN 1   (* the one panic of the model: a backtrack callback asserting another routine's type *)
     | _ => J_VIOL
     end)
  else match run c with
       | RPanic => J_DRIFT
       | RFuel => J_DRIFT
       | _ => J_OK
       end.
