From KV Require Import Model.Base Model.Json Model.Schema Model.Request Model.ParamCodec Spec.ParamSpec Exec.SchemaExec.
Local Open Scope list_scope.

Record c05case := mkC05 {
  k5_def : pdef;
  k5_frag : fragment;
  k5_multi : bool;
  k5_sval : option sval;      (* the value that was serialised; None for the malformed stream *)
  k5_int64 : list (string * option Z);
  k5_int32 : list (string * option Z);
  k5_float : list (string * option float);
  k5_compiles : list (string * bool);
  k5_matches : list (string * string * bool);
  k5_formats : list (string * string * json * bool);
  g5_val : pval; g5_found : bool;
  g5_err : N;        (* 0 none, 1 ParseError, 2 other error, 3 panic *)
  g5_valid : N       (* ValidateParameter: 0 ok, 1 missing, 2 empty, 3 parse error, 4 other decode error, 5 schema error, 6 panic *)
}.

Definition lk_opt {A} (t : list (string * option A)) (s : string) : option A :=
  match assoc s t with Some o => o | None => None end.

Fixpoint pval_eqb (a b : pval) {struct a} : bool :=
  match a, b with
  | PNil, PNil => true
  | PI64 x, PI64 y | PI32 x, PI32 y => Z.eqb x y
  | PF x, PF y => f_same_text x y || (f_is_nan x && f_is_nan y)
  | PB x, PB y => Bool.eqb x y
  | PS x, PS y => String.eqb x y
  | PA l, PA m =>
      (fix go (l m : list pval) {struct l} : bool :=
         match l, m with [], [] => true | x :: l', y :: m' => pval_eqb x y && go l' m' | _, _ => false end) l m
  | PO l, PO m =>
      (fix go (l : list (string * pval)) (m : list (string * pval)) {struct l} : bool :=
         match l with
         | [] => true
         | (k, x) :: l' => match assoc k m with Some y => pval_eqb x y | None => false end && go l' m
         end) l m && Nat.eqb (List.length l) (List.length m)
  | _, _ => false
  end.

Definition derr_code (e : option derr) : N := match e with None => 0 | Some DParse => 1 | Some DOther => 2 end.
Definition dres_same (k : c05case) (d : dres) : bool :=
  match d with
  | DPanic _ => N.eqb (g5_err k) 3
  | DRes v found e =>
      N.eqb (derr_code e) (g5_err k) && Bool.eqb found (g5_found k) &&
      (negb (N.eqb (g5_err k) 0) || pval_eqb v (g5_val k))
  end.
Definition vres_code (r : vres) : N :=
  match r with VOk => 0 | VMissing => 1 | VEmpty => 2 | VDecode DParse => 3 | VDecode DOther => 4 | VSchema => 5 | VPanic _ => 6 end.

Definition frag_eqb (a b : fragment) : bool :=
  list_eqb (fun x y => String.eqb (fst x) (fst y) && String.eqb (snd x) (snd y)) (f_path a) (f_path b) &&
  list_eqb (fun x y => String.eqb (fst x) (fst y) && list_eqb String.eqb (snd x) (snd y)) (f_query a) (f_query b) &&
  list_eqb (fun x y => String.eqb (fst x) (fst y) && list_eqb String.eqb (snd x) (snd y)) (f_header a) (f_header b) &&
  list_eqb (fun x y => String.eqb (fst x) (fst y) && String.eqb (snd x) (snd y)) (f_cookie a) (f_cookie b).

Definition judge (k : c05case) : N :=
  let pi64 := lk_opt (k5_int64 k) in
  let pi32 := lk_opt (k5_int32 k) in
  let pf := lk_opt (k5_float k) in
  let rc := lk_compiles (k5_compiles k) in
  let rm := lk_match (k5_matches k) in
  let fo := lk_fmt (k5_formats k) in
  let d := decode_param pi64 pi32 pf (k5_def k) (k5_frag k) in
  let vr := validate_param pi64 pi32 pf rc rm fo (k5_multi k) (k5_def k) (k5_frag k) in
  let same := dres_same k d && N.eqb (vres_code vr) (g5_valid k) in
  (* a header or cookie that the request carries is never reported as missing *)
  let carried := match pd_in (k5_def k) with
                 | LHeader => match assoc (pd_name (k5_def k)) (f_header (k5_frag k)) with Some _ => true | None => false end
                 | LCookie => match assoc (pd_name (k5_def k)) (f_cookie (k5_frag k)) with Some _ => true | None => false end
                 | _ => false
                 end in
  if carried && N.eqb (g5_valid k) 1 then J_VIOL else
  match k5_sval k with
  | None =>
      (* malformed stream: no independent spec for the value; the property only demands a
         verdict, never a panic *)
      if N.eqb (g5_err k) 3 || N.eqb (g5_valid k) 6 then J_VIOL
      else if same then J_OK else J_DRIFT
  | Some sv =>
      if negb (frag_eqb (k5_frag k) (ser (k5_def k) sv)) then 5%N   (* harness serialiser <> Spec.ser *)
      else
      let gc : N := if negb (g_nonempty sv) then 1%N else if negb (g_nosep (k5_def k) sv) then 2%N
                    else if negb (g_shape sv) then 3%N
                    else if negb (g_declared (k5_def k) sv) then 6%N
                    else if negb (g_query_obj_found (k5_def k)) then 7%N else 0%N in
      match expected pi64 pi32 pf (k5_def k) sv with
      | None =>
          (* a text that is not of the declared type: must be rejected as a parse or schema error *)
          if N.eqb (g5_valid k) 3 || N.eqb (g5_valid k) 5 || N.eqb (g5_valid k) 4 then (if same then J_OK else J_DRIFT)
          else if same && negb (N.eqb gc 0) then J_KNOWN gc else J_VIOL
      | Some e =>
          let agree := N.eqb (g5_err k) 0 && g5_found k && pval_eqb e (g5_val k) in
          if agree then (if same then J_OK else if N.eqb gc 0 then J_DRIFT else J_NOTE)
          else if same && negb (N.eqb gc 0) then J_KNOWN gc
          else J_VIOL
      end
  end.
