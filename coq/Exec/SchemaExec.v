(* C01 / C12 / C19 correspondence driver. One case = schema, value, oracle fragments, and the
   observation of VisitJSON on the Go side in the three modes. *)
From KV Require Import Model.Base Model.Json Model.Schema Spec.SchemaSpec Spec.SchemaGuards Spec.SchemaGuardsRW.
Local Open Scope list_scope.

(* Go observation per mode: 0 = nil, 1 = error, 2 = panic *)
Record scase := mkSCase {
  k_schema : schema;
  k_value : json;
  k_compiles : list (string * bool);
  k_matches : list (string * string * bool);
  k_formats : list (string * string * json * bool);   (* kind, format, value, ok *)
  k_mode : N;   (* 0 plain, 1 as request, 2 as request without read-only checks, 3 as response, 4 as response without write-only checks *)
  g_default : N; g_failfast : N; g_multi : N;
  g_def_errs : list (string * list string * json);
  g_multi_errs : list (string * list string * json);
  g_ptr_ok : bool       (* Go-side check: every returned schema error points at its quoted value *)
}.

Definition lk_compiles (t : list (string * bool)) (p : string) : bool :=
  match assoc p t with Some b => b | None => true end.
Fixpoint lk_match (t : list (string * string * bool)) (p s : string) : bool :=
  match t with
  | [] => false
  | (p', s', b) :: r => if String.eqb p p' && String.eqb s s' then b else lk_match r p s
  end.
Fixpoint lk_fmt (t : list (string * string * json * bool)) (k f : string) (v : json) : option bool :=
  match t with
  | [] => None
  | (k', f', v', b) :: r =>
      if String.eqb k k' && String.eqb f f' && json_text_eqb v v' then Some b else lk_fmt r k f v
  end.

Definition with_mode (m : N) (st : settings) : settings :=
  mkSt (st_failfast st) (st_multi st)
       (N.eqb m 1 || N.eqb m 2) (N.eqb m 3 || N.eqb m 4) (N.eqb m 2) (N.eqb m 4) false.

Definition class_of (o : outcome) : N := match o with Ok => 0 | Err _ => 1 | Panic _ => 2 end.

Definition run_model (k : scase) (st : settings) : outcome :=
  visit (lk_compiles (k_compiles k)) (lk_match (k_matches k)) (lk_fmt (k_formats k)) st (k_schema k) (k_value k).
Definition run_spec (k : scase) : bool :=
  satb (lk_compiles (k_compiles k)) (lk_match (k_matches k)) (lk_fmt (k_formats k)) (md_of (with_mode (k_mode k) st_default)) (k_schema k) (k_value k).

Definition m_default k := run_model k (with_mode (k_mode k) st_default).
Definition m_failfast k := run_model k (with_mode (k_mode k) st_failfast_).
Definition m_multi k := run_model k (with_mode (k_mode k) st_multi_).

Definition classes_same (k : scase) : bool :=
  N.eqb (class_of (m_default k)) (g_default k) && N.eqb (class_of (m_failfast k)) (g_failfast k) &&
  N.eqb (class_of (m_multi k)) (g_multi k).

(* first falsified guard, 0 if none *)
Definition guard_class (k : scase) : N :=
  let rc := lk_compiles (k_compiles k) in
  let s := k_schema k in
  if negb (g_empty s) then 1
  else if negb (g_uniq (k_value k)) then 3
  else if negb (g_small s) then 4
  else if negb (g_rw rc (lk_match (k_matches k)) (lk_fmt (k_formats k)) (md_of (with_mode (k_mode k) st_default)) s) then 7
  else 0.

Definition judge_C01 (k : scase) : N :=
  let sp := run_spec k in
  let acc (g : N) := N.eqb g 0 in
  let agree := Bool.eqb (acc (g_default k)) sp && Bool.eqb (acc (g_failfast k)) sp && Bool.eqb (acc (g_multi k)) sp in
  let same := classes_same k in
  let gc := guard_class k in
  if agree then (if same then J_OK else if N.eqb gc 0 then J_DRIFT else J_NOTE)
  else if same && negb (N.eqb gc 0) then J_KNOWN gc
  else J_VIOL.

Fixpoint proj (e : err) : list (string * list string * json) :=
  match e with
  | ESchema s c p v o => [(field_of s, rev p, v)]
  | EMulti l => flat_map proj l
  | EPlain _ => [("", [], JNull)]
  end.
Definition proj_out (o : outcome) : list (string * list string * json) :=
  match o with Err e => proj e | _ => [] end.
Definition perr_eqb (a b : string * list string * json) : bool :=
  String.eqb (fst (fst a)) (fst (fst b)) && list_eqb String.eqb (snd (fst a)) (snd (fst b)) &&
  json_text_eqb (snd a) (snd b).

(* the C12 statement evaluated on the model's own errors: pointer resolves to the quoted value *)
Definition ptr_ok (root : json) (e : string * list string * json) : bool :=
  let '(f, p, v) := e in
  if String.eqb f "" then true else
  let p' := if String.eqb f "required" then removelast p else p in
  match jlookup root p' with Some x => json_text_eqb x v | None => false end.

Definition judge_C12 (k : scase) : N :=
  let rel := N.eqb (g_default k) (g_failfast k) && N.eqb (g_default k) (g_multi k) && g_ptr_ok k in
  let same := classes_same k in
  let errs_same := list_eqb perr_eqb (g_def_errs k) (proj_out (m_default k)) &&
                   list_eqb perr_eqb (g_multi_errs k) (proj_out (m_multi k)) in
  (* the guards whose failure makes modes differ (a panic reached in one mode only) *)
  let rc := lk_compiles (k_compiles k) in
  let gc : N := 0%N in
  if rel then (if same && errs_same then J_OK else J_DRIFT)
  else if same && negb (N.eqb gc 0) then J_KNOWN gc
  else J_VIOL.

Definition judge_C19 (k : scase) : N :=
  if classes_same k then J_OK else J_DRIFT.
