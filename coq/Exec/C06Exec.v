From KV Require Import Model.Base Model.Json Model.Schema Model.Lookup Model.Response Model.Body
     Spec.SchemaSpec Spec.SchemaGuards Spec.SchemaGuardsRW Spec.ResponseSpec Spec.BodySpec Exec.SchemaExec.
Local Open Scope list_scope.

Record c06case := mkC06 {
  k6_opts : bopts;
  k6_required : bool;
  k6_content : list (string * media);
  k6_ct : string;
  k6_raw : string;
  k6_parsed : option json;
  k6_compiles : list (string * bool);
  k6_matches : list (string * string * bool);
  k6_formats : list (string * string * json * bool);
  g6_class : N;      (* 0 nil, 1 error, 2 panic *)
  g6_kind : N;       (* 1 required, 2 content type, 3 decode, 4 schema *)
  g6_selected : string   (* media-type key selected by Content.Get, "" if none (direct observation) *)
}.

Definition bkind (r : bres) : N :=
  match r with BOk => 0 | BPanic _ => 0 | BErr BRequired => 1 | BErr BContentType => 2 | BErr BDecode => 3 | BErr BSchema => 4 end.
Definition bclass (r : bres) : N := match r with BOk => 0 | BErr _ => 1 | BPanic _ => 2 end.

(* which key does the model's precedence select *)
Definition selected_key (content : list (string * media)) (ct : string) : string :=
  match content_get (map (fun km => (fst km, fst km)) content) ct with Some k => k | None => "" end.

Definition judge (k : c06case) : N :=
  let rc := lk_compiles (k6_compiles k) in
  let rm := lk_match (k6_matches k) in
  let fo := lk_fmt (k6_formats k) in
  let m := validate_body rc rm fo (k6_opts k) (k6_required k) (k6_content k) (k6_ct k) (k6_raw k) (k6_parsed k) in
  let sp := body_spec rc rm fo (k6_opts k) (k6_required k) (k6_content k) (k6_ct k) (k6_raw k) (k6_parsed k) in
  let same := N.eqb (bclass m) (g6_class k) && N.eqb (bkind m) (g6_kind k) &&
              String.eqb (selected_key (k6_content k) (k6_ct k)) (g6_selected k) in
  let agree := Bool.eqb (N.eqb (g6_class k) 0) sp in
  let g := g_body rc rm fo (k6_opts k) (k6_content k) (k6_ct k) (k6_raw k) (k6_parsed k) in
  let enum_bad := match content_get (k6_content k) (k6_ct k) with
                  | Some m => match m_schema m with Some s => negb (g_enum true s) | None => false end
                  | None => false end in
  let gc : N := if enum_bad then 3%N else if negb g then 2%N else 0%N in
  if agree then (if same then J_OK else if N.eqb gc 0 then J_DRIFT else J_NOTE)
  else if same && negb (N.eqb gc 0) then J_KNOWN gc
  else J_VIOL.
