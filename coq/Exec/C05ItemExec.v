(* Judge for the composition-items stream of C05: an array parameter whose items schema is a
   composition, the texts of its elements, and what the decoder returned - against Model/ItemComp.v. *)
From Coq Require Import List String ZArith NArith Bool.
From KV Require Import Model.Base Model.Json Model.Schema Model.ParamCodec Model.ItemComp Exec.C05Exec.
Import ListNotations.
Local Open Scope list_scope.

Record itemcase := mkIC {
  ic_item : schema;
  ic_raws : list string;
  ic_int64 : list (string * option Z);
  ic_int32 : list (string * option Z);
  ic_float : list (string * option float);
  ic_sval : option pval;    (* the array value these texts serialise (directed cases), None when just texts *)
  ic_val : pval;            (* decoded by the real decoder *)
  ic_err : N                (* 0 none, 1 ParseError, 2 other error, 3 panic *)
}.

Definition judge_item (k : itemcase) : N :=
  let r := parse_array_v (lk_opt (ic_int64 k)) (lk_opt (ic_int32 k)) (lk_opt (ic_float k)) (ic_raws k) (ic_item k) [] in
  let round := match ic_sval k with
               | None => true
               | Some v => N.eqb (ic_err k) 0 && pval_eqb v (ic_val k)
               end in
  if N.eqb (ic_err k) 3 then J_VIOL
  else if negb round then J_VIOL      (* a serialised value did not come back *)
  else match r with
       | PROk v => if N.eqb (ic_err k) 0 && pval_eqb v (ic_val k) then J_OK else J_DRIFT
       | PRErr e => if N.eqb (derr_code (Some e)) (ic_err k) then J_OK else J_DRIFT
       end.
