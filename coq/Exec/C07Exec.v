From KV Require Import Model.Base Model.Request Spec.RequestSpec.
Local Open Scope list_scope.

Record c07case := mkC07 {
  k_declared : list string;
  k_auth_ok : list string;       (* schemes the callback accepts *)
  k_opts : ropts;
  k_op : operation;
  (* Go observation *)
  g_ok : bool;                    (* ValidateRequest returned nil *)
  g_parts : list part;            (* failing parts reported (members of the MultiError, or the single error) *)
  g_calls : list string           (* callback log *)
}.

Definition part_eqb (a b : part) : bool :=
  match a, b with
  | PSec, PSec | PBody, PBody => true
  | PParam l n, PParam l' n' => loc_eqb l l' && String.eqb n n'
  | _, _ => false
  end.
Definition part_in (p : part) (l : list part) : bool := existsb (part_eqb p) l.
Definition parts_same_set (a b : list part) : bool :=
  forallb (fun p => part_in p b) a && forallb (fun p => part_in p a) b.

(* the failing parts according to the property *)
Definition spec_failing (d a : string -> bool) (o : ropts) (op : operation) : list part :=
  let sec := match op_security op with Some l => l | None => doc_security op end in
  (if sec_spec d a sec then [] else [PSec]) ++
  map part_of (filter (fun p => negb (p_ok p)) (effective (o_excl_query o) op)) ++
  (if negb (op_has_body op) || o_excl_body o || op_body_ok op then [] else [PBody]).

Definition judge (k : c07case) : N :=
  let d n := str_in n (k_declared k) in
  let o := k_opts k in
  let a n := o_has_auth o && str_in n (k_auth_ok k) in   (* no callback: nothing is accepted *)
  let m := validate_request d a o (k_op k) in
  let calls := auth_calls d a o (k_op k) in
  let sp := request_spec d a o (k_op k) in
  let same := match m with
              | None => g_ok k && match g_parts k with [] => true | _ => false end
              | Some l => negb (g_ok k) && list_eqb part_eqb l (g_parts k)
              end && list_eqb String.eqb calls (g_calls k) in
  let agree := Bool.eqb (g_ok k) sp &&
               (negb (o_multi o) || parts_same_set (g_parts k) (spec_failing d a o (k_op k))) &&
               (* in single-error mode the reported part is one of the failing ones *)
               (o_multi o || forallb (fun p => part_in p (spec_failing d a o (k_op k))) (g_parts k)) in
  (* no recorded class is left for C07 (classes 1 and 2 were repaired in /repo) *)
  if agree then (if same then J_OK else J_DRIFT) else J_VIOL.
