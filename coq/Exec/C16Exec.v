From KV Require Import Model.Base Model.DocValidate Model.Internalize.
Record ncase := mkNC { nc_root : string; nc_file : string; nc_frag : string; nc_coll : string; nc_go : string; nc_code : N }.
Definition judge_C16 (c : ncase) : N :=
  if N.eqb (nc_code c) 1 then J_VIOL
  else if String.eqb (name_of (nc_root c) (nc_file c) (nc_frag c) (nc_coll c)) (nc_go c) then J_OK else J_DRIFT.
