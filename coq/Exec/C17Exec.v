From KV Require Import Model.Base Model.Json Model.ParamCodec Model.Conv.
Local Open Scope list_scope.
Record c17case := mkC17 { k17_ref : string; g17_to : string; g17_from : string }.
Definition judge (k : c17case) : N :=
  if forallb (fun o => String.eqb (to_v3_ref o (k17_ref k)) (g17_to k) && String.eqb (from_v3_ref o (k17_ref k)) (g17_from k)) orders
  then J_OK else J_DRIFT.
