(* Judge of the deepObject cases of C05: the decoded value, the found flag and the error of the real
   decoder against Model/DeepObject.v, and against the round-trip specification when the query is
   the serialisation of a value. *)
From KV Require Import Model.Base Model.Json Model.Schema Model.Request Model.ParamCodec Exec.SchemaExec Exec.C05Exec.
From KV Require Import Model.DeepObject.
Local Open Scope list_scope.

Record c05deep := mkDeep {
  dd_name : string;
  dd_schema : dsch;
  dd_query : list (string * list string);       (* url.Values, keys sorted *)
  dd_expect : option pval;                        (* the value that was serialised (None: a hostile query) *)
  dd_int64 : list (string * option Z);
  dd_int32 : list (string * option Z);
  dd_float : list (string * option float);
  dd_atoi : list (string * option Z);
  gd_val : pval; gd_found : bool;
  gd_err : N         (* 0 none, 1 ParseError, 2 other error, 3 panic *)
}.

(* two keys of the query that give the same path: Go's map iteration decides which value stays *)
Fixpoint has_dup_path (l : list (list string * string)) : bool :=
  match l with
  | [] => false
  | (p, _) :: r => existsb (fun q => list_eqb String.eqb p (fst q)) r || has_dup_path r
  end.

Definition judge_deep (k : c05deep) : N :=
  let props := deep_props (dd_name k) (dd_query k) in
  if has_dup_path props then J_OK else
  let d := deep_decode (lk_opt (dd_int64 k)) (lk_opt (dd_int32 k)) (lk_opt (dd_float k)) (lk_opt (dd_atoi k))
                       (dd_name k) (dd_schema k) (dd_query k) in
  let same :=
      match d with
      | DPanic _ => N.eqb (gd_err k) 3
      | DRes v found e =>
          (match e with None => N.eqb (gd_err k) 0 | Some _ => N.eqb (gd_err k) 1 || N.eqb (gd_err k) 2 end)
          && Bool.eqb found (gd_found k) && (negb (N.eqb (gd_err k) 0) || pval_eqb v (gd_val k))
      end in
  if N.eqb (gd_err k) 3 then J_VIOL else
  match dd_expect k with
  | None => if same then J_OK else J_DRIFT        (* hostile queries: any verdict, never a panic *)
  | Some v =>
      (* the property: the serialised value comes back, found, without error *)
      let ok := N.eqb (gd_err k) 0 && gd_found k && pval_eqb v (gd_val k) in
      if ok then (if same then J_OK else J_DRIFT)
      else if same then J_KNOWN 8
      else J_VIOL
  end.
