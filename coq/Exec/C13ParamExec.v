(* Judge of the parameter cases of C13: what a successful ValidateRequest left in the request for
   one parameter, against the default-setting step of Model/Defaults.v (set_param_default: decode,
   and write the default in the form the serialisation method reads back only when the parameter is
   absent). *)
From KV Require Import Model.Base Model.Json Model.Schema Model.Request Model.ParamCodec Model.Defaults Exec.C05Exec.
Local Open Scope list_scope.

Record c13p := mkC13P {
  kp_def : pdef;
  kp_frag : fragment;                         (* the request as received *)
  kp_skip : bool;                             (* Options.SkipSettingDefaults *)
  kp_sprint : list (json * string);           (* the text of a scalar default / of each element of an array default *)
  kp_int64 : list (string * option Z);
  kp_int32 : list (string * option Z);
  kp_float : list (string * option float);
  gp_after : list string                      (* the texts carried for the parameter after validation *)
}.

Fixpoint lk_sprint (t : list (json * string)) (j : json) : string :=
  match t with
  | [] => "?"
  | (j', s) :: r => if json_text_eqb j j' then s else lk_sprint r j
  end.

Definition texts_under (name : string) (l : list (string * list string)) : list string :=
  flat_map (fun kv => if String.eqb (fst kv) name then snd kv else []) l.

Definition carried (p : pdef) (f : fragment) : list string :=
  match pd_in p with
  | LPath => []
  | LQuery => texts_under (pd_name p) (f_query f)
  | LHeader => texts_under (pd_name p) (f_header f)
  | LCookie => flat_map (fun kv => if String.eqb (fst kv) (pd_name p) then [snd kv] else []) (f_cookie f)
  end.

Definition judge_param (k : c13p) : N :=
  let f' := set_param_default (lk_sprint (kp_sprint k)) (lk_opt (kp_int64 k)) (lk_opt (kp_int32 k)) (lk_opt (kp_float k))
                              (kp_skip k) (kp_def k) (kp_frag k) in
  if list_eqb String.eqb (carried (kp_def k) f') (gp_after k) then J_OK else J_VIOL.
