(* Judge of the pattern-rewriting cases of C01: the output of openapi3.intoGoRegexp against
   Model/Pattern.v and - when the unit list is the ECMA reading of the pattern text - against the
   unit-wise specification (Proofs/PatternProofs.v, into_go_units). *)
From KV Require Import Model.Base Model.Pattern Proofs.PatternProofs.
Local Open Scope list_scope.

Record patcase := mkPat {
  pt_units : list punit;
  pt_text : string;        (* the pattern as the harness sent it *)
  pt_go : string           (* what intoGoRegexp returned *)
}.

Definition judge_pat (k : patcase) : N :=
  let same := String.eqb (into_go (pt_text k)) (pt_go k) in
  if negb (String.eqb (text (pt_units k)) (pt_text k)) then J_DRIFT      (* harness serialiser <> text *)
  else if canonical (pt_units k) then
    (* the property: every unit is rewritten on its own *)
    if String.eqb (go_text (pt_units k)) (pt_go k) then (if same then J_OK else J_DRIFT) else J_VIOL
  else if same then J_OK else J_DRIFT.
