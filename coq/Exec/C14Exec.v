(* C14 correspondence driver: one case = inputs + the observation made on the Go middleware. *)
From KV Require Import Model.Base Model.Middleware Spec.MiddlewareSpec.

Inductive efk :=
| EFDefault
| EFScript (hs : list hop)                      (* ignores its arguments *)
| EFStatus (pre post : list hop).               (* pre ++ [WriteHeader status] ++ post *)
Definition ef_of (k : efk) : Z -> errcode -> list hop :=
  match k with
  | EFDefault => default_ef
  | EFScript hs => fun _ _ => hs
  | EFStatus pre post => fun st _ => (pre ++ [HWriteHeader st] ++ post)%list
  end.

Record c14case := mkC14 {
  k_strict : bool;
  k_route_ok : bool;
  k_req_ok : bool;
  k_resp : list (Z * string * bool);   (* response-validation oracle, finite fragment *)
  k_ef : efk;
  k_hops : list hop;
  (* Go observation *)
  g_called : bool;
  g_code : Z;
  g_body : string;
  g_panic : bool;
  g_errs : list (Z * errcode);
  g_errs_obs : bool    (* false: default error callback in use, its calls are not observable *)
}.

Fixpoint resp_lookup (t : list (Z * string * bool)) (st : Z) (b : string) : bool :=
  match t with
  | [] => false
  | (st', b', ok) :: r => if Z.eqb st st' && String.eqb b b' then ok else resp_lookup r st b
  end.

Definition go_out (k : c14case) (m : outcome) : outcome :=
  mkOut (mkClient true (g_code k) (g_body k) (g_panic k)) (g_called k)
        (if g_errs_obs k then g_errs k else o_errs m) [] 0 "".

Definition out_eqb (a b : outcome) : bool :=
  client_obs_eqb (o_client a) (o_client b) && Bool.eqb (o_called a) (o_called b)
  && list_eqb err_eqb (o_errs a) (o_errs b).

Definition judge (k : c14case) : N :=
  let rk := resp_lookup (k_resp k) in
  let ef := ef_of (k_ef k) in
  let m := run (k_route_ok k) (k_req_ok k) rk ef (k_strict k) (k_hops k) in
  let g := go_out k m in
  let sp := spec_ok (k_route_ok k) (k_req_ok k) rk ef (k_strict k) (k_hops k) g in
  let same := out_eqb g m in
  if sp then (if same then J_OK else J_DRIFT)
  else if same then J_KNOWN 1   (* cannot happen while C14_middleware_meets_spec holds *)
  else J_VIOL.
