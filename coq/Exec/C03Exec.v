From KV Require Import Model.Base Model.Json Model.Codec Gen.Marshal.
Local Open Scope list_scope.

(* one typed object of a loaded document: its type, its members before the trip (JNull stands for a
   zero value, JBool true for any other value) and the member names after the trip *)
Record c03case := mkC03 {
  k3_type : string;
  k3_in : list (string * json);
  g3_out : list string
}.

Fixpoint find_ti (n : string) (l : list tyinfo) : option tyinfo :=
  match l with [] => None | ti :: r => if String.eqb n (ti_name ti) then Some ti else find_ti n r end.

Definition judge (k : c03case) : N :=
  match find_ti (k3_type k) marshal_tables with
  | None => J_OK         (* a type without table (Header, Callback, ...): decided by the document-level oracle *)
  | Some ti =>
      let m := map fst (marshal ti (unmarshal ti (k3_in k))) in
      let same := same_set m (g3_out k) in
      let spec_ok := negb (normal ti (k3_in k)) || same_set (map fst (k3_in k)) (g3_out k) in
      (* class 1: a type whose table is inconsistent (a recorded finding) *)
      let gc : N := if tbl_ok ti then 0%N else 1%N in
      if spec_ok then (if same then J_OK else J_DRIFT)
      else if same && negb (N.eqb gc 0) then J_KNOWN gc
      else J_VIOL
  end.
