package main

import (
	"bytes"
	"context"
	"encoding/json"
	"fmt"
	"io"
	"net/http"
	"net/http/httptest"
	"os"
	"strings"

	"github.com/getkin/kin-openapi/openapi3"
	"github.com/getkin/kin-openapi/openapi3filter"
	"github.com/getkin/kin-openapi/routers"
	"github.com/getkin/kin-openapi/routers/gorillamux"
)

const c14Doc = `
openapi: 3.0.0
info: {title: t, version: '1'}
paths:
  /items:
    post:
      requestBody:
        required: true
        content:
          application/json:
            schema: {type: object, required: [name], properties: {name: {type: string}}}
      responses:
        '200':
          description: ok
          content:
            application/json:
              schema: {type: object, required: [id], properties: {id: {type: integer}}}
        '201': {description: created}
        '4XX':
          description: bad
          content:
            text/plain:
              schema: {type: string, maxLength: 5}
    get:
      parameters:
        - {name: q, in: query, required: true, schema: {type: integer}}
      responses:
        default:
          description: any
          content:
            application/json:
              schema: {type: array, items: {type: integer}}
  /items/{id}:
    get:
      parameters:
        - {name: id, in: path, required: true, schema: {type: integer, minimum: 1}}
      responses:
        '200': {description: ok}
`

type Hop struct {
	Op string `json:"op"` // set | status | write | flush
	K  string `json:"k,omitempty"`
	V  string `json:"v,omitempty"`
	N  int    `json:"n,omitempty"`
	B  string `json:"b,omitempty"`
}

type C14Case struct {
	Strict        bool   `json:"strict"`
	IncludeStatus bool   `json:"include_status"`
	MultiError    bool   `json:"multi_error"`
	Method        string `json:"method"`
	URL           string `json:"url"`
	CT            string `json:"ct"`
	Body          string `json:"body"`
	EfKind        string `json:"ef_kind"` // default | script | status
	EfPre         []Hop  `json:"ef_pre,omitempty"`
	EfPost        []Hop  `json:"ef_post,omitempty"`
	Hops          []Hop  `json:"hops"`
}

type C14Obs struct {
	RouteOK bool     `json:"route_ok"`
	ReqOK   bool     `json:"req_ok"`
	Resp    [][3]any `json:"resp_oracle"`
	Called  bool     `json:"called"`
	Code    int      `json:"code"`
	Body    string   `json:"body"`
	Panic   string   `json:"panic,omitempty"`
	Errs    [][2]int `json:"errs"`
	ErrsObs bool     `json:"errs_observed"`
}

func hopCoq(h Hop) string {
	switch h.Op {
	case "set":
		return fmt.Sprintf("HSetHeader %s %s", coqStr(h.K), coqStr(h.V))
	case "status":
		return fmt.Sprintf("HWriteHeader %s", coqZ(int64(h.N)))
	case "write":
		return fmt.Sprintf("HWrite %s", coqStr(h.B))
	default:
		return "HFlush"
	}
}
func hopsCoq(hs []Hop) string {
	out := make([]string, len(hs))
	for i, h := range hs {
		out[i] = hopCoq(h)
	}
	return coqList(out)
}

func playHops(w http.ResponseWriter, hs []Hop) {
	for _, h := range hs {
		switch h.Op {
		case "set":
			w.Header().Set(h.K, h.V)
		case "status":
			w.WriteHeader(h.N)
		case "write":
			w.Write([]byte(h.B))
		case "flush":
			if f, ok := w.(http.Flusher); ok {
				f.Flush()
			} else {
				// the way handlers flush since Go 1.20; a writer that neither flushes nor unwraps answers ErrNotSupported
				_ = http.NewResponseController(w).Flush()
			}
		}
	}
}

type c14Env struct {
	doc    *openapi3.T
	router routers.Router
}

func newC14Env() *c14Env {
	loader := openapi3.NewLoader()
	doc, err := loader.LoadFromData([]byte(c14Doc))
	must(err)
	must(doc.Validate(context.Background()))
	r, err := gorillamux.NewRouter(doc)
	must(err)
	return &c14Env{doc, r}
}

func (c *C14Case) request() *http.Request {
	var body io.Reader
	if c.Body != "" || c.Method == "POST" {
		body = strings.NewReader(c.Body)
	}
	req := httptest.NewRequest(c.Method, c.URL, body)
	if c.CT != "" {
		req.Header.Set("Content-Type", c.CT)
	}
	return req
}

func (c *C14Case) options() openapi3filter.Options {
	return openapi3filter.Options{IncludeResponseStatus: c.IncludeStatus, MultiError: c.MultiError}
}

// reference wrapper bookkeeping used only to ask the response-validation oracle the right
// question; the Coq side re-derives both values from its own model and spec.
func c14StatusBody(hs []Hop) (wrapperStatus, specStatus int, body string) {
	set := false
	for _, h := range hs {
		switch h.Op {
		case "status":
			if !set {
				wrapperStatus, set = h.N, true
			}
		case "write":
			if !set {
				wrapperStatus, set = 200, true
			}
			body += h.B
		}
	}
	specStatus = wrapperStatus
	if !set {
		specStatus = 200
	}
	return
}

func runC14(env *c14Env, c *C14Case) C14Obs {
	var obs C14Obs
	ctx := context.Background()
	opts := c.options()
	// independent oracles
	route, pathParams, err := env.router.FindRoute(c.request())
	obs.RouteOK = err == nil
	var rvi *openapi3filter.RequestValidationInput
	if obs.RouteOK {
		rvi = &openapi3filter.RequestValidationInput{Request: c.request(), PathParams: pathParams, Route: route, Options: &opts}
		obs.ReqOK = openapi3filter.ValidateRequest(ctx, rvi) == nil
	}
	if obs.RouteOK && obs.ReqOK {
		hdr := http.Header{}
		for _, h := range c.Hops {
			if h.Op == "set" {
				hdr.Set(h.K, h.V)
			}
		}
		ws, ss, body := c14StatusBody(c.Hops)
		seen := map[int]bool{}
		for _, st := range []int{ws, ss} {
			if seen[st] {
				continue
			}
			seen[st] = true
			e := openapi3filter.ValidateResponse(ctx, &openapi3filter.ResponseValidationInput{
				RequestValidationInput: rvi, Status: st, Header: hdr.Clone(),
				Body: io.NopCloser(bytes.NewBufferString(body)), Options: &opts})
			obs.Resp = append(obs.Resp, [3]any{st, body, e == nil})
		}
	}
	// the middleware itself
	vopts := []openapi3filter.ValidatorOption{openapi3filter.Strict(c.Strict), openapi3filter.ValidationOptions(opts),
		openapi3filter.OnLog(func(context.Context, string, error) {})}
	obs.Errs = [][2]int{}
	if c.EfKind != "default" {
		obs.ErrsObs = true
		vopts = append(vopts, openapi3filter.OnErr(func(_ context.Context, w http.ResponseWriter, status int, code openapi3filter.ErrCode, _ error) {
			obs.Errs = append(obs.Errs, [2]int{status, int(code)})
			playHops(w, c.EfPre)
			if c.EfKind == "status" {
				w.WriteHeader(status)
			}
			playHops(w, c.EfPost)
		}))
	}
	v := openapi3filter.NewValidator(env.router, vopts...)
	h := v.Middleware(http.HandlerFunc(func(w http.ResponseWriter, r *http.Request) {
		obs.Called = true
		playHops(w, c.Hops)
	}))
	rec := httptest.NewRecorder()
	if p := catchPanic(func() { h.ServeHTTP(rec, c.request()) }); p != nil {
		obs.Panic = fmt.Sprint(p)
	}
	obs.Code = rec.Code
	obs.Body = rec.Body.String()
	return obs
}

func c14Coq(c *C14Case, o *C14Obs) string {
	var resp []string
	for _, r := range o.Resp {
		resp = append(resp, fmt.Sprintf("(%s, %s, %s)", coqZ(int64(r[0].(int))), coqStr(r[1].(string)), coqBool(r[2].(bool))))
	}
	ef := "EFDefault"
	switch c.EfKind {
	case "script":
		ef = "(EFScript " + hopsCoq(append(append([]Hop{}, c.EfPre...), c.EfPost...)) + ")"
	case "status":
		ef = "(EFStatus " + hopsCoq(c.EfPre) + " " + hopsCoq(c.EfPost) + ")"
	}
	var errs []string
	for _, e := range o.Errs {
		name := map[int]string{1: "ECNotFound", 2: "ECBadRequest", 3: "ECRespInvalid"}[e[1]]
		if name == "" {
			name = "ECRespInvalid"
			e[0] = -1 // unknown code: cannot equal any model value
		}
		errs = append(errs, fmt.Sprintf("(%s, %s)", coqZ(int64(e[0])), name))
	}
	return fmt.Sprintf("mkC14 %s %s %s %s %s %s %s %s %s %s %s %s",
		coqBool(c.Strict), coqBool(o.RouteOK), coqBool(o.ReqOK), coqList(resp), ef, hopsCoq(c.Hops),
		coqBool(o.Called), coqZ(int64(o.Code)), coqStr(o.Body), coqBool(o.Panic != ""), coqList(errs), coqBool(o.ErrsObs))
}

var c14Reqs = []C14Case{
	{Method: "POST", URL: "/items", CT: "application/json", Body: `{"name":"x"}`},
	{Method: "POST", URL: "/items", CT: "application/json", Body: `{"name":"x"}`},
	{Method: "POST", URL: "/items", CT: "application/json", Body: `{"name":"x"}`},
	{Method: "GET", URL: "/items?q=3"},
	{Method: "GET", URL: "/items/7"},
	{Method: "POST", URL: "/items", CT: "application/json", Body: `{"name":1}`},
	{Method: "POST", URL: "/items", CT: "application/json", Body: `{"nam`},
	{Method: "POST", URL: "/items", CT: "text/csv", Body: `a,b`},
	{Method: "GET", URL: "/items?q=abc"},
	{Method: "GET", URL: "/items"},
	{Method: "GET", URL: "/items/0"},
	{Method: "GET", URL: "/nope"},
	{Method: "DELETE", URL: "/items"},
	{Method: "GET", URL: "/items/1/2"},
}

var c14Statuses = []int{200, 200, 200, 201, 201, 204, 400, 404, 418, 500, 302, 100, 999, 0, 99, 1000, -1}
var c14Bodies = []string{`{"id":1}`, `{"id":1}`, `{"id":"x"}`, `{"id"`, `:1}`, `[1,2]`, `[1,"a"]`, `[1`, `,2]`, "", "hello", "toolong", "{}", "\x00\xff\"q"}
var c14Hdrs = []Hop{{Op: "set", K: "Content-Type", V: "application/json"}, {Op: "set", K: "Content-Type", V: "application/json"},
	{Op: "set", K: "Content-Type", V: "text/plain"}, {Op: "set", K: "Content-Type", V: "application/xml"}, {Op: "set", K: "X-A", V: "1"}}

func c14RandHop(r *Rng) Hop {
	switch r.Intn(10) {
	case 0, 1:
		return Pick(r, c14Hdrs)
	case 2, 3, 4:
		return Hop{Op: "status", N: Pick(r, c14Statuses)}
	case 5, 6, 7, 8:
		return Hop{Op: "write", B: Pick(r, c14Bodies)}
	}
	return Hop{Op: "flush"}
}
func c14RandHops(r *Rng, max int) []Hop {
	n := r.Intn(max + 1)
	hs := make([]Hop, 0, n)
	for i := 0; i < n; i++ {
		hs = append(hs, c14RandHop(r))
	}
	return hs
}

func c14Directed() []C14Case {
	J := Hop{Op: "set", K: "Content-Type", V: "application/json"}
	T := Hop{Op: "set", K: "Content-Type", V: "text/plain"}
	S := func(n int) Hop { return Hop{Op: "status", N: n} }
	W := func(b string) Hop { return Hop{Op: "write", B: b} }
	F := Hop{Op: "flush"}
	scripts := [][]Hop{
		{}, {J}, {F}, {S(200)}, {S(201)}, {S(204)}, {W("")}, {J, W(`{"id":1}`)}, {J, S(200), W(`{"id":1}`)},
		{J, W(`{"id"`), W(`:1}`)}, {J, S(200), W(`{"id":"x"}`)}, {J, S(201), S(500), W("x")}, {S(500), S(200)},
		{J, W(`{"id":1}`), S(500)}, {F, S(404), W("x")}, {T, S(404), W("short")}, {T, S(404), W("toolong")},
		{S(0)}, {S(99)}, {S(1000)}, {W("a"), S(0)}, {J, F, W(`{"id":1}`), F}, {S(418), T, W("abc")},
		{J, W(`[1,2]`)}, {J, S(200), W(`[1,"a"]`)},
	}
	efs := []C14Case{{EfKind: "default"}, {EfKind: "status", EfPost: []Hop{W("E")}}, {EfKind: "script", EfPre: []Hop{W("only-body")}},
		{EfKind: "script"}, {EfKind: "status", EfPre: []Hop{J}, EfPost: []Hop{W("a"), W("b"), S(200)}}}
	var out []C14Case
	for _, strict := range []bool{true, false} {
		for ri, rq := range c14Reqs {
			for si, sc := range scripts {
				if ri > 4 && si > 3 { // invalid requests: a few scripts are enough
					continue
				}
				c := rq
				c.Strict = strict
				ef := efs[(ri+si)%len(efs)]
				c.EfKind, c.EfPre, c.EfPost = ef.EfKind, ef.EfPre, ef.EfPost
				c.IncludeStatus = (ri+si)%3 == 0
				c.Hops = sc
				out = append(out, c)
			}
		}
	}
	return out
}

func c14Random(r *Rng) C14Case {
	c := Pick(r, c14Reqs)
	c.Strict = r.Bool()
	c.IncludeStatus = r.Chance(30)
	c.MultiError = r.Chance(20)
	switch r.Intn(4) {
	case 0:
		c.EfKind = "default"
	case 1:
		c.EfKind = "script"
		c.EfPre = c14RandHops(r, 3)
	default:
		c.EfKind = "status"
		c.EfPre = c14RandHops(r, 1)
		c.EfPost = c14RandHops(r, 2)
	}
	c.Hops = c14RandHops(r, 6)
	return c
}

func init() {
	runners["C14"] = func(seed uint64, n int, outDir string, replay string) {
		env := newC14Env()
		var cases []C14Case
		if replay != "" {
			cases = loadReplayCases[C14Case](replay)
		} else {
			cases = loadCorpus[C14Case]("C14")
			cases = append(cases, c14Directed()...)
			r := NewRng(seed)
			for i := 0; i < n; i++ {
				cases = append(cases, c14Random(r))
			}
		}
		meta := &Meta{Property: "C14", Seed: seed, Histogram: map[string]int{},
			Rule: "directed scripts x requests x modes + seeded random handler scripts (0-6 calls); non-trivial = handler ran and made at least one WriteHeader/Write call, or the error callback ran; distinct by JSON of the case"}
		seen := map[string]bool{}
		var terms []string
		for i := range cases {
			c := &cases[i]
			o := runC14(env, c)
			terms = append(terms, c14Coq(c, &o))
			meta.Cases = append(meta.Cases, map[string]any{"input": c, "go": o})
			key, _ := json.Marshal(c)
			nontriv := (o.Called && func() bool {
				for _, h := range c.Hops {
					if h.Op == "status" || h.Op == "write" {
						return true
					}
				}
				return false
			}()) || !o.Called
			if nontriv && !seen[string(key)] {
				seen[string(key)] = true
				meta.Distinct++
			}
			meta.Histogram[fmt.Sprintf("strict=%v", c.Strict)]++
			meta.Histogram[fmt.Sprintf("route_ok=%v,req_ok=%v", o.RouteOK, o.ReqOK)]++
			meta.Histogram[fmt.Sprintf("hops=%d", len(c.Hops))]++
			meta.Histogram["ef="+c.EfKind]++
			if o.Panic != "" {
				meta.Histogram["go_panic"]++
			}
			if len(o.Resp) > 0 {
				meta.Histogram[fmt.Sprintf("resp_ok=%v", o.Resp[0][2])]++
			}
		}
		if replay == "" {
			validationHandlerOracles(meta)
			c14DirectCases(meta)
		}
		meta.NCases = len(cases)
		meta.Shard = 1500
		meta.Files = writeCases(outDir, "From KV Require Import Model.Base Model.Middleware Exec.C14Exec.", "c14case", "judge", terms, meta.Shard)
		writeMeta(outDir, meta)
		fmt.Fprintf(os.Stderr, "C14: %d cases\n", len(cases))
	}
}
