package main

import (
	"context"
	"encoding/json"
	"fmt"
	"os"
	"sort"
	"strings"

	"github.com/getkin/kin-openapi/openapi2"
	"github.com/getkin/kin-openapi/openapi2conv"
	"github.com/getkin/kin-openapi/openapi3"
)

// A case is a Swagger 2 document (as a JSON tree) built by the generator.
type C17Case struct {
	Doc map[string]any `json:"doc"`
}
type C17Obs struct {
	Err        string   `json:"err,omitempty"`
	Violations []string `json:"violations,omitempty"`
	Diff3      []string `json:"diff_v2_vs_v3,omitempty"`
	DiffBack   []string `json:"diff_v2_vs_back,omitempty"`
}

// ---- projection: "the API a document describes", common to both versions ----
func projRefName(ref string) string {
	for _, p := range []string{"#/definitions/", "#/components/schemas/", "#/parameters/", "#/components/parameters/", "#/responses/", "#/components/responses/", "#/components/requestBodies/"} {
		if strings.HasPrefix(ref, p) {
			return "ref:" + strings.TrimPrefix(ref, p)
		}
	}
	return "ref?:" + ref
}

var schemaKeys = []string{"type", "format", "enum", "default", "minimum", "maximum", "exclusiveMinimum", "exclusiveMaximum", "multipleOf", "minLength", "maxLength",
	"pattern", "minItems", "maxItems", "uniqueItems", "required", "minProperties", "maxProperties", "readOnly", "title", "description"}

func projSchema(s any, v3 bool) any {
	m, ok := s.(map[string]any)
	if !ok {
		return s
	}
	if r, ok := m["$ref"].(string); ok {
		return projRefName(r)
	}
	out := map[string]any{}
	for _, k := range schemaKeys {
		if v, ok := m[k]; ok {
			out[k] = v
		}
	}
	// nullable: x-nullable (v2) / nullable (v3)
	if v3 {
		if n, _ := m["nullable"].(bool); n {
			out["nullable"] = true
		}
	} else if n, _ := m["x-nullable"].(bool); n {
		out["nullable"] = true
	}
	if t, _ := m["type"].(string); t == "file" {
		out["type"], out["format"] = "string", "binary"
	}
	if d, ok := m["discriminator"]; ok {
		if dm, ok := d.(map[string]any); ok {
			out["discriminator"] = dm["propertyName"]
		} else {
			out["discriminator"] = d
		}
	}
	if p, ok := m["properties"].(map[string]any); ok {
		pp := map[string]any{}
		for k, v := range p {
			pp[k] = projSchema(v, v3)
		}
		out["properties"] = pp
	}
	if it, ok := m["items"]; ok {
		out["items"] = projSchema(it, v3)
	}
	if a, ok := m["allOf"].([]any); ok {
		l := make([]any, len(a))
		for i, v := range a {
			l[i] = projSchema(v, v3)
		}
		out["allOf"] = l
	}
	if n, ok := m["not"]; ok {
		out["not"] = projSchema(n, v3)
	}
	if ap, ok := m["additionalProperties"]; ok {
		out["additionalProperties"] = projSchema(ap, v3)
	}
	return out
}

// a non-body parameter: name, in, required, constraints (v2: inline; v3: under schema)
func projParam(p map[string]any, v3 bool) any {
	if r, ok := p["$ref"].(string); ok {
		return projRefName(r)
	}
	out := map[string]any{"name": p["name"], "in": p["in"]}
	req, _ := p["required"].(bool)
	if p["in"] == "path" {
		req = true
	}
	out["required"] = req
	var cons map[string]any
	if v3 {
		cons, _ = projSchema(p["schema"], true).(map[string]any)
	} else {
		cons, _ = projSchema(p, false).(map[string]any)
	}
	for _, k := range []string{"description", "title", "required", "readOnly"} {
		delete(cons, k)
	}
	out["constraints"] = cons
	return out
}

func projResponses(rs map[string]any, v3 bool) any {
	out := map[string]any{}
	for code, r := range rs {
		m, _ := r.(map[string]any)
		if ref, ok := m["$ref"].(string); ok {
			out[code] = projRefName(ref)
			continue
		}
		pr := map[string]any{"description": m["description"]}
		if v3 {
			if c, ok := m["content"].(map[string]any); ok {
				for _, mt := range sortedKeys(c) {
					if mm, ok := c[mt].(map[string]any); ok {
						pr["schema"] = projSchema(mm["schema"], true)
					}
					break
				}
			}
		} else if s, ok := m["schema"]; ok {
			pr["schema"] = projSchema(s, false)
		}
		if hs, ok := m["headers"].(map[string]any); ok {
			ph := map[string]any{}
			for name, h := range hs {
				hm, _ := h.(map[string]any)
				if v3 {
					c, _ := projSchema(hm["schema"], true).(map[string]any)
					delete(c, "description")
					ph[name] = c
				} else {
					c, _ := projSchema(hm, false).(map[string]any)
					delete(c, "description")
					ph[name] = c
				}
			}
			pr["headers"] = ph
		}
		out[code] = pr
	}
	return out
}

var c17Methods = []string{"get", "put", "post", "delete", "options", "head", "patch"}

func projV2(d map[string]any) map[string]any {
	out := map[string]any{}
	defs := map[string]any{}
	if m, ok := d["definitions"].(map[string]any); ok {
		for k, v := range m {
			defs[k] = projSchema(v, false)
		}
	}
	out["definitions"] = defs
	paths := map[string]any{}
	if m, ok := d["paths"].(map[string]any); ok {
		for p, it := range m {
			item, _ := it.(map[string]any)
			pp := map[string]any{}
			for _, meth := range c17Methods {
				op, ok := item[meth].(map[string]any)
				if !ok {
					continue
				}
				po := map[string]any{"operationId": op["operationId"]}
				var params []any
				form := map[string]any{}
				var formReq []string
				if ps, ok := op["parameters"].([]any); ok {
					for _, x := range ps {
						pm, _ := x.(map[string]any)
						switch pm["in"] {
						case "body":
							req, _ := pm["required"].(bool)
							po["body"] = map[string]any{"required": req, "schema": projSchema(pm["schema"], false)}
						case "formData":
							c, _ := projSchema(pm, false).(map[string]any)
							for _, k := range []string{"title", "required", "readOnly"} {
								delete(c, k)
							}
							if _, twice := form[pm["name"].(string)]; twice {
								// a parameter is unique by name and location
								dup, _ := po["duplicate_form_parameters"].([]any)
								po["duplicate_form_parameters"] = append(dup, pm["name"])
							}
							form[pm["name"].(string)] = c
							if r, _ := pm["required"].(bool); r {
								formReq = append(formReq, pm["name"].(string))
							}
						default:
							params = append(params, projParam(pm, false))
						}
					}
				}
				if len(form) > 0 {
					sort.Strings(formReq)
					po["form"] = map[string]any{"properties": form, "required": formReq}
				}
				po["parameters"] = sortAny(params)
				if rs, ok := op["responses"].(map[string]any); ok {
					po["responses"] = projResponses(rs, false)
				}
				pp[meth] = po
			}
			if ps, ok := item["parameters"].([]any); ok {
				var params []any
				for _, x := range ps {
					params = append(params, projParam(x.(map[string]any), false))
				}
				pp["parameters"] = sortAny(params)
			}
			paths[p] = pp
		}
	}
	out["paths"] = paths
	sec := map[string]any{}
	if m, ok := d["securityDefinitions"].(map[string]any); ok {
		for k, v := range m {
			s, _ := v.(map[string]any)
			ps := map[string]any{}
			switch s["type"] {
			case "basic":
				ps["type"], ps["scheme"] = "http", "basic"
			case "apiKey":
				ps["type"], ps["in"], ps["name"] = "apiKey", s["in"], s["name"]
			case "oauth2":
				ps["type"], ps["flow"], ps["scopes"] = "oauth2", s["flow"], s["scopes"]
				if u, ok := s["authorizationUrl"]; ok {
					ps["authorizationUrl"] = u
				}
				if u, ok := s["tokenUrl"]; ok {
					ps["tokenUrl"] = u
				}
			}
			sec[k] = ps
		}
	}
	out["security"] = sec
	if h, ok := d["host"].(string); ok && h != "" {
		bp, _ := d["basePath"].(string)
		if bp == "" {
			bp = "/"
		}
		schemes, _ := d["schemes"].([]any)
		if len(schemes) == 0 {
			schemes = []any{"https"}
		}
		var servers []string
		for _, s := range schemes {
			servers = append(servers, fmt.Sprintf("%v://%s%s", s, h, bp))
		}
		sort.Strings(servers)
		out["servers"] = servers
	}
	return out
}

func projV3(d map[string]any) map[string]any {
	out := map[string]any{}
	comps, _ := d["components"].(map[string]any)
	defs := map[string]any{}
	if m, ok := comps["schemas"].(map[string]any); ok {
		for k, v := range m {
			defs[k] = projSchema(v, true)
		}
	}
	out["definitions"] = defs
	paths := map[string]any{}
	if m, ok := d["paths"].(map[string]any); ok {
		for p, it := range m {
			item, _ := it.(map[string]any)
			pp := map[string]any{}
			for _, meth := range c17Methods {
				op, ok := item[meth].(map[string]any)
				if !ok {
					continue
				}
				po := map[string]any{"operationId": op["operationId"]}
				var params []any
				if ps, ok := op["parameters"].([]any); ok {
					for _, x := range ps {
						params = append(params, projParam(x.(map[string]any), true))
					}
				}
				po["parameters"] = sortAny(params)
				if rb, ok := op["requestBody"].(map[string]any); ok {
					req, _ := rb["required"].(bool)
					if c, ok := rb["content"].(map[string]any); ok {
						for _, mt := range sortedKeys(c) {
							mm, _ := c[mt].(map[string]any)
							sch, _ := mm["schema"].(map[string]any)
							isForm := false
							if props, ok := sch["properties"].(map[string]any); ok && sch["type"] == "object" {
								for _, pv := range props {
									if pm, ok := pv.(map[string]any); ok {
										if _, ok := pm["x-formData-name"]; ok {
											isForm = true
										}
									}
								}
							}
							if isForm {
								form := map[string]any{}
								for name, pv := range sch["properties"].(map[string]any) {
									c, _ := projSchema(pv, true).(map[string]any)
									for _, k := range []string{"title", "required", "readOnly"} {
										delete(c, k)
									}
									form[name] = c
								}
								var fr []string
								if r, ok := sch["required"].([]any); ok {
									for _, x := range r {
										fr = append(fr, fmt.Sprint(x))
									}
								}
								sort.Strings(fr)
								po["form"] = map[string]any{"properties": form, "required": fr}
							} else {
								po["body"] = map[string]any{"required": req, "schema": projSchema(mm["schema"], true)}
							}
							break
						}
					}
				}
				if rs, ok := op["responses"].(map[string]any); ok {
					po["responses"] = projResponses(rs, true)
				}
				pp[meth] = po
			}
			if ps, ok := item["parameters"].([]any); ok {
				var params []any
				for _, x := range ps {
					params = append(params, projParam(x.(map[string]any), true))
				}
				pp["parameters"] = sortAny(params)
			}
			paths[p] = pp
		}
	}
	out["paths"] = paths
	sec := map[string]any{}
	if m, ok := comps["securitySchemes"].(map[string]any); ok {
		for k, v := range m {
			s, _ := v.(map[string]any)
			ps := map[string]any{}
			switch s["type"] {
			case "http":
				ps["type"], ps["scheme"] = "http", s["scheme"]
			case "apiKey":
				ps["type"], ps["in"], ps["name"] = "apiKey", s["in"], s["name"]
			case "oauth2":
				ps["type"] = "oauth2"
				flows, _ := s["flows"].(map[string]any)
				for v3name, v2name := range map[string]string{"implicit": "implicit", "password": "password", "clientCredentials": "application", "authorizationCode": "accessCode"} {
					if f, ok := flows[v3name].(map[string]any); ok {
						ps["flow"], ps["scopes"] = v2name, f["scopes"]
						if u, ok := f["authorizationUrl"]; ok && u != "" {
							ps["authorizationUrl"] = u
						}
						if u, ok := f["tokenUrl"]; ok && u != "" {
							ps["tokenUrl"] = u
						}
					}
				}
			}
			sec[k] = ps
		}
	}
	out["security"] = sec
	if sv, ok := d["servers"].([]any); ok && len(sv) > 0 {
		var servers []string
		for _, s := range sv {
			servers = append(servers, fmt.Sprint(s.(map[string]any)["url"]))
		}
		sort.Strings(servers)
		out["servers"] = servers
	}
	return out
}

func sortAny(l []any) []any {
	sort.Slice(l, func(i, j int) bool {
		a, _ := json.Marshal(l[i])
		b, _ := json.Marshal(l[j])
		return string(a) < string(b)
	})
	if l == nil {
		return []any{}
	}
	return l
}

func toTree(v any) map[string]any {
	b, _ := json.Marshal(v)
	var out map[string]any
	json.Unmarshal(b, &out)
	return out
}

func c17AllRefs(v any, f func(string)) {
	switch x := v.(type) {
	case map[string]any:
		if r, ok := x["$ref"].(string); ok {
			f(r)
		}
		for _, e := range x {
			c17AllRefs(e, f)
		}
	case []any:
		for _, e := range x {
			c17AllRefs(e, f)
		}
	}
}

func runC17(c *C17Case) C17Obs {
	var o C17Obs
	b, _ := json.Marshal(c.Doc)
	var d2 openapi2.T
	if err := json.Unmarshal(b, &d2); err != nil {
		o.Err = "unmarshal v2: " + err.Error()
		return o
	}
	want := normalizeTree(projV2(toTree(&d2)))
	var d3 *openapi3.T
	var err error
	if p := catchPanic(func() { d3, err = openapi2conv.ToV3(&d2) }); p != nil {
		o.Violations = append(o.Violations, "panic-to-v3")
		o.Err = fmt.Sprint(p)
		return o
	}
	if err != nil {
		o.Err = "ToV3: " + err.Error()
		o.Violations = append(o.Violations, "to-v3-error")
		return o
	}
	if verr := d3.Validate(context.Background()); verr != nil {
		o.Violations = append(o.Violations, "v3-invalid")
		o.Err = verr.Error()
	}
	got3 := normalizeTree(projV3(toTree(d3)))
	var lost, inv, chg []string
	c03Diff("", want, got3, &lost, &inv, &chg)
	for _, x := range lost {
		o.Diff3 = append(o.Diff3, "lost:"+x)
	}
	for _, x := range inv {
		o.Diff3 = append(o.Diff3, "invented:"+x)
	}
	for _, x := range chg {
		o.Diff3 = append(o.Diff3, "changed:"+x)
	}
	sort.Strings(o.Diff3)
	if len(o.Diff3) > 0 {
		o.Violations = append(o.Violations, "to-v3-api-differs")
	}
	// way back
	var back *openapi2.T
	if p := catchPanic(func() { back, err = openapi2conv.FromV3(d3) }); p != nil {
		o.Violations = append(o.Violations, "panic-from-v3")
		return o
	}
	if err != nil {
		o.Violations = append(o.Violations, "from-v3-error")
		o.Err = "FromV3: " + err.Error()
		return o
	}
	backTree := toTree(back)
	gotBack := normalizeTree(projV2(backTree))
	lost, inv, chg = nil, nil, nil
	c03Diff("", want, gotBack, &lost, &inv, &chg)
	for _, x := range lost {
		o.DiffBack = append(o.DiffBack, "lost:"+x)
	}
	for _, x := range inv {
		o.DiffBack = append(o.DiffBack, "invented:"+x)
	}
	for _, x := range chg {
		o.DiffBack = append(o.DiffBack, "changed:"+x)
	}
	sort.Strings(o.DiffBack)
	if len(o.DiffBack) > 0 {
		o.Violations = append(o.Violations, "back-api-differs")
	}
	c17AllRefs(backTree, func(r string) {
		if strings.HasPrefix(r, "#/components/") {
			o.Violations = append(o.Violations, "back-has-v3-ref")
		}
	})
	sort.Strings(o.Violations)
	o.Violations = dedup(o.Violations)
	return o
}

func normalizeTree(v any) any {
	b, _ := json.Marshal(v)
	var out any
	json.Unmarshal(b, &out)
	return out
}

// ---- generator ----
func c17Schema(r *Rng, depth int, defs []string) map[string]any {
	s := c17SchemaInner(r, depth, defs)
	if _, isRef := s["$ref"]; !isRef && r.Chance(12) {
		// nullable applies to every schema shape, typed or not (the reference-or-null idiom is an untyped allOf)
		s["x-nullable"] = true
	}
	return s
}

func c17SchemaInner(r *Rng, depth int, defs []string) map[string]any {
	if len(defs) > 0 && r.Chance(20) {
		return map[string]any{"$ref": "#/definitions/" + Pick(r, defs)}
	}
	switch r.Intn(6) {
	case 0, 1:
		s := map[string]any{"type": "integer"}
		if r.Chance(50) {
			s["format"] = Pick(r, []string{"int32", "int64"})
		}
		if r.Chance(40) {
			s["minimum"] = float64(r.Intn(5))
			if r.Chance(30) {
				s["exclusiveMinimum"] = true
			}
		}
		if r.Chance(40) {
			s["maximum"] = float64(10 + r.Intn(5))
		}
		if r.Chance(20) {
			s["multipleOf"] = 2.0
		}
		if r.Chance(20) {
			s["enum"] = []any{1.0, 2.0}
		}
		if _, has := s["enum"]; !has && r.Chance(20) {
			// a default that satisfies the bounds generated above
			d := 2.0
			if mn, ok := s["minimum"].(float64); ok {
				d = mn + 2
			}
			if _, ok := s["multipleOf"]; ok && int(d)%2 != 0 {
				d++
			}
			s["default"] = d
		}
		return s
	case 2:
		s := map[string]any{"type": "string"}
		if r.Chance(40) {
			s["minLength"] = float64(1 + r.Intn(3))
		}
		if r.Chance(40) {
			s["maxLength"] = float64(5 + r.Intn(3))
		}
		if r.Chance(30) {
			s["pattern"] = "^[a-z]+$"
		}
		if r.Chance(20) {
			s["format"] = Pick(r, []string{"date", "byte"})
		}
		if r.Chance(15) {
			s["x-nullable"] = true
		}
		return s
	case 3:
		s := map[string]any{"type": "array"}
		if depth > 0 {
			s["items"] = c17Schema(r, depth-1, defs)
		} else {
			s["items"] = map[string]any{"type": "string"}
		}
		if r.Chance(40) {
			s["minItems"] = float64(r.Intn(3))
		}
		if r.Chance(40) {
			s["maxItems"] = float64(3 + r.Intn(3))
		}
		if r.Chance(30) {
			s["uniqueItems"] = true
		}
		return s
	case 4:
		if depth > 0 {
			return map[string]any{"allOf": []any{c17Schema(r, depth-1, defs), c17Schema(r, depth-1, nil)}}
		}
		return map[string]any{"type": "boolean"}
	default:
		s := map[string]any{"type": "object"}
		props := map[string]any{}
		var req []any
		for _, k := range []string{"id", "name", "tags"} {
			if r.Chance(65) {
				if depth > 0 {
					props[k] = c17Schema(r, depth-1, defs)
				} else {
					props[k] = map[string]any{"type": "string"}
				}
				if r.Chance(40) {
					req = append(req, k)
				}
			}
		}
		s["properties"] = props
		if len(req) > 0 {
			s["required"] = req
		}
		if r.Chance(20) {
			s["minProperties"] = 1.0
		}
		if r.Chance(20) {
			s["maxProperties"] = 5.0
		}
		if r.Chance(15) {
			s["title"] = "T"
		}
		if r.Chance(15) {
			s["description"] = "desc"
		}
		if r.Chance(10) {
			s["discriminator"] = "name"
		}
		if r.Chance(15) && depth > 0 {
			ap := c17Schema(r, 0, defs)
			delete(ap, "x-nullable") // additionalProperties holds an OpenAPI 3 schema already
			s["additionalProperties"] = ap
		} else if r.Chance(15) {
			s["additionalProperties"] = false // a closed object
		}
		return s
	}
}

func c17Prim(r *Rng) map[string]any {
	s := c17Schema(r, 0, nil)
	for {
		t, _ := s["type"].(string)
		if t == "integer" || t == "string" || t == "boolean" || t == "array" {
			break
		}
		s = c17Schema(r, 0, nil)
	}
	delete(s, "x-nullable")
	return s
}

func c17Random(r *Rng) C17Case {
	doc := map[string]any{"swagger": "2.0", "info": map[string]any{"title": "t", "version": "1"}}
	if r.Chance(70) {
		doc["host"] = Pick(r, []string{"api.example.com", "api.example.com", "staging.example.com:8443", "localhost:8080"})
		if r.Chance(60) {
			doc["basePath"] = Pick(r, []string{"/v1", "/"})
		}
		if r.Chance(60) {
			doc["schemes"] = []any{"https"}
			if r.Chance(40) {
				doc["schemes"] = []any{"https", "http"}
			}
		}
	}
	if r.Chance(12) {
		// an explicit empty list of media types at the top says no more than its absence
		doc["consumes"] = []any{}
	}
	var defNames []string
	defs := map[string]any{}
	for _, n := range []string{"Pet", "Tag", "Err"} {
		if r.Chance(70) {
			defs[n] = c17Schema(r, 2, defNames)
			defNames = append(defNames, n)
		}
	}
	if len(defs) > 0 {
		doc["definitions"] = defs
	}
	paramKey, respKey := "Limit", "NotFound"
	if r.Chance(50) {
		p := c17Prim(r)
		p["name"], p["in"] = "limit", "query"
		// Swagger 2 keeps parameters, responses and definitions in separate name spaces: the same key may appear in several
		if len(defNames) > 0 && r.Chance(35) {
			paramKey = Pick(r, defNames)
		}
		doc["parameters"] = map[string]any{paramKey: p}
	}
	if r.Chance(50) {
		if len(defNames) > 0 && r.Chance(35) {
			respKey = Pick(r, defNames)
		}
		doc["responses"] = map[string]any{respKey: map[string]any{"description": "nf", "schema": c17Schema(r, 1, defNames)}}
	}
	if r.Chance(60) {
		sd := map[string]any{}
		if r.Chance(50) {
			sd["key"] = map[string]any{"type": "apiKey", "name": "X-Key", "in": "header"}
		}
		if r.Chance(40) {
			sd["basic"] = map[string]any{"type": "basic"}
		}
		if r.Chance(50) {
			flow := Pick(r, []string{"implicit", "password", "application", "accessCode"})
			o := map[string]any{"type": "oauth2", "flow": flow, "scopes": map[string]any{"read": "r"}}
			if flow == "implicit" || flow == "accessCode" {
				o["authorizationUrl"] = "https://example.com/auth"
			}
			if flow != "implicit" {
				o["tokenUrl"] = "https://example.com/token"
			}
			sd["oauth"] = o
		}
		if len(sd) > 0 {
			doc["securityDefinitions"] = sd
		}
	}
	paths := map[string]any{}
	np := 1 + r.Intn(3)
	opID := 0
	for i := 0; i < np; i++ {
		path := Pick(r, []string{"/pets", "/pets/{id}", "/tags", "/upload"})
		if _, ok := paths[path]; ok {
			continue
		}
		item := map[string]any{}
		if strings.Contains(path, "{id}") {
			item["parameters"] = []any{map[string]any{"name": "id", "in": "path", "required": true, "type": "integer"}}
		}
		for _, meth := range []string{"get", "post", "put"} {
			if !r.Chance(55) {
				continue
			}
			opID++
			op := map[string]any{"operationId": fmt.Sprintf("op%d", opID)}
			var params []any
			if r.Chance(50) {
				p := c17Prim(r)
				p["name"], p["in"] = "q", Pick(r, []string{"query", "header"})
				if r.Chance(40) {
					p["required"] = true
				}
				params = append(params, p)
			}
			if _, ok := doc["parameters"]; ok && r.Chance(30) {
				params = append(params, map[string]any{"$ref": "#/parameters/" + paramKey})
			}
			if meth != "get" {
				if r.Chance(50) {
					bp := map[string]any{"name": "body", "in": "body", "schema": c17Schema(r, 1, defNames)}
					if r.Chance(50) {
						bp["required"] = true
					}
					if r.Chance(35) {
						// several non-form media types for one body: every one of them describes the same schema
						op["consumes"] = Pick(r, [][]any{{"application/json", "application/xml"}, {"application/xml", "application/json", "text/plain"}, {"text/plain", "application/json"}})
						if r.Chance(60) {
							bp["schema"] = map[string]any{"type": "object", "properties": map[string]any{
								"note": map[string]any{"type": "string", "x-nullable": true},
								"tags": map[string]any{"type": "array", "items": map[string]any{"type": "string", "x-nullable": true}},
								"v":    c17Schema(r, 1, defNames)}}
						}
					}
					params = append(params, bp)
				} else if r.Chance(50) {
					// form parameters travel under one form media type, or under either of the two
					op["consumes"] = Pick(r, [][]any{{"multipart/form-data"}, {"multipart/form-data"}, {"application/x-www-form-urlencoded"},
						{"application/x-www-form-urlencoded", "multipart/form-data"}, {"multipart/form-data", "application/x-www-form-urlencoded"}})
					for _, fn := range []string{"f1", "f2"} {
						if r.Chance(70) {
							fp := c17Prim(r)
							if r.Chance(25) {
								fp = map[string]any{"type": "file"}
							}
							fp["name"], fp["in"] = fn, "formData"
							if r.Chance(40) {
								fp["required"] = true
							}
							params = append(params, fp)
						}
					}
				}
			}
			if len(params) > 0 {
				op["parameters"] = params
			}
			resps := map[string]any{"200": map[string]any{"description": "ok"}}
			if r.Chance(60) {
				resps["200"].(map[string]any)["schema"] = c17Schema(r, 1, defNames)
			}
			if r.Chance(15) {
				// one inline nullable response schema offered under several media types
				op["produces"] = Pick(r, [][]any{{"application/json", "application/xml"}, {"application/xml", "application/json", "text/plain"}})
				resps["200"].(map[string]any)["schema"] = map[string]any{"type": "object", "x-nullable": true, "properties": map[string]any{"note": map[string]any{"type": "string", "x-nullable": true}}}
			}
			if r.Chance(30) {
				h := c17Prim(r)
				delete(h, "items")
				if h["type"] == "array" {
					h = map[string]any{"type": "string"}
				}
				resps["200"].(map[string]any)["headers"] = map[string]any{"X-Rate": h}
			}
			if _, ok := doc["responses"]; ok && r.Chance(40) {
				resps["404"] = map[string]any{"$ref": "#/responses/" + respKey}
			}
			op["responses"] = resps
			item[meth] = op
		}
		paths[path] = item
	}
	doc["paths"] = paths
	return C17Case{Doc: doc}
}

// signature of a difference: the last path segments without names of definitions / operations
func c17Sig(diff []string) []string {
	set := map[string]bool{}
	for _, d := range diff {
		kind := d[:strings.Index(d, ":")]
		segs := strings.Split(d, "/")
		set[kind+":"+segs[len(segs)-1]] = true
	}
	return sortedKeys(set)
}

func init() {
	runners["C17"] = func(seed uint64, n int, outDir string, replay string) {
		var cases []C17Case
		if replay != "" {
			cases = loadReplayCases[C17Case](replay)
		} else {
			cases = loadCorpus[C17Case]("C17")
			var sink map[string]any
			json.Unmarshal(sink2, &sink)
			cases = append(cases, C17Case{Doc: sink})
			r := NewRng(seed)
			for i := 0; i < n; i++ {
				cases = append(cases, c17Random(r))
			}
		}
		meta := &Meta{Property: "C17", Seed: seed, Histogram: map[string]int{}, Shard: 1000,
			Rule: "the Swagger 2 kitchen-sink document + seeded random convertible documents (host/basePath/schemes; 0-3 definitions of depth <= 3 with references, allOf, x-nullable, discriminator; shared parameters and responses; 1-3 paths x get/post/put with query/header/path, body or form/file parameters; response schemas and headers; basic/apiKey/oauth2 x 4 flows); each is converted to v3 (validated), projected to the API it describes, compared with the projection of the source, converted back and compared again; non-trivial = the document has at least one operation; distinct by JSON of the case"}
		seen := map[string]bool{}
		var terms []string
		for i := range cases {
			c := &cases[i]
			o := runC17(c)
			meta.Cases = append(meta.Cases, map[string]any{"input": c, "go": o})
			key, _ := json.Marshal(c)
			if !seen[string(key)] {
				seen[string(key)] = true
				meta.Distinct++
			}
			meta.Histogram[fmt.Sprintf("violations=%d", len(o.Violations))]++
			for _, v := range o.Violations {
				meta.Histogram["oracle:"+v]++
				switch v {
				case "to-v3-api-differs":
					for _, s := range c17Sig(o.Diff3) {
						meta.GoViolation = append(meta.GoViolation, map[string]any{"signature": "to-v3:" + s, "cases": []any{c}, "go_observation": o, "judgement": "the v3 document does not describe the same API: " + s})
					}
				case "back-api-differs":
					for _, s := range c17Sig(o.DiffBack) {
						meta.GoViolation = append(meta.GoViolation, map[string]any{"signature": "back:" + s, "cases": []any{c}, "go_observation": o, "judgement": "the document converted back does not describe the same API: " + s})
					}
				default:
					meta.GoViolation = append(meta.GoViolation, map[string]any{"signature": v, "cases": []any{c}, "go_observation": o, "judgement": v})
				}
			}
			// reference rewriting: Go vs model on a few strings per case
			for _, ref := range []string{"#/definitions/Pet", "#/responses/NotFound", "#/parameters/Limit", "#/components/schemas/X", "#/components/requestBodies/B", "other.yaml#/definitions/Q", "#/definitions/#/responses/x"} {
				if i < 40 || i%17 == 0 {
					terms = append(terms, fmt.Sprintf("mkC17 %s %s %s", coqStr(ref), coqStr(openapi2conv.ToV3Ref(ref)), coqStr(openapi2conv.FromV3Ref(ref))))
				}
			}
		}
		meta.NCases = len(cases)
		meta.Files, _ = writeCasesAt(outDir, "cases", "From KV Require Import Model.Base Model.Conv Exec.C17Exec.", "c17case", "judge", terms, meta.Shard, 0)
		meta.IndexMap = make([]int, len(terms))
		writeMeta(outDir, meta)
		fmt.Fprintf(os.Stderr, "C17: %d cases\n", len(cases))
	}
}
