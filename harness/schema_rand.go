package main

import "encoding/json"

// Random / directed generators of schemas and values (used by C01, C12, C19, C06, C08).

var numPalette = []float64{0, 1, -1, 2, 3, 5, 10, 0.5, 1.5, 2.5, -2.5, 100, 1e9, 7, 0.1, 0.3}
var strPalette = []string{"", "a", "ab", "abc", "abcd", "hello", "x1", "A-1", "héllo", "日本", "𝄞x", "a b", "2020-01-02", "Zm9v", "12", "é", "\\u0041", "\\x{0041}", "\\A"}
var keyPalette = []string{"a", "b", "c", "id", "name", "x-id"}
var patPalette = []string{"^a", "^[a-z]+$", "b$", "^\\d+$", "[", "^.{2,3}$", "^\\u0061\\u0062+$", "^[\\u0061\\u0062]+$", "^\\u0041-\\u0042$", "^h\\u00e9llo$", "^[\\u00e0-\\u00ff]$", "^\\\\u0041$"}
var typeNames = []string{"string", "number", "integer", "boolean", "array", "object"}

type SchemaGenOpts struct {
	Formats  bool // may emit format keywords
	ReadOnly bool // may emit readOnly/writeOnly
	Hostile  bool // may emit legal-but-unusual constructs (exclusive without bound, multipleOf 0, bad pattern)
}

func randNum(r *Rng) float64 { return Pick(r, numPalette) }

func randSchema(r *Rng, depth int, o SchemaGenOpts) *GSchema {
	g := &GSchema{}
	if depth <= 0 && r.Chance(30) {
		return g
	}
	kind := r.Intn(9)
	setType := func(t ...string) {
		if r.Chance(85) {
			g.HasTypes, g.Types = true, t
		}
	}
	switch kind {
	case 0, 1: // numeric
		if r.Bool() {
			setType("number")
		} else {
			setType("integer")
		}
		if r.Chance(50) {
			g.Min = fp(randNum(r))
			g.ExMin = r.Chance(30)
		}
		if r.Chance(50) {
			g.Max = fp(randNum(r))
			g.ExMax = r.Chance(30)
		}
		if r.Chance(30) {
			g.Mult = fp(Pick(r, []float64{1, 2, 3, 0.5, 0.1, 5, 10}))
		}
		if o.Hostile && r.Chance(15) {
			switch r.Intn(3) {
			case 0:
				g.ExMin, g.Min = true, nil
			case 1:
				g.ExMax, g.Max = true, nil
			case 2:
				g.Mult = fp(0)
			}
		}
		if o.Formats && r.Chance(20) {
			g.Format = Pick(r, []string{"int32", "int64", "float", "double"})
		}
	case 2, 3: // string
		setType("string")
		if r.Chance(40) {
			g.MinLen = uint64(r.Intn(5))
		}
		if r.Chance(40) {
			g.MaxLen = up(uint64(r.Intn(6)))
		}
		if r.Chance(35) {
			g.Pattern = Pick(r, patPalette[:4])
			if r.Chance(10) {
				g.Pattern = patPalette[5]
			}
			if r.Chance(8) {
				g.Pattern = Pick(r, patPalette[6:]) // code point escapes, adjacent ones included
			}
			if o.Hostile && r.Chance(15) {
				g.Pattern = "["
			}
		}
		if o.Formats && r.Chance(25) {
			g.Format = Pick(r, []string{"date", "date-time", "byte", "email", "uuid", "x-wrapped", "x-noreason"})
		}
	case 4: // array
		setType("array")
		if r.Chance(40) {
			g.MinItems = uint64(r.Intn(4))
		}
		if r.Chance(40) {
			g.MaxItems = up(uint64(r.Intn(5)))
		}
		g.Unique = r.Chance(30)
		if r.Chance(70) {
			g.Items = randSchema(r, depth-1, o)
		}
	case 5, 6: // object
		setType("object")
		if r.Chance(80) {
			g.Props = map[string]*GSchema{}
			n := 1 + r.Intn(3)
			for i := 0; i < n; i++ {
				p := randSchema(r, depth-1, o)
				if o.ReadOnly && r.Chance(25) {
					if r.Bool() {
						p.ReadOnly = true
					} else {
						p.WriteOnly = true
					}
				}
				g.Props[Pick(r, keyPalette)] = p
			}
		}
		if r.Chance(50) {
			n := 1 + r.Intn(2)
			for i := 0; i < n; i++ {
				g.Required = append(g.Required, Pick(r, keyPalette))
			}
		}
		if r.Chance(25) {
			g.MinProps = uint64(r.Intn(3))
		}
		if r.Chance(25) {
			g.MaxProps = up(uint64(r.Intn(4)))
		}
		switch r.Intn(5) {
		case 0:
			g.ApHas = bp(false)
		case 1:
			g.ApHas = bp(true)
		case 2:
			g.Ap = randSchema(r, depth-1, o)
		}
	case 7: // composition
		n := 1 + r.Intn(3)
		var l []*GSchema
		for i := 0; i < n; i++ {
			l = append(l, randSchema(r, depth-1, o))
		}
		switch r.Intn(4) {
		case 0:
			g.OneOf = l
		case 1:
			g.AnyOf = l
		case 2:
			g.AllOf = l
		case 3:
			g.Not = l[0]
		}
		if r.Chance(30) {
			g.HasTypes, g.Types = true, []string{Pick(r, typeNames)}
		}
		if r.Chance(20) {
			g.AllOf = append(g.AllOf, randSchema(r, depth-1, o))
		}
	case 8: // untyped / multi-typed / enum / boolean
		switch r.Intn(5) {
		case 0:
			g.HasTypes, g.Types = true, []string{"boolean"}
		case 1:
			g.HasTypes, g.Types = true, []string{Pick(r, typeNames), Pick(r, typeNames)}
		case 2:
			g.HasTypes, g.Types = true, []string{Pick(r, typeNames), "null"}
		case 3:
			n := 1 + r.Intn(3)
			for i := 0; i < n; i++ {
				g.Enum = append(g.Enum, randValue(r, 1))
			}
		case 4:
			// a few stray keywords of different types on one untyped schema
			g.Min = fp(randNum(r))
			g.MaxLen = up(uint64(r.Intn(4)))
			g.MinItems = uint64(r.Intn(3))
		}
	}
	g.Nullable = r.Chance(15)
	if len(g.Enum) == 0 && r.Chance(8) {
		g.Enum = []any{randValue(r, 1), randValue(r, 0)}
	}
	return g
}

func randValue(r *Rng, depth int) any {
	k := r.Intn(10)
	if depth <= 0 && k >= 7 {
		k = r.Intn(7)
	}
	switch k {
	case 0:
		return nil
	case 1:
		return r.Bool()
	case 2, 3:
		return randNum(r)
	case 4, 5, 6:
		return Pick(r, strPalette)
	case 7, 8:
		n := r.Intn(4)
		l := make([]any, n)
		for i := range l {
			l[i] = randValue(r, depth-1)
		}
		if n >= 2 && r.Chance(30) {
			l[n-1] = l[0]
		}
		return l
	default:
		n := r.Intn(4)
		m := map[string]any{}
		for i := 0; i < n; i++ {
			m[Pick(r, keyPalette)] = randValue(r, depth-1)
		}
		return m
	}
}

// valueFor builds a value aimed at satisfying g (mostly valid), to be mutated by the caller.
func valueFor(r *Rng, g *GSchema, depth int) any {
	if g == nil || depth < 0 {
		return randValue(r, 1)
	}
	if len(g.Enum) > 0 && r.Chance(80) {
		return normJSON(Pick(r, g.Enum))
	}
	if g.Nullable && r.Chance(15) {
		return nil
	}
	for _, l := range [][]*GSchema{g.AllOf, g.OneOf, g.AnyOf} {
		if len(l) > 0 && r.Chance(70) {
			return valueFor(r, Pick(r, l), depth)
		}
	}
	t := ""
	if g.HasTypes && len(g.Types) > 0 {
		t = Pick(r, g.Types)
	} else {
		switch {
		case g.Props != nil || len(g.Required) > 0 || g.Ap != nil:
			t = "object"
		case g.Items != nil || g.Unique || g.MaxItems != nil:
			t = "array"
		case g.Pattern != "" || g.MaxLen != nil || g.MinLen > 0:
			t = "string"
		case g.Min != nil || g.Max != nil || g.Mult != nil:
			t = "number"
		default:
			t = Pick(r, typeNames)
		}
	}
	switch t {
	case "null":
		return nil
	case "boolean":
		return r.Bool()
	case "integer", "number":
		x := randNum(r)
		if g.Min != nil && r.Chance(70) {
			x = *g.Min + float64(r.Intn(3))
		}
		if g.Max != nil && r.Chance(50) {
			x = *g.Max - float64(r.Intn(3))
		}
		if g.Mult != nil && *g.Mult != 0 && r.Chance(60) {
			x = *g.Mult * float64(r.Intn(5))
		}
		if t == "integer" && r.Chance(85) {
			x = float64(int64(x))
		}
		return x
	case "string":
		s := Pick(r, strPalette)
		if g.Pattern != "" && r.Chance(60) {
			s = Pick(r, []string{"abc", "a", "ab", "12", "b", "zb", "abb", "A-B"})
		}
		if pool, ok := formatShaped[g.Format]; ok && r.Chance(75) {
			s = Pick(r, pool)
		}
		return s
	case "array":
		n := int(g.MinItems) + r.Intn(3)
		if g.MaxItems != nil && r.Chance(70) && n > int(*g.MaxItems) {
			n = int(*g.MaxItems)
		}
		l := make([]any, n)
		for i := range l {
			l[i] = valueFor(r, g.Items, depth-1)
		}
		// uniqueItems: a repeated element, or a string spelling the JSON text of a sibling
		// (distinct from it, whatever the implementation uses as comparison key)
		if g.Unique && n > 0 && r.Chance(30) {
			x := l[r.Intn(n)]
			if r.Bool() {
				l = append(l, x)
			} else if b, err := json.Marshal(x); err == nil {
				l = append(l, string(b))
			}
		}
		return l
	case "object":
		m := map[string]any{}
		for _, k := range g.Required {
			if r.Chance(85) {
				m[k] = valueFor(r, g.Props[k], depth-1)
			}
		}
		for _, k := range sortedKeys(g.Props) {
			if r.Chance(60) {
				m[k] = valueFor(r, g.Props[k], depth-1)
			}
		}
		if r.Chance(30) {
			m[Pick(r, []string{"zz", "extra", "a", "b"})] = valueFor(r, g.Ap, depth-1)
		}
		return m
	}
	return randValue(r, 1)
}

// mutate applies one small change to v
func mutateValue(r *Rng, v any) any {
	switch x := v.(type) {
	case float64:
		return x + Pick(r, []float64{1, -1, 0.5, -0.5, 100})
	case string:
		if r.Bool() {
			return x + Pick(r, strPalette)
		}
		if rs := []rune(x); len(rs) > 0 {
			return string(rs[:len(rs)/2])
		}
		return "q"
	case bool:
		return !x
	case []any:
		if len(x) > 0 && r.Chance(50) {
			i := r.Intn(len(x))
			y := append([]any{}, x...)
			y[i] = mutateValue(r, y[i])
			return y
		}
		if r.Bool() && len(x) > 0 {
			return x[:len(x)-1]
		}
		return append(append([]any{}, x...), randValue(r, 0))
	case map[string]any:
		y := map[string]any{}
		for k, e := range x {
			y[k] = e
		}
		keys := make([]string, 0, len(x))
		for k := range x {
			keys = append(keys, k)
		}
		sortStrings(keys)
		if len(keys) > 0 && r.Chance(40) {
			delete(y, Pick(r, keys))
		} else if len(keys) > 0 && r.Chance(50) {
			k := Pick(r, keys)
			y[k] = mutateValue(r, y[k])
		} else {
			y[Pick(r, keyPalette)] = randValue(r, 0)
		}
		return y
	}
	return randValue(r, 1)
}

// strings that have the lexical shape of a format (valid and borderline members)
var formatShaped = map[string][]string{
	"date":       {"2020-01-02", "2023-02-30", "1999-11-31", "2021-12-31", "0000-01-01", "2024-02-29", "2023-04-31"},
	"date-time":  {"2020-01-02T03:04:05Z", "2023-02-30T23:59:60Z", "1999-11-31T00:00:00+01:00", "2021-12-31T23:59:59.999Z"},
	"byte":       {"Zm9v", "Zm9vYg==", "Zm9vYmE=", "=Zm9", "Zm9v===="},
	"email":      {"a@b.co", "x.y@z", "q@q@q", "no-at"},
	"x-noreason": {"1a", "abc", "9", "x9"},
	"x-wrapped":  {"1.2.3.4", "999.1.1.1", "host.example", "10.0.0.256"},
	"uuid":       {"123e4567-e89b-12d3-a456-426614174000", "00000000-0000-0000-0000-000000000000", "123e4567-e89b-62d3-a456-426614174000"},
}

func sortedKeys[V any](m map[string]V) []string {
	keys := make([]string, 0, len(m))
	for k := range m {
		keys = append(keys, k)
	}
	sortStrings(keys)
	return keys
}
