package main

// C14, directed end-to-end cases with outcomes stated by hand (Go side): the middleware over the
// legacy router with servers of which one is a prefix of another, and responses declared both by
// exact status and by status class.

import (
	"fmt"
	"net/http"
	"net/http/httptest"
	"strings"

	"github.com/getkin/kin-openapi/openapi3"
	"github.com/getkin/kin-openapi/openapi3filter"
	"github.com/getkin/kin-openapi/routers"
	"github.com/getkin/kin-openapi/routers/gorillamux"
	"github.com/getkin/kin-openapi/routers/legacy"
)

const c14DirectDoc = `{"openapi":"3.0.3","info":{"title":"t","version":"1"},"servers":[{"url":"/v1"},{"url":"/v10"}],
"paths":{"/items":{"get":{"parameters":[{"name":"limit","in":"query","required":true,"schema":{"type":"integer","maximum":10}}],
 "responses":{
  "201":{"description":"exact","content":{"application/json":{"schema":{"type":"object","required":["id"],"properties":{"id":{"type":"integer"}}}}}},
  "2XX":{"description":"class","content":{"application/json":{"schema":{"type":"object","required":["name"],"properties":{"name":{"type":"string"}}}}}},
  "default":{"description":"other","content":{"application/json":{"schema":{"type":"object","required":["error"],"properties":{"error":{"type":"string"}}}}}}}}}}}`

func c14DirectCases(meta *Meta) {
	viol := func(sig string, c any, detail string) {
		meta.Histogram["oracle:"+sig]++
		meta.GoViolation = append(meta.GoViolation, map[string]any{"signature": sig, "cases": []any{c}, "go_observation": detail, "judgement": sig + ": " + detail})
	}
	doc, err := openapi3.NewLoader().LoadFromData([]byte(c14DirectDoc))
	if err != nil {
		viol("directed:document-does-not-load", nil, err.Error())
		return
	}
	type tc struct {
		URL        string
		Status     int
		Body       string
		Strict     bool
		WantCalled bool
		WantCode   int // what the client sees
	}
	cases := []tc{
		// one server is a prefix of the other: each request belongs to the server whose path it carries in full
		{"/v1/items?limit=5", 200, `{"name":"n"}`, true, true, 200}, {"/v10/items?limit=5", 200, `{"name":"n"}`, true, true, 200},
		{"/v10/items?limit=50", 200, `{"name":"n"}`, true, false, 400}, {"/v100/items?limit=5", 200, `{"name":"n"}`, true, false, 404}, {"/v/items?limit=5", 200, `{"name":"n"}`, true, false, 404},
		// the exact status wins over its class, the class over default
		{"/v1/items?limit=5", 201, `{"id":1}`, true, true, 201}, {"/v1/items?limit=5", 201, `{"name":"n"}`, true, true, 500}, {"/v1/items?limit=5", 202, `{"name":"n"}`, true, true, 202},
		{"/v1/items?limit=5", 202, `{"id":1}`, true, true, 500}, {"/v1/items?limit=5", 404, `{"error":"e"}`, true, true, 404}, {"/v1/items?limit=5", 404, `{"name":"n"}`, true, true, 500},
		{"/v1/items?limit=5", 201, `{"name":"n"}`, false, true, 201}, {"/v1/items?limit=5", 404, `{"name":"n"}`, false, true, 404},
	}
	for _, rname := range []string{"legacy", "gorillamux"} {
		var router routers.Router
		if rname == "legacy" {
			router, err = legacy.NewRouter(doc)
		} else {
			router, err = gorillamux.NewRouter(doc)
		}
		if err != nil {
			viol("directed:router-not-built", map[string]any{"router": rname}, err.Error())
			continue
		}
		for _, c := range cases {
			called := false
			h := http.HandlerFunc(func(w http.ResponseWriter, _ *http.Request) {
				called = true
				w.Header().Set("Content-Type", "application/json")
				w.WriteHeader(c.Status)
				w.Write([]byte(c.Body))
			})
			v := openapi3filter.NewValidator(router, openapi3filter.Strict(c.Strict))
			rec := httptest.NewRecorder()
			req := httptest.NewRequest("GET", c.URL, nil)
			desc := map[string]any{"router": rname, "request": "GET " + c.URL, "handler_status": c.Status, "handler_body": c.Body, "strict": c.Strict}
			meta.Histogram["directed end-to-end cases"]++
			if p := catchPanic(func() { v.Middleware(h).ServeHTTP(rec, req) }); p != nil {
				viol("directed:panic", desc, fmt.Sprint(p))
				continue
			}
			if called != c.WantCalled || rec.Code != c.WantCode {
				viol("directed:outcome", desc, fmt.Sprintf("handler ran=%v (expected %v), client status %d (expected %d), client body %q", called, c.WantCalled, rec.Code, c.WantCode, strings.TrimSpace(rec.Body.String())))
			} else if called && c.WantCode == c.Status && rec.Body.String() != c.Body {
				viol("directed:body", desc, fmt.Sprintf("client body %q, handler wrote %q", rec.Body.String(), c.Body))
			}
		}
	}
}
