package main

// C14, directed end-to-end cases with outcomes stated by hand (Go side): the middleware over the
// legacy router with servers of which one is a prefix of another, and responses declared both by
// exact status and by status class.

import (
	"context"
	"errors"
	"fmt"
	"io"
	"net/http"
	"net/http/httptest"
	"strings"

	"github.com/getkin/kin-openapi/openapi3"
	"github.com/getkin/kin-openapi/openapi3filter"
	"github.com/getkin/kin-openapi/routers"
	"github.com/getkin/kin-openapi/routers/gorillamux"
	"github.com/getkin/kin-openapi/routers/legacy"
)

const c14DirectDoc = `{"openapi":"3.0.3","info":{"title":"t","version":"1"},"servers":[{"url":"/v1"},{"url":"/v10"}],
"components":{"securitySchemes":{"key":{"type":"apiKey","in":"header","name":"X-Key"}}},
"paths":{
 "/accounts":{"post":{"requestBody":{"required":true,"content":{"application/json":{"schema":{"type":"object","required":["name","password"],"properties":{"name":{"type":"string"},"password":{"type":"string","writeOnly":true}}}}}},
  "responses":{"201":{"description":"created","content":{"application/json":{"schema":{"type":"object","required":["id","name"],"properties":{"id":{"type":"integer","readOnly":true},"name":{"type":"string"}}}}}}}}},
 "/things":{"parameters":[{"name":"version","in":"query","required":true,"schema":{"type":"integer","minimum":1}}],
  "get":{"parameters":[{"name":"version","in":"header","schema":{"type":"integer"}}],"responses":{"200":{"description":"ok","content":{"application/json":{"schema":{"type":"object"}}}}}}},
 "/notes":{"post":{"security":[{"key":[]},{}],"requestBody":{"content":{"application/json":{"schema":{"type":"object","required":["x"],"properties":{"x":{"type":"integer"}}}}}},
  "responses":{"200":{"description":"ok"}}}},
 "/rated":{"get":{"parameters":[{"name":"X-Filter","in":"header","schema":{"type":"object","required":["a"],"properties":{"a":{"type":"integer"}}}},
   {"name":"f","in":"query","style":"deepObject","explode":true,"schema":{"type":"object","minProperties":1,"properties":{"a":{"type":"integer"}}}},{"name":"other","in":"query","schema":{"type":"string"}}],
  "responses":{"200":{"description":"ok","headers":{"X-Rate":{"required":true,"schema":{"type":"integer","maximum":9}}},"content":{"application/json":{"schema":{"type":"object"}}}}}}},
 "/items":{"get":{"parameters":[{"name":"limit","in":"query","required":true,"schema":{"type":"integer","maximum":10}}],
 "responses":{
  "201":{"description":"exact","content":{"application/json":{"schema":{"type":"object","required":["id"],"properties":{"id":{"type":"integer"}}}}}},
  "2XX":{"description":"class","content":{"application/json":{"schema":{"type":"object","required":["name"],"properties":{"name":{"type":"string"}}}}}},
  "default":{"description":"other","content":{"application/json":{"schema":{"type":"object","required":["error"],"properties":{"error":{"type":"string"}}}}}}}}}}}`

func c14DirectCases(meta *Meta) {
	viol := func(sig string, c any, detail string) {
		meta.Histogram["oracle:"+sig]++
		meta.GoViolation = append(meta.GoViolation, map[string]any{"signature": sig, "cases": []any{c}, "go_observation": detail, "judgement": sig + ": " + detail})
	}
	doc, err := openapi3.NewLoader().LoadFromData([]byte(c14DirectDoc))
	if err != nil {
		viol("directed:document-does-not-load", nil, err.Error())
		return
	}
	type tc struct {
		URL        string
		Status     int
		Body       string
		Strict     bool
		WantCalled bool
		WantCode   int    // what the client sees
		Method     string // "" = GET
		ReqBody    string
		RespHdr    string // value the handler gives the response header X-Rate ("" = not set)
		ExclBody   bool   // Options.ExcludeResponseBody
	}
	get := func(url string, status int, body string, strict, wantCalled bool, wantCode int) tc {
		return tc{URL: url, Status: status, Body: body, Strict: strict, WantCalled: wantCalled, WantCode: wantCode}
	}
	cases := []tc{
		// one server is a prefix of the other: each request belongs to the server whose path it carries in full
		get("/v1/items?limit=5", 200, `{"name":"n"}`, true, true, 200), get("/v10/items?limit=5", 200, `{"name":"n"}`, true, true, 200),
		get("/v10/items?limit=50", 200, `{"name":"n"}`, true, false, 400), get("/v100/items?limit=5", 200, `{"name":"n"}`, true, false, 404), get("/v/items?limit=5", 200, `{"name":"n"}`, true, false, 404),
		// the exact status wins over its class, the class over default
		get("/v1/items?limit=5", 201, `{"id":1}`, true, true, 201), get("/v1/items?limit=5", 201, `{"name":"n"}`, true, true, 500), get("/v1/items?limit=5", 202, `{"name":"n"}`, true, true, 202),
		get("/v1/items?limit=5", 202, `{"id":1}`, true, true, 500), get("/v1/items?limit=5", 404, `{"error":"e"}`, true, true, 404), get("/v1/items?limit=5", 404, `{"name":"n"}`, true, true, 500),
		get("/v1/items?limit=5", 201, `{"name":"n"}`, false, true, 201), get("/v1/items?limit=5", 404, `{"name":"n"}`, false, true, 404),
	}
	post := func(url, reqBody string, status int, body string, wantCalled bool, wantCode int) tc {
		return tc{Method: "POST", ReqBody: reqBody, URL: url, Status: status, Body: body, Strict: true, WantCalled: wantCalled, WantCode: wantCode}
	}
	cases = append(cases,
		// a required write-only property must be in the request, a required read-only one in the response
		post("/v1/accounts", `{"name":"n","password":"p"}`, 201, `{"id":1,"name":"n"}`, true, 201), post("/v1/accounts", `{"name":"n"}`, 201, `{"id":1,"name":"n"}`, false, 400),
		post("/v1/accounts", `{"name":"n","password":"p"}`, 201, `{"name":"n"}`, true, 500),
		// optional authentication: the first alternative's callback reads the body and refuses, the empty requirement lets the request in - with its body
		get("/v1/things?version=3", 200, `{}`, true, true, 200), get("/v1/things?version=0", 200, `{}`, true, false, 400), get("/v1/things?version=abc", 200, `{}`, true, false, 400), get("/v1/things", 200, `{}`, true, false, 400),
		post("/v1/notes", `{"x":1}`, 200, ``, true, 200), post("/v1/notes", `{"y":1}`, 200, ``, false, 400), post("/v1/notes", `{"x":`, 200, ``, false, 400))
	rated := func(url, hdr string, excl, wantCalled bool, wantCode int) tc {
		return tc{URL: url, Status: 200, Body: `{}`, Strict: true, WantCalled: wantCalled, WantCode: wantCode, RespHdr: hdr, ExclBody: excl}
	}
	cases = append(cases,
		// an optional object parameter that is not sent is not there; a required response header is checked whatever the body options say
		rated("/v1/rated", "5", false, true, 200), rated("/v1/rated?other=x", "5", false, true, 200), rated("/v1/rated", "", false, true, 500), rated("/v1/rated", "abc", false, true, 500),
		rated("/v1/rated", "50", false, true, 500), rated("/v1/rated", "5", true, true, 200), rated("/v1/rated", "", true, true, 500), rated("/v1/rated", "abc", true, true, 500), rated("/v1/rated?other=x", "50", true, true, 500))
	for _, rname := range []string{"legacy", "gorillamux"} {
		var router routers.Router
		if rname == "legacy" {
			router, err = legacy.NewRouter(doc)
		} else {
			router, err = gorillamux.NewRouter(doc)
		}
		if err != nil {
			viol("directed:router-not-built", map[string]any{"router": rname}, err.Error())
			continue
		}
		for _, c := range cases {
			called := false
			h := http.HandlerFunc(func(w http.ResponseWriter, _ *http.Request) {
				called = true
				w.Header().Set("Content-Type", "application/json")
				if c.RespHdr != "" {
					w.Header().Set("X-Rate", c.RespHdr)
				}
				w.WriteHeader(c.Status)
				w.Write([]byte(c.Body))
			})
			v := openapi3filter.NewValidator(router, openapi3filter.Strict(c.Strict), openapi3filter.ValidationOptions(openapi3filter.Options{
				ExcludeResponseBody: c.ExclBody,
				AuthenticationFunc: func(_ context.Context, ai *openapi3filter.AuthenticationInput) error {
					// an authenticator that looks at the body (a signature check) and refuses
					if b := ai.RequestValidationInput.Request.Body; b != nil {
						io.ReadAll(b)
					}
					return errors.New("denied")
				}}))
			rec := httptest.NewRecorder()
			req := httptest.NewRequest("GET", c.URL, nil)
			if c.Method == "POST" {
				req = httptest.NewRequest("POST", c.URL, strings.NewReader(c.ReqBody))
				req.Header.Set("Content-Type", "application/json")
			}
			desc := map[string]any{"router": rname, "request": req.Method + " " + c.URL, "request_body": c.ReqBody, "handler_status": c.Status, "handler_body": c.Body, "strict": c.Strict, "handler_header_x_rate": c.RespHdr, "exclude_response_body": c.ExclBody}
			meta.Histogram["directed end-to-end cases"]++
			if p := catchPanic(func() { v.Middleware(h).ServeHTTP(rec, req) }); p != nil {
				viol("directed:panic", desc, fmt.Sprint(p))
				continue
			}
			if called != c.WantCalled || rec.Code != c.WantCode {
				viol("directed:outcome", desc, fmt.Sprintf("handler ran=%v (expected %v), client status %d (expected %d), client body %q", called, c.WantCalled, rec.Code, c.WantCode, strings.TrimSpace(rec.Body.String())))
			} else if called && c.WantCode == c.Status && rec.Body.String() != c.Body {
				viol("directed:body", desc, fmt.Sprintf("client body %q, handler wrote %q", rec.Body.String(), c.Body))
			}
		}
	}
}
