package main

// C05, deepObject query parameters against the Coq model (Model/DeepObject.v): the query, the
// schema tree, the decoder's result (value, found, error) and the oracle tables the model needs
// (strconv.ParseInt / ParseFloat / Atoi on the texts that occur) are printed as a Coq term; the
// judge is Exec/C05DeepExec.v.  Two streams: the serialisation of a value (with noise keys) - the
// value must come back - and hostile queries (conflicting keys, non-integer / negative / sparse /
// huge indexes, empty brackets, repeated keys, undeclared members, texts of the wrong type),
// where model and decoder must agree on value, found flag and error.

import (
	"errors"
	"fmt"
	"net/http/httptest"
	"net/url"
	"regexp"
	"sort"
	"strconv"

	"github.com/getkin/kin-openapi/openapi3"
	"github.com/getkin/kin-openapi/openapi3filter"
	"github.com/getkin/kin-openapi/routers"
)

type C05DeepQ struct {
	Name    string     `json:"name"`
	Schema  *DeepNode  `json:"schema"`
	Query   [][]string `json:"query"`           // key, value...
	Expect  any        `json:"value,omitempty"` // the value that was serialised (nil: hostile or absent)
	Hostile bool       `json:"hostile,omitempty"`
}
type C05DeepObs struct {
	Value any    `json:"value"`
	Found bool   `json:"found"`
	Err   int    `json:"err"` // 0 none, 1 ParseError, 2 other error, 3 panic
	Text  string `json:"error,omitempty"`
}

func (n *DeepNode) coq() string {
	switch n.Type {
	case "array":
		return "(DSArr " + n.Items.coq() + ")"
	case "object":
		var ps []string
		for _, k := range sortedKeys(n.Props) {
			ps = append(ps, fmt.Sprintf("(%s, %s)", coqStr(k), n.Props[k].coq()))
		}
		ap := "None"
		if n.AP != nil {
			ap = "(Some " + n.AP.coq() + ")"
		}
		return "(DSObj " + coqList(ps) + " " + ap + ")"
	case "":
		return "(DSPrim (prim_core None \"\"))"
	}
	return fmt.Sprintf("(DSPrim (prim_core (Some [%s]) %s))", coqStr(n.Type), coqStr(n.Format))
}

func (c *C05DeepQ) values() url.Values {
	q := url.Values{}
	for _, kv := range c.Query {
		for _, v := range kv[1:] {
			q.Add(kv[0], v)
		}
	}
	return q
}

func runDeepQ(c *C05DeepQ) C05DeepObs {
	p := &openapi3.Parameter{Name: c.Name, In: "query", Style: "deepObject", Explode: openapi3.BoolPtr(true), Schema: c.Schema.toSchema().NewRef()}
	op := openapi3.NewOperation()
	op.Parameters = openapi3.Parameters{&openapi3.ParameterRef{Value: p}}
	item := &openapi3.PathItem{Get: op}
	doc := &openapi3.T{OpenAPI: "3.0.0", Info: &openapi3.Info{Title: "t", Version: "1"}, Paths: openapi3.NewPaths()}
	route := &routers.Route{Spec: doc, Path: "/p", PathItem: item, Method: "GET", Operation: op}
	req := httptest.NewRequest("GET", "/p?"+c.values().Encode(), nil)
	in := &openapi3filter.RequestValidationInput{Request: req, Route: route, Options: &openapi3filter.Options{SkipSettingDefaults: true}}
	var o C05DeepObs
	var err error
	if pn := catchPanic(func() { o.Value, o.Found, err = openapi3filter.VerifDecodeStyledParameter(p, in) }); pn != nil {
		o.Err, o.Text = 3, fmt.Sprint(pn)
		return o
	}
	if err != nil {
		var pe *openapi3filter.ParseError
		o.Err, o.Text = 2, err.Error()
		if errors.As(err, &pe) {
			o.Err = 1
		}
		o.Value = nil
	}
	return o
}

var bracketRe = regexp.MustCompile(`\[(.*?)\]`)

func deepQCoq(c *C05DeepQ, o *C05DeepObs) string {
	q := c.values()
	keys := make([]string, 0, len(q))
	for k := range q {
		keys = append(keys, k)
	}
	sort.Strings(keys)
	var qs []string
	texts := map[string]bool{}
	idx := map[string]bool{}
	for _, k := range keys {
		qs = append(qs, fmt.Sprintf("(%s, %s)", coqStr(k), coqStrList(q[k])))
		for _, v := range q[k] {
			texts[v] = true
		}
		for _, m := range bracketRe.FindAllStringSubmatch(k, -1) {
			idx[m[1]] = true
		}
	}
	var i64, i32, fl, at []string
	for _, s := range sortedSet(texts) {
		if n, err := strconv.ParseInt(s, 0, 64); err == nil {
			i64 = append(i64, fmt.Sprintf("(%s, Some %s)", coqStr(s), coqZ(n)))
		}
		if n, err := strconv.ParseInt(s, 0, 32); err == nil {
			i32 = append(i32, fmt.Sprintf("(%s, Some %s)", coqStr(s), coqZ(n)))
		}
		if f, err := strconv.ParseFloat(s, 64); err == nil {
			fl = append(fl, fmt.Sprintf("(%s, Some %s)", coqStr(s), coqFloat(f)))
		}
	}
	for _, s := range sortedSet(idx) {
		if n, err := strconv.Atoi(s); err == nil {
			at = append(at, fmt.Sprintf("(%s, Some %s)", coqStr(s), coqZ(int64(n))))
		}
	}
	exp := "None"
	if c.Expect != nil {
		exp = "(Some " + coqPval(c.Expect) + ")"
	}
	return fmt.Sprintf("mkDeep %s %s %s %s %s %s %s %s %s %s %d%%N", coqStr(c.Name), c.Schema.coq(), coqList(qs), exp,
		coqList(i64), coqList(i32), coqList(fl), coqList(at), coqPval(o.Value), coqBool(o.Found), o.Err)
}

func sortedSet(m map[string]bool) []string {
	out := make([]string, 0, len(m))
	for k := range m {
		out = append(out, k)
	}
	sort.Strings(out)
	return out
}

func deepQFrom(dc *C05Deep) C05DeepQ {
	q := url.Values{}
	if dc.Value != nil {
		deepSerialise(q, dc.Name, dc.Value)
	}
	for k, vs := range dc.Noise {
		for _, v := range vs {
			q.Add(k, v)
		}
	}
	out := C05DeepQ{Name: dc.Name, Schema: dc.Schema, Expect: dc.Value}
	keys := make([]string, 0, len(q))
	for k := range q {
		keys = append(keys, k)
	}
	sort.Strings(keys)
	for _, k := range keys {
		out.Query = append(out.Query, append([]string{k}, q[k]...))
	}
	return out
}

// a hostile query for the schema: the serialisation of a value, damaged
func deepHostile(r *Rng) C05DeepQ {
	dc := deepRandom(r)
	if dc.Value == nil {
		dc.Value = deepValue(r, dc.Schema)
	}
	if r.Chance(30) {
		// an object that also takes undeclared members
		dc.Schema.AP = Pick(r, []*DeepNode{{Type: "string"}, {Type: "integer"}, {Type: "array", Items: &DeepNode{Type: "string"}}, {Type: "object", Props: map[string]*DeepNode{"x": {Type: "integer"}}}})
	}
	c := deepQFrom(&dc)
	c.Expect, c.Hostile = nil, true
	n := c.Name
	texts := []string{"1", "abc", "", "true", "1.5", "-2", "0x10", "007"}
	adds := [][]string{
		{n + "[a][x]", "1"}, {n + "[tags][-1]", "z"}, {n + "[tags][5]", "z"}, {n + "[tags][5000]", "z"}, {n + "[tags][01]", "z"}, {n + "[tags][+1]", "z"},
		{n + "[a]", "1"}, {n + "[a][b]", "2"}, {n + "[a][b][c]", "3"}, {n + "[]", "1"}, {n + "[a][]", "2"}, {n + "[a]x[b]", "3"}, {n + "[a", "4"}, {n + "[a]]", "5"},
		{n + "[id]", "1", "2"}, {n + "[unknown]", "1"}, {n + "[unknown][0]", "1"}, {n + "[b][0][a]", "q"}, {n + "[tags]", "notindexed"}, {n + "[id][0]", "9"}, {n + "[[a]]", "7"},
		{n + "[a][0]", "1"}, {n + "[b]", "x"}, {n + "x[a]", "1"}, {"[a]", "1"}, {n + "[tags][0][deep]", "1"}, {n + "[tags][2]", "w"},
	}
	for k := 0; k < 1+r.Intn(4); k++ {
		a := append([]string{}, Pick(r, adds)...)
		if r.Chance(40) {
			a[1] = Pick(r, texts)
		}
		replaced := false
		for i := range c.Query {
			if c.Query[i][0] == a[0] {
				c.Query[i], replaced = a, true
			}
		}
		if !replaced {
			c.Query = append(c.Query, a)
		}
	}
	if r.Chance(20) && len(c.Query) > 1 {
		i := r.Intn(len(c.Query))
		c.Query = append(c.Query[:i], c.Query[i+1:]...) // a member of the value goes missing
	}
	sort.Slice(c.Query, func(i, j int) bool { return c.Query[i][0] < c.Query[j][0] })
	return c
}

func deepQDirected() []C05DeepQ {
	obj := func(props map[string]*DeepNode) *DeepNode { return &DeepNode{Type: "object", Props: props} }
	arr := func(it *DeepNode) *DeepNode { return &DeepNode{Type: "array", Items: it} }
	i, s, b := &DeepNode{Type: "integer"}, &DeepNode{Type: "string"}, &DeepNode{Type: "boolean"}
	sch := obj(map[string]*DeepNode{"a": i, "b": s, "tags": arr(s), "o": obj(map[string]*DeepNode{"x": i, "y": arr(i)}), "rows": arr(obj(map[string]*DeepNode{"k": s, "on": b}))})
	mk := func(expect any, kvs ...string) C05DeepQ {
		c := C05DeepQ{Name: "f", Schema: sch, Expect: expect, Hostile: expect == nil}
		for j := 0; j+1 < len(kvs); j += 2 {
			c.Query = append(c.Query, []string{kvs[j], kvs[j+1]})
		}
		sort.Slice(c.Query, func(i, j int) bool { return c.Query[i][0] < c.Query[j][0] })
		return c
	}
	return []C05DeepQ{
		mk(map[string]any{"a": int64(1), "b": "x"}, "f[a]", "1", "f[b]", "x"),
		mk(map[string]any{"tags": []any{"p", "q"}}, "f[tags][0]", "p", "f[tags][1]", "q"),
		mk(map[string]any{"o": map[string]any{"x": int64(3), "y": []any{int64(4), int64(5)}}}, "f[o][x]", "3", "f[o][y][0]", "4", "f[o][y][1]", "5"),
		mk(map[string]any{"rows": []any{map[string]any{"k": "u", "on": true}, map[string]any{"k": "v"}}}, "f[rows][0][k]", "u", "f[rows][0][on]", "true", "f[rows][1][k]", "v"),
		// additionalProperties next to declared properties: a declared member keeps its declared type
		func() C05DeepQ {
			c := mk(map[string]any{"n": int64(5), "x": "a"}, "f[n]", "5", "f[x]", "a")
			c.Schema = &DeepNode{Type: "object", Props: map[string]*DeepNode{"n": i}, AP: s}
			return c
		}(),
		func() C05DeepQ {
			c := mk(map[string]any{"n": "5", "x": int64(7), "y": int64(8)}, "f[n]", "5", "f[x]", "7", "f[y]", "8")
			c.Schema = &DeepNode{Type: "object", Props: map[string]*DeepNode{"n": s}, AP: i}
			return c
		}(),
		mk(nil, "f[a]", "1", "f[a][b]", "2"), mk(nil, "f[tags][1]", "q"), mk(nil, "f[tags][x]", "q"), mk(nil, "f[tags][-1]", "q"), mk(nil, "f[tags]", "q"),
		mk(nil, "f[tags][4200]", "q"), mk(nil, "f[a]", "abc"), mk(nil, "f[a]", ""), mk(nil, "f[zz]", "1"), mk(nil, "f[]", "1"), mk(nil, "f[o]", "1"), mk(nil, "f[o][x][y]", "1"),
		mk(nil, "f[rows][0]", "1"), mk(nil, "f[rows][0][k][z]", "1"), mk(nil, "g[a]", "1"), mk(nil, "f", "1"), mk(nil, "fa]", "1"), mk(nil, "f[a]junk[b]", "1"),
	}
}
