package main

// C13, parameters against the model (Model/Defaults.v set_param_default): for every parameter of a
// request that validated, the texts the forwarded request carries for it - the default written the
// way the serialisation method reads it back when the parameter was absent, what was there otherwise.

import (
	"fmt"
	"net/http"
	"sort"
	"strconv"
)

// the text of a scalar default (independent of the library's own formatting)
func c13Text(v any) string {
	switch x := v.(type) {
	case string:
		return x
	case bool:
		return strconv.FormatBool(x)
	case float64:
		return strconv.FormatFloat(x, 'f', -1, 64)
	}
	return fmt.Sprint(v)
}

func c13ParamTerms(c *C13Case, q0, h0 map[string][]string, ck0 map[string][]string, o *C13Obs) (terms []string) {
	for i := range c.Params {
		p := &c.Params[i]
		if p.Schema == nil || (p.In != "query" && p.In != "header" && p.In != "cookie") {
			continue
		}
		// the same name declared twice in one location (shadowing aside) is outside the model
		twice := false
		for j := range c.Params {
			if j != i && c.Params[j].In == p.In && http.CanonicalHeaderKey(c.Params[j].Name) == http.CanonicalHeaderKey(p.Name) {
				twice = true
			}
		}
		if twice {
			continue
		}
		name := p.Name
		if p.In == "header" {
			name = http.CanonicalHeaderKey(p.Name)
		}
		ex := "None"
		if p.Explode != nil {
			ex = "(Some " + coqBool(*p.Explode) + ")"
		}
		def := fmt.Sprintf("(mkPDef %s %s \"\" %s false false %s)", c07LocCoq(p.In), coqStr(name), ex, p.Schema.Coq())
		entries := func(m map[string][]string) string {
			keys := make([]string, 0, len(m))
			for k := range m {
				keys = append(keys, k)
			}
			sort.Strings(keys)
			out := make([]string, 0, len(keys))
			for _, k := range keys {
				out = append(out, fmt.Sprintf("(%s, %s)", coqStr(k), coqStrList(m[k])))
			}
			return coqList(out)
		}
		var cks []string
		ckNames := make([]string, 0, len(ck0))
		for k := range ck0 {
			ckNames = append(ckNames, k)
		}
		sort.Strings(ckNames)
		for _, k := range ckNames {
			for _, v := range ck0[k] {
				cks = append(cks, fmt.Sprintf("(%s, %s)", coqStr(k), coqStr(v)))
			}
		}
		frag := fmt.Sprintf("(mkFrag [] %s %s %s)", entries(q0), entries(h0), coqList(cks))
		// oracles: default texts, and how every text in play parses
		var sprint []string
		texts := map[string]bool{}
		addDefault := func(d any) {
			sprint = append(sprint, fmt.Sprintf("(%s, %s)", coqJSON(d), coqStr(c13Text(d))))
			texts[c13Text(d)] = true
		}
		switch d := p.Schema.Default.(type) {
		case nil:
		case []any:
			for _, e := range d {
				addDefault(e)
			}
		case map[string]any:
			for _, k := range sortedKeys(d) {
				addDefault(d[k])
			}
		default:
			addDefault(d)
		}
		var src map[string][]string
		switch p.In {
		case "query":
			src = q0
		case "header":
			src = h0
		default:
			src = ck0
		}
		for _, v := range src[name] {
			texts[v] = true
		}
		var i64, i32, fl []string
		for _, s := range sortedSet(texts) {
			if n, err := strconv.ParseInt(s, 0, 64); err == nil {
				i64 = append(i64, fmt.Sprintf("(%s, Some %s)", coqStr(s), coqZ(n)))
			}
			if n, err := strconv.ParseInt(s, 0, 32); err == nil {
				i32 = append(i32, fmt.Sprintf("(%s, Some %s)", coqStr(s), coqZ(n)))
			}
			if f, err := strconv.ParseFloat(s, 64); err == nil {
				fl = append(fl, fmt.Sprintf("(%s, Some %s)", coqStr(s), coqFloat(f)))
			}
		}
		var after []string
		switch p.In {
		case "query":
			after = o.QueryAfter[name]
			if obj, isObj := p.Schema.Default.(map[string]any); isObj && (p.Explode == nil || *p.Explode) {
				// exploded: the members' names carry the default (the judge compares the parameter's own name,
				// under which the model writes nothing either); checked member by member on the Go side (c13DefaultIs)
				_ = obj
			}
		case "header":
			after = o.HeaderAfter[name]
		default:
			after = o.cookieAll[name]
		}
		terms = append(terms, fmt.Sprintf("mkC13P %s %s %s %s %s %s %s %s", def, frag, coqBool(c.Skip), coqList(sprint), coqList(i64), coqList(i32), coqList(fl), coqStrList(after)))
	}
	return
}
