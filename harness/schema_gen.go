package main

import (
	"encoding/json"
	"fmt"
	"math"
	"sort"
	"strconv"
	"strings"

	"github.com/getkin/kin-openapi/openapi3"
)

// GSchema mirrors coq/Model/Schema.v (score + children); JSON-serialisable for replay files.
type GSchema struct {
	Types      []string            `json:"types,omitempty"` // nil = no type keyword
	HasTypes   bool                `json:"has_types,omitempty"`
	Enum       []any               `json:"enum,omitempty"`
	Nullable   bool                `json:"nullable,omitempty"`
	ReadOnly   bool                `json:"readOnly,omitempty"`
	WriteOnly  bool                `json:"writeOnly,omitempty"`
	AllowEmpty bool                `json:"allowEmptyValue,omitempty"`
	Format     string              `json:"format,omitempty"`
	Unique     bool                `json:"uniqueItems,omitempty"`
	ExMin      bool                `json:"exclusiveMinimum,omitempty"`
	ExMax      bool                `json:"exclusiveMaximum,omitempty"`
	Min        *float64            `json:"minimum,omitempty"`
	Max        *float64            `json:"maximum,omitempty"`
	Mult       *float64            `json:"multipleOf,omitempty"`
	MinLen     uint64              `json:"minLength,omitempty"`
	MaxLen     *uint64             `json:"maxLength,omitempty"`
	Pattern    string              `json:"pattern,omitempty"`
	MinItems   uint64              `json:"minItems,omitempty"`
	MaxItems   *uint64             `json:"maxItems,omitempty"`
	Required   []string            `json:"required,omitempty"`
	MinProps   uint64              `json:"minProperties,omitempty"`
	MaxProps   *uint64             `json:"maxProperties,omitempty"`
	ApHas      *bool               `json:"additionalPropertiesAllowed,omitempty"`
	Default    any                 `json:"default,omitempty"`
	Not        *GSchema            `json:"not,omitempty"`
	OneOf      []*GSchema          `json:"oneOf,omitempty"`
	AnyOf      []*GSchema          `json:"anyOf,omitempty"`
	AllOf      []*GSchema          `json:"allOf,omitempty"`
	Items      *GSchema            `json:"items,omitempty"`
	Props      map[string]*GSchema `json:"properties,omitempty"`
	Ap         *GSchema            `json:"additionalProperties,omitempty"`
}

func (g *GSchema) ToOpenAPI() *openapi3.Schema {
	s := &openapi3.Schema{}
	if g.HasTypes {
		t := openapi3.Types(append([]string{}, g.Types...))
		s.Type = &t
	}
	for _, e := range g.Enum {
		s.Enum = append(s.Enum, normJSON(e))
	}
	s.Nullable, s.ReadOnly, s.WriteOnly, s.AllowEmptyValue = g.Nullable, g.ReadOnly, g.WriteOnly, g.AllowEmpty
	s.Format, s.UniqueItems, s.ExclusiveMin, s.ExclusiveMax = g.Format, g.Unique, g.ExMin, g.ExMax
	s.Min, s.Max, s.MultipleOf = g.Min, g.Max, g.Mult
	s.MinLength, s.MaxLength, s.Pattern = g.MinLen, g.MaxLen, g.Pattern
	s.MinItems, s.MaxItems = g.MinItems, g.MaxItems
	s.Required = append([]string(nil), g.Required...)
	s.MinProps, s.MaxProps = g.MinProps, g.MaxProps
	s.AdditionalProperties.Has = g.ApHas
	if g.Default != nil {
		s.Default = normJSON(g.Default)
	}
	if g.Not != nil {
		s.Not = g.Not.ToOpenAPI().NewRef()
	}
	for _, x := range g.OneOf {
		s.OneOf = append(s.OneOf, x.ToOpenAPI().NewRef())
	}
	for _, x := range g.AnyOf {
		s.AnyOf = append(s.AnyOf, x.ToOpenAPI().NewRef())
	}
	for _, x := range g.AllOf {
		s.AllOf = append(s.AllOf, x.ToOpenAPI().NewRef())
	}
	if g.Items != nil {
		s.Items = g.Items.ToOpenAPI().NewRef()
	}
	if g.Props != nil {
		s.Properties = openapi3.Schemas{}
		for k, p := range g.Props {
			s.Properties[k] = p.ToOpenAPI().NewRef()
		}
	}
	if g.Ap != nil {
		s.AdditionalProperties.Schema = g.Ap.ToOpenAPI().NewRef()
	}
	return s
}

// normJSON turns every number into float64 (what encoding/json produces), recursively.
func normJSON(v any) any {
	switch x := v.(type) {
	case int:
		return float64(x)
	case int64:
		return float64(x)
	case json.Number:
		f, _ := x.Float64()
		return f
	case []any:
		out := make([]any, len(x))
		for i := range x {
			out[i] = normJSON(x[i])
		}
		return out
	case map[string]any:
		out := make(map[string]any, len(x))
		for k, e := range x {
			out[k] = normJSON(e)
		}
		return out
	}
	return v
}

func coqFloat(f float64) string {
	if math.IsNaN(f) {
		return "nan%float"
	}
	if math.IsInf(f, 1) {
		return "infinity%float"
	}
	if math.IsInf(f, -1) {
		return "neg_infinity%float"
	}
	s := strconv.FormatFloat(f, 'x', -1, 64)
	if strings.HasPrefix(s, "-") {
		return "(" + s + ")%float"
	}
	return s + "%float"
}

func coqJSON(v any) string {
	switch x := v.(type) {
	case nil:
		return "JNull"
	case bool:
		return "(JBool " + coqBool(x) + ")"
	case float64:
		return "(JNum " + coqFloat(x) + ")"
	case int:
		return "(JNum " + coqFloat(float64(x)) + ")"
	case int64:
		return "(JNum " + coqFloat(float64(x)) + ")"
	case int32:
		return "(JNum " + coqFloat(float64(x)) + ")"
	case string:
		return "(JStr " + coqStr(x) + ")"
	case []any:
		out := make([]string, len(x))
		for i := range x {
			out[i] = coqJSON(x[i])
		}
		return "(JArr " + coqList(out) + ")"
	case map[string]any:
		keys := make([]string, 0, len(x))
		for k := range x {
			keys = append(keys, k)
		}
		sort.Strings(keys)
		out := make([]string, len(keys))
		for i, k := range keys {
			out[i] = "(" + coqStr(k) + ", " + coqJSON(x[k]) + ")"
		}
		return "(JObj " + coqList(out) + ")"
	}
	panic(fmt.Sprintf("coqJSON: %T", v))
}

func coqOptFloat(p *float64) string {
	if p == nil {
		return "None"
	}
	return "(Some " + coqFloat(*p) + ")"
}
func coqOptN(p *uint64) string {
	if p == nil {
		return "None"
	}
	return "(Some " + coqN(*p) + ")"
}
func coqOptBool(p *bool) string {
	if p == nil {
		return "None"
	}
	return "(Some " + coqBool(*p) + ")"
}

func (g *GSchema) coqCore() string {
	types := "None"
	if g.HasTypes {
		types = "(Some " + coqStrList(g.Types) + ")"
	}
	enum := make([]string, len(g.Enum))
	for i, e := range g.Enum {
		enum[i] = coqJSON(normJSON(e))
	}
	ctor, dflt := "mkCore", ""
	if g.Default != nil {
		ctor, dflt = "mkCoreD", " (Some "+coqJSON(normJSON(g.Default))+")"
	}
	return fmt.Sprintf("(%s %s %s %s %s %s %s %s %s %s %s %s %s %s %s %s %s %s %s %s %s %s %s%s)",
		ctor, types, coqList(enum), coqBool(g.Nullable), coqBool(g.ReadOnly), coqBool(g.WriteOnly), coqBool(g.AllowEmpty),
		coqStr(g.Format), coqBool(g.Unique), coqBool(g.ExMin), coqBool(g.ExMax),
		coqOptFloat(g.Min), coqOptFloat(g.Max), coqOptFloat(g.Mult),
		coqN(g.MinLen), coqOptN(g.MaxLen), coqStr(g.Pattern), coqN(g.MinItems), coqOptN(g.MaxItems),
		coqStrList(g.Required), coqN(g.MinProps), coqOptN(g.MaxProps), coqOptBool(g.ApHas), dflt)
}

func coqOptSchema(g *GSchema) string {
	if g == nil {
		return "None"
	}
	return "(Some " + g.Coq() + ")"
}
func coqSchemaList(l []*GSchema) string {
	out := make([]string, len(l))
	for i, x := range l {
		out[i] = x.Coq()
	}
	return coqList(out)
}

func (g *GSchema) Coq() string {
	keys := make([]string, 0, len(g.Props))
	for k := range g.Props {
		keys = append(keys, k)
	}
	sort.Strings(keys)
	props := make([]string, len(keys))
	for i, k := range keys {
		props[i] = "(" + coqStr(k) + ", " + g.Props[k].Coq() + ")"
	}
	return fmt.Sprintf("(Sch %s %s %s %s %s %s %s %s)", g.coqCore(), coqOptSchema(g.Not), coqSchemaList(g.OneOf),
		coqSchemaList(g.AnyOf), coqSchemaList(g.AllOf), coqOptSchema(g.Items), coqList(props), coqOptSchema(g.Ap))
}

// walk calls f on g and every sub-schema
func (g *GSchema) walk(f func(*GSchema)) {
	if g == nil {
		return
	}
	f(g)
	g.Not.walk(f)
	for _, x := range g.OneOf {
		x.walk(f)
	}
	for _, x := range g.AnyOf {
		x.walk(f)
	}
	for _, x := range g.AllOf {
		x.walk(f)
	}
	g.Items.walk(f)
	for _, k := range sortedKeys(g.Props) {
		g.Props[k].walk(f)
	}
	g.Ap.walk(f)
}

func walkJSON(v any, f func(any)) {
	f(v)
	switch x := v.(type) {
	case []any:
		for _, e := range x {
			walkJSON(e, f)
		}
	case map[string]any:
		for _, e := range x {
			walkJSON(e, f)
		}
	}
}

func fp(f float64) *float64 { return &f }
func up(u uint64) *uint64   { return &u }
func bp(b bool) *bool       { return &b }
