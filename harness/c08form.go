package main

// C08, form-encoded response bodies (Go side): the encoding object of the media type says how an array
// property is written; the response is decoded by it and judged by the schema.

import (
	"context"
	"fmt"
	"io"
	"net/http"
	"net/http/httptest"
	"strings"

	"github.com/getkin/kin-openapi/openapi3"
	"github.com/getkin/kin-openapi/openapi3filter"
	"github.com/getkin/kin-openapi/routers"
)

func c08FormResponses(meta *Meta) {
	arr := openapi3.NewArraySchema().WithItems(openapi3.NewIntegerSchema()).WithMaxItems(3)
	obj := openapi3.NewObjectSchema().WithProperty("ids", arr).WithProperty("name", openapi3.NewStringSchema().WithMaxLength(4))
	obj.Required = []string{"ids"}
	t, f := true, false
	cases := []struct {
		style   string
		explode *bool
		body    string
		want    bool
	}{
		{"spaceDelimited", &f, "ids=1%202%203", true}, {"spaceDelimited", &f, "ids=1%202%203%204", false}, {"spaceDelimited", &f, "ids=1%20x", false},
		{"pipeDelimited", &f, "ids=1%7C2", true}, {"pipeDelimited", &f, "ids=1%7C2%7C3%7C4", false},
		{"form", &f, "ids=1,2,3", true}, {"form", &f, "ids=1,2,3,4", false}, {"form", &t, "ids=1&ids=2", true}, {"form", &t, "ids=1&ids=2&ids=3&ids=4", false},
		{"", nil, "ids=1&ids=2&name=abcd", true}, {"", nil, "ids=1&name=abcde", false}, {"", nil, "name=ab", false},
	}
	for _, c := range cases {
		mt := openapi3.NewMediaType().WithSchema(obj)
		if c.style != "" {
			mt.Encoding = map[string]*openapi3.Encoding{"ids": {Style: c.style, Explode: c.explode}}
		}
		desc := "ok"
		resp := &openapi3.Response{Description: &desc, Content: openapi3.Content{"application/x-www-form-urlencoded": mt}}
		op := openapi3.NewOperation()
		op.Responses = openapi3.NewResponses()
		op.Responses.Set("200", &openapi3.ResponseRef{Value: resp})
		item := &openapi3.PathItem{Get: op}
		doc := &openapi3.T{OpenAPI: "3.0.0", Info: &openapi3.Info{Title: "t", Version: "1"}, Paths: openapi3.NewPaths()}
		route := &routers.Route{Spec: doc, Path: "/f", PathItem: item, Method: "GET", Operation: op}
		hdr := http.Header{}
		hdr.Set("Content-Type", "application/x-www-form-urlencoded")
		in := &openapi3filter.ResponseValidationInput{RequestValidationInput: &openapi3filter.RequestValidationInput{Request: httptest.NewRequest("GET", "/f", nil), Route: route},
			Status: 200, Header: hdr, Body: io.NopCloser(strings.NewReader(c.body)), Options: &openapi3filter.Options{IncludeResponseStatus: true}}
		var err error
		pn := catchPanic(func() { err = openapi3filter.ValidateResponse(context.Background(), in) })
		meta.Histogram["form-encoded responses"]++
		d := map[string]any{"encoding_style": c.style, "explode": c.explode, "body": c.body}
		if pn != nil {
			meta.GoViolation = append(meta.GoViolation, map[string]any{"signature": "form-response:panic", "cases": []any{d}, "go_observation": fmt.Sprint(pn), "judgement": "ValidateResponse panicked"})
		} else if (err == nil) != c.want {
			meta.GoViolation = append(meta.GoViolation, map[string]any{"signature": "form-response:verdict", "cases": []any{d}, "go_observation": fmt.Sprint(err),
				"judgement": fmt.Sprintf("a form-encoded response body %q under encoding style %q: accepted=%v, expected %v", c.body, c.style, err == nil, c.want)})
		}
	}
}
