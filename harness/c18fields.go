package main

// C18, structs that embed structs (Go side + Model/Fields.v): struct types are assembled with
// reflect.StructOf from a random embedding tree - tagged fields whose JSON names collide across
// levels - every field is given a value that identifies it, and three things are observed per JSON
// name: the property the generator made, the field encoding/json wrote, and whether the encoding
// validates.  The Coq judge (Exec/C18FieldsExec.v) compares them with gen_property / json_field.

import (
	"encoding/json"
	"fmt"
	"reflect"
	"strings"

	"github.com/getkin/kin-openapi/openapi3"
	"github.com/getkin/kin-openapi/openapi3gen"
)

type fdecl struct {
	Name  string   `json:"name,omitempty"` // JSON name of a field
	Ty    int      `json:"type"`           // index into c18FieldTypes
	Embed []*fdecl `json:"embed,omitempty"`
	IsEmb bool     `json:"embedded,omitempty"`
	id    int      // global number of the field (its value identifies it)
}

type C18Fields struct {
	Decl []*fdecl `json:"fields"`
}

type C18FieldsObs struct {
	Encoding string         `json:"encoding"`
	Schema   string         `json:"schema"`
	Gen      map[string]int `json:"generated_property_types"`
	JSON     map[string]int `json:"written_field_types"`
	Accepted bool           `json:"accepted"`
	Err      string         `json:"error,omitempty"`
}

var c18FieldNames = []string{"a", "b", "c", "d"} // rank in byte order = index

var c18FieldTypes = []struct {
	t            reflect.Type
	typ, format  string
	stringValued bool
}{
	{reflect.TypeOf(""), "string", "", true},
	{reflect.TypeOf(float64(0)), "number", "double", false},
	{reflect.TypeOf(int64(0)), "integer", "int64", false},
	{reflect.TypeOf(int32(0)), "integer", "int32", false},
	{reflect.TypeOf(float32(0)), "number", "float", false},
}

func c18FieldsGen(r *Rng, depth int, budget *int, next *int) []*fdecl {
	var out []*fdecl
	k := 1 + r.Intn(3)
	for i := 0; i < k && *budget > 0; i++ {
		if depth < 3 && r.Chance(35) {
			sub := c18FieldsGen(r, depth+1, budget, next)
			if len(sub) > 0 {
				out = append(out, &fdecl{IsEmb: true, Embed: sub})
			}
			continue
		}
		*budget--
		f := &fdecl{Name: Pick(r, c18FieldNames), Ty: r.Intn(len(c18FieldTypes)), id: *next}
		*next++
		out = append(out, f)
	}
	// Go (and the generator's input) has no struct with two fields of one JSON name at the same level
	// of the same struct? It has: only field identifiers must differ. Keep them.
	return out
}

func (f *fdecl) coq() string {
	if f.IsEmb {
		var ps []string
		for _, s := range f.Embed {
			ps = append(ps, s.coq())
		}
		return "FEmbed " + coqList(ps)
	}
	rank := 0
	for i, n := range c18FieldNames {
		if n == f.Name {
			rank = i
		}
	}
	return fmt.Sprintf("FField %d%%N %d%%N", rank, f.Ty)
}

func c18StructOf(fs []*fdecl, n *int) reflect.Type {
	var sf []reflect.StructField
	for _, f := range fs {
		*n++
		if f.IsEmb {
			sf = append(sf, reflect.StructField{Name: fmt.Sprintf("E%d", *n), Type: c18StructOf(f.Embed, n), Anonymous: true})
		} else {
			sf = append(sf, reflect.StructField{Name: fmt.Sprintf("F%d", *n), Type: c18FieldTypes[f.Ty].t, Tag: reflect.StructTag(fmt.Sprintf(`json:"%s"`, f.Name))})
		}
	}
	return reflect.StructOf(sf)
}

func c18Fill(v reflect.Value, fs []*fdecl) {
	for i, f := range fs {
		fv := v.Field(i)
		if f.IsEmb {
			c18Fill(fv, f.Embed)
			continue
		}
		switch fv.Kind() {
		case reflect.String:
			fv.SetString(fmt.Sprintf("f%d", f.id))
		case reflect.Float32, reflect.Float64:
			fv.SetFloat(float64(f.id + 1))
		default:
			fv.SetInt(int64(f.id + 1))
		}
	}
}

func c18AllFields(fs []*fdecl, out *[]*fdecl) {
	for _, f := range fs {
		if f.IsEmb {
			c18AllFields(f.Embed, out)
		} else {
			*out = append(*out, f)
		}
	}
}

func runC18Fields(c *C18Fields) (o C18FieldsObs, term string) {
	// the harness numbers the fields itself (replayed cases carry no ids)
	var all []*fdecl
	c18AllFields(c.Decl, &all)
	for i, f := range all {
		f.id = i
	}
	n := 0
	var rt reflect.Type
	if p := catchPanic(func() { rt = c18StructOf(c.Decl, &n) }); p != nil {
		o.Err = "reflect: " + fmt.Sprint(p)
		return o, ""
	}
	v := reflect.New(rt).Elem()
	c18Fill(v, c.Decl)
	b, err := json.Marshal(v.Interface())
	if err != nil {
		o.Err = "marshal: " + err.Error()
		return o, ""
	}
	o.Encoding = string(b)
	schemas := openapi3.Schemas{}
	var ref *openapi3.SchemaRef
	if p := catchPanic(func() { ref, err = openapi3gen.NewSchemaRefForValue(reflect.Zero(rt).Interface(), schemas) }); p != nil || err != nil || ref == nil || ref.Value == nil {
		o.Err = fmt.Sprint("generator: ", p, err)
		return o, ""
	}
	sb, _ := json.Marshal(ref.Value)
	o.Schema = string(sb)
	o.Gen, o.JSON = map[string]int{}, map[string]int{}
	for name, pr := range ref.Value.Properties {
		o.Gen[name] = -1
		if pr == nil || pr.Value == nil {
			continue
		}
		for i, ft := range c18FieldTypes {
			if pr.Value.Type.Is(ft.typ) && pr.Value.Format == ft.format {
				o.Gen[name] = i
			}
		}
	}
	var dec map[string]any
	json.Unmarshal(b, &dec)
	for name, x := range dec {
		o.JSON[name] = -1
		for _, f := range all {
			if f.Name != name {
				continue
			}
			switch y := x.(type) {
			case string:
				if c18FieldTypes[f.Ty].stringValued && y == fmt.Sprintf("f%d", f.id) {
					o.JSON[name] = f.Ty
				}
			case float64:
				if !c18FieldTypes[f.Ty].stringValued && y == float64(f.id+1) {
					o.JSON[name] = f.Ty
				}
			}
		}
	}
	var verr error
	var anyv any
	json.Unmarshal(b, &anyv)
	if p := catchPanic(func() { verr = ref.Value.VisitJSON(anyv) }); p != nil {
		verr = fmt.Errorf("panic: %v", p)
	}
	o.Accepted = verr == nil
	if verr != nil {
		o.Err = strings.SplitN(verr.Error(), "\n", 2)[0]
	}
	pairs := func(m map[string]int) string {
		var ps []string
		for i, name := range c18FieldNames {
			if t, ok := m[name]; ok && t >= 0 {
				ps = append(ps, fmt.Sprintf("(%d%%N, Some %d%%N)", i, t))
			} else if ok {
				ps = append(ps, fmt.Sprintf("(%d%%N, Some 99%%N)", i)) // a type outside the pool
			} else {
				ps = append(ps, fmt.Sprintf("(%d%%N, None)", i))
			}
		}
		return coqList(ps)
	}
	var ds []string
	for _, f := range c.Decl {
		ds = append(ds, f.coq())
	}
	term = fmt.Sprintf("mkFC %s [0;1;2;3]%%N %s %s %s", coqList(ds), pairs(o.Gen), pairs(o.JSON), coqBool(o.Accepted))
	return o, term
}

func c18FieldsCases(r *Rng, n int) []C18Fields {
	F := func(name string, ty int) *fdecl { return &fdecl{Name: name, Ty: ty} }
	E := func(fs ...*fdecl) *fdecl { return &fdecl{IsEmb: true, Embed: fs} }
	out := []C18Fields{
		{Decl: []*fdecl{F("a", 0), E(F("a", 2), F("b", 1))}},                     // outer field first, embedded later
		{Decl: []*fdecl{E(F("a", 2), F("b", 1)), F("a", 0)}},                     // embedded first
		{Decl: []*fdecl{F("b", 3), E(E(F("b", 0), F("c", 1)), F("d", 2))}},       // two levels down
		{Decl: []*fdecl{E(F("a", 2)), E(F("a", 0))}},                             // two of one depth: none is written
		{Decl: []*fdecl{E(F("a", 2)), E(F("a", 0)), F("a", 4)}},                  // ... unless a shallower one exists
		{Decl: []*fdecl{E(E(F("a", 1))), E(F("a", 3)), F("b", 0)}},               // depths 3 and 2
		{Decl: []*fdecl{E(F("a", 3)), E(E(F("a", 1))), F("b", 0)}},               // the same, other order
		{Decl: []*fdecl{F("a", 1), F("b", 2), F("c", 3), F("d", 0)}},             // no embedding
		{Decl: []*fdecl{E(F("c", 0), E(F("c", 1), E(F("c", 2)))), E(F("d", 4))}}, // a chain
	}
	for i := 0; i < n; i++ {
		budget, next := 3+r.Intn(7), 0
		d := c18FieldsGen(r, 1, &budget, &next)
		if len(d) > 0 {
			out = append(out, C18Fields{Decl: d})
		}
	}
	return out
}
